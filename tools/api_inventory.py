#!/usr/bin/env python3
"""Entry-point inventory: every `pub fn` of dryoc's public modules (test modules stripped) and the
harness sources that name it. A name nobody mentions is an entry point no check drives directly.
usage: tools/api_inventory.py [--missing-only]"""
import os, re, sys
REPO, ROOT = "/repo/src", "/verif"
PRIVATE = {"error.rs", "argon2.rs", "bytes_serde.rs", "scalarmult_curve25519.rs", "siphash24.rs",
           "crypto_box_impl.rs", "crypto_secretbox_impl.rs", "generichash_blake2b.rs"}
PRIVATE_DIRS = {"blake2b", "poly1305"}
fns = {}
for root, _, fs in os.walk(REPO):
    if os.path.basename(root) in PRIVATE_DIRS: continue
    for f in fs:
        if not f.endswith(".rs") or f in PRIVATE: continue
        p = os.path.join(root, f); t = open(p).read()
        i = t.find("#[cfg(test)]")
        if i > 0: t = t[:i]
        for m in re.finditer(r"^\s*pub (?:const )?(?:unsafe )?fn ([a-z_0-9]+)", t, re.M):
            fns.setdefault(m.group(1), set()).add(os.path.relpath(p, REPO))
srcs = {}
for d in ("mc/src", "typestate", "conf"):
    for root, _, fs in os.walk(os.path.join(ROOT, d)):
        if "work" in root: continue
        for f in fs:
            if f.endswith((".rs", ".py")): srcs[os.path.relpath(os.path.join(root, f), ROOT)] = open(os.path.join(root, f)).read()
missing = []
for n in sorted(fns):
    users = [k for k, t in srcs.items() if re.search(r"\b" + n + r"\b", t)]
    if not users: missing.append(n)
    if "--missing-only" not in sys.argv:
        print(f"{n:55s} {','.join(sorted(fns[n])):60s} {' '.join(sorted(os.path.basename(u) for u in users)) or '-- not driven directly --'}")
print(f"# public functions: {len(fns)}; named by the harness: {len(fns) - len(missing)}; not named: {len(missing)}")
for n in missing: print("#   ", n, sorted(fns[n]))
