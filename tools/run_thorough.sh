#!/bin/bash
# runs every thorough tier sequentially, keeps a copy of each evidence file
cd /verif
for c in "$@"; do
  s=$(date +%s)
  bin/check $c thorough > logs/thorough-$c.log 2>&1
  rc=$?
  e=$(date +%s)
  cp evidence/$c.json thorough_results/$c.json 2>/dev/null
  echo "$c rc=$rc wall=$((e-s))s $(grep -E 'PASS|VIOLATION|MACHINERY' logs/thorough-$c.log | head -2 | tr '\n' ' ')" >> logs/thorough-summary.txt
done
echo ALLDONE >> logs/thorough-summary.txt
