#!/usr/bin/env python3
"""Generates the table of target X25519 outputs ("shared secrets") with structured byte patterns
used by C05's constructed-peer-key section, each with the Edwards encoding of a torsion-free
point T whose Montgomery u-coordinate is that target.  The harness computes, with libsodium,
P = [k^-1 mod l]T for its own clamped scalar k and re-confirms X25519(k, P) == u before using
the case, so nothing in this table is trusted.   usage: sparse_secret_vectors.py > table"""
import sys, os, random
_src = open(os.path.join(os.path.dirname(os.path.abspath(__file__)), '..', 'ref', 'curve_check.py')).read()
exec(_src.split("H = lambda")[0])   # the field / group helpers only (P, L, inv, pmul, peq, recover_x, compress)

IDENT = (0, 1, 1, 0)
def point_for_u(u):
    if u % P in (0, 1, P - 1): return None
    y = (u - 1) * inv(u + 1) % P
    x = recover_x(y, 0)
    if x is None: return None                      # u is on the twist
    T = (x, y, 1, x * y % P)
    if not peq(pmul(L, T), IDENT): return None     # has a torsion component
    return T

def first_valid(cands):
    for u in cands:
        if u >= P: continue
        T = point_for_u(u)
        if T is not None: return u, T
    raise SystemExit("no candidate")

rng = random.Random(0xC05)
M128 = (1 << 128) - 1
fam = []
fam.append(("u=9", [9]))
fam.append(("low-half-only small", range(10, 4000)))
fam.append(("low-half-only one byte", [b << (8 * i) for i in range(1, 16) for b in range(1, 256)]))
fam.append(("low-half-only dense", [rng.getrandbits(128) for _ in range(400)]))
fam.append(("high-half-only small", [n << 128 for n in range(1, 4000)]))
fam.append(("high-half-only dense", [(rng.getrandbits(127)) << 128 for _ in range(400)]))
def disjoint():
    while True:
        lo = rng.getrandbits(128); hi = (~lo) & (M128 >> 1)
        yield lo | (hi << 128)
def disjoint_sparse():
    while True:
        lo = rng.getrandbits(128) & rng.getrandbits(128); hi = rng.getrandbits(127) & ~lo & rng.getrandbits(127)
        yield lo | (hi << 128)
import itertools
fam.append(("halves bitwise disjoint (complement)", itertools.islice(disjoint(), 400)))
fam.append(("halves bitwise disjoint (sparse)", itertools.islice(disjoint_sparse(), 400)))
fam.append(("halves equal", [(lo | (lo << 128)) & ((1 << 255) - 1) for lo in (rng.getrandbits(127) for _ in range(400))]))
fam.append(("one bit per 64-bit word", [sum(1 << (64 * w + rng.randrange(63)) for w in range(4)) for _ in range(400)]))
fam.append(("single non-zero byte high", [b << (8 * i) for i in range(16, 32) for b in range(1, 128)]))
out = []
for name, c in fam:
    c = list(c)
    # two hits per family
    u1, T1 = first_valid(c)
    out.append((name, u1, T1))
    rest = [x for x in c if x != u1]
    try:
        u2, T2 = first_valid(rest); out.append((name, u2, T2))
    except SystemExit:
        pass
for name, u, T in out:
    print('    ("%s", "%s", "%s"),' % (name, u.to_bytes(32, 'little').hex(), compress(T).hex()))
