#!/bin/bash
# usage: [CHECKS="C04 C15"] tools/run_all.sh <tier> <seed>   — runs every (or the named) check, prints one line each
cd /verif
T=${1:-quick}; S=${2:-0}
for c in ${CHECKS:-C01 C02 C03 C04 C05 C06 C07 C08 C09 C10 C11 C12 C13 C14 C15 C16 C17 C18 C19 C20}; do
  s=$(date +%s.%N)
  out=$(VERIF_SEED=$S bin/check $c $T 2>&1); rc=$?
  e=$(date +%s.%N)
  printf "%s seed=%s rc=%s wall=%.1fs %s\n" $c $S $rc $(echo "$e - $s" | bc) "$(echo "$out" | grep -E '^VIOLATION|^MACHINERY|^KNOWN' | head -2 | tr '\n' ' ')"
done
