#!/usr/bin/env python3
"""Regenerates /verif/MANIFEST.json from the table below (single source of truth)."""
import json, subprocess, os
ROOT = "/verif"
ALL = ["C%02d" % i for i in range(1, 21)]

CHECKS = {
 "C01": dict(
   engine="E-prod bounded product enumerator (mc/src/c01.rs, aead.rs; nightly build so heap/locked container forms are included)", cat="exploration", ref="DESIGN.md §3 C01",
   technique="bounded exhaustive enumeration of the structural input space (every encrypt/open form x container x key/nonce alphabet x every message length up to the bound x content class), each case executed on the real code and compared byte-for-byte with libsodium",
   text="Every cell of the product 30 encrypt forms / 29 open forms (classic, object API with stack, Vec, heap and locked containers, precomputed incl. locked precalculation, sealed) x key sets x lengths 0..=1500 (+page/KiB boundaries; thorough 0..=4100 + up to 1 MiB; locked forms on a stated reduced grid) x 4 contents is encrypted by dryoc and libsodium and compared; every open form opens every libsodium ciphertext; libsodium opens dryoc's; sealed boxes are compared exactly under a pinned ephemeral key and cross-opened with the real RNG.",
   note="Trusted: libsodium 1.0.18; RNG seam H3. Byte values outside the alphabets are not covered (the ciphers are third-party crates; dryoc's own logic is length/offset/plumbing, covered completely up to the bound)."),
 "C02": dict(
   engine="E-fault single-fault enumerator (mc/src/c02.rs; nightly build)", cat="fault_enumeration", ref="DESIGN.md §3 C02",
   technique="exhaustive single-fault enumeration: every bit flip of every wire/nonce/key/header/AD component, every truncation, a stated extension family, for every base length, through every open form; verdict cross-checked with libsodium",
   text="For each base case (4 families x lengths 0..=160 (400 thorough), plus long messages 1 KiB..16 KiB (256 KiB thorough) with a structural fault family) every member of the fault family is applied once and given to all open forms (29 AEAD incl. heap/locked containers + 2 stream); the control must be accepted with the original message and every fault rejected with Err (panic = violation). Caller-chosen buffer sizes: the classic copying forms and the classic stream pull additionally receive message buffers of L-1, L, L+1, L+15..L+17, L+64, wire length (+64) bytes for every message length 0..=48 (130 thorough) and 1024 under the control, every extension, every truncation and both edge bits of every byte; a tampered input must never yield Ok.",
   note="Trusted: libsodium's verdict on the same faulty input guards the harness. Box pk/sk bits are not flipped (clamped bits are no-ops); 2^-128 residual for key flips."),
 "C17": dict(
   engine="E-fault single-fault enumerator with buffer oracle (mc/src/c02.rs, mode leak; nightly build)", cat="fault_enumeration", ref="DESIGN.md §3 C17",
   technique="the C02 fault enumeration with a different oracle: after every failed open the caller-owned message buffer (sentinel-prefilled, or the submitted ciphertext for in-place forms) and the stream tag variable must be unchanged or all zero",
   text="Same executions as C02 (every fault x every form); buffer and tag contents before/after each failing call are compared byte by byte (also for caller-chosen buffer sizes from L-1 to wire length + 64). Error-text oracle: within one base case, all failed opens of one form under one fault class and one submitted length must carry the same Display/Debug text (an error may name the failed check and lengths, never bytes derived from the rejected input).",
   note="Object-API forms own their buffers and can only return Err (checked as 'err-no-buffer')."),
 "C03": dict(
   engine="E-state (stateright 0.31) + E-prod sweep", cat="model_checking", ref="DESIGN.md §3 C03",
   technique="explicit-state model checking of the real push/pull/rekey code with stateright (BFS/DFS over all action histories up to a depth bound) in lockstep with libsodium, plus exhaustive length/AD/tag product sweep",
   text="Every history over a ~31-action protocol alphabet (push with 2 lengths x AD x 4 tags, one- and two-sided rekeys, in-order delivery, 12 kinds of out-of-position/forged delivery, Reinit = init_push/init_pull of a new key and header on the used State values) from 12 initial states (incl. counters at 0xfffffffe/0xffffffff) is executed on the real code up to depth 6 (quick) / deepest bound completed (thorough); every pull is additionally repeated into a roomy buffer (same verdict/message/state, nothing written past the message) and into too-small buffers (a refused pull must leave the state unchanged); every transition compares ciphertext bytes, both raw states and accept/reject verdict with libsodium and with a pre-state reference model; then every (state class, mlen, adlen, tag byte) cell is pushed and pulled once.",
   note="Trusted: libsodium 1.0.18 as reference; hook H1 installs raw (key, nonce) states; histories beyond the depth bound and byte values outside the alphabets are not covered."),
 "C04": dict(
   engine="E-prod + O-total (mc/src/c04.rs; nightly build): child processes, catch_unwind, counting allocator", cat="exploration", ref="DESIGN.md §3 C04",
   technique="bounded exhaustive enumeration of untrusted inputs by length and structural class for every consumer (every length x 5 content classes, every stream tag byte, a full grammar product of password-hash strings plus structural mutants), each call executed in a child process under catch_unwind with a counting allocator",
   text="41 byte-string consumers (incl. heap/locked container parsers) x every length up to 2x overhead + 64 (+256) x 5 classes; 256 tag bytes x 3 lengths x 4 pull forms; ~250k password-hash strings incl. every memory cost m=8..=2100 KiB and cost fields at the edges of their integer types (parse/re-encode/needs_rehash only); oracle: returns Ok or Err, no unwind/abort/signal, no single allocation above 16 MiB + 8x input. Sealed-box openers are also given boxes that carry no ephemeral key (parsed by from_bytes / assembled by from_parts).",
   note="Contents within a length are represented by five classes; overflow checks are enabled in the harness build so wrapped arithmetic panics."),
 "C05": dict(
   engine="E-prod bounded product enumerator (mc/src/c05.rs)", cat="exploration", ref="DESIGN.md §3 C05",
   technique="bounded exhaustive enumeration: full product of a structured scalar alphabet x a structured point-encoding alphabet (complete integer intervals around every boundary, complete low-order table), each cell through dryoc and libsodium X25519; plus all ordered honest pairs for DH/kx",
   text="~160 scalars x ~900 (thorough ~10k) point encodings incl. every integer u in [0,512), around p, 2^255, 2^256 and the complete low-order table; base-point multiplication, DH commutativity, box precomputation, kx session keys (classic + object API) against libsodium; kx must refuse every low-order peer. Constructed peer keys whose raw shared secret is a chosen structured value (one half zero, bitwise-disjoint halves, equal halves, single bytes, u=9; 21 targets x 6 scalars, built with libsodium group operations and confirmed by libsodium before use) must be accepted with libsodium's keys.",
   note="Trusted: two references — libsodium ref10 X25519 in-process and a pure-Python RFC 7748 ladder (ref/curve_check.py) over a dumped sub-product of ~8k cells. The 2^512 input space is represented by the stated structural classes."),
 "C06": dict(
   engine="E-prod + E-fault (mc/src/c06.rs)", cat="fault_enumeration", ref="DESIGN.md §3 C06",
   technique="exhaustive product over seeds x message lengths x modes x APIs for signing (bytes == libsodium), and exhaustive single-fault enumeration for verification (every bit of message/signature/public key, complete S+kL family, complete small-order R x A table, non-canonical encodings, mode cross-over, truncations) with verdict equality against libsodium",
   text="8 seeds x every length 0..=130 (600 thorough) x 4 contents x pure/combined/pre-hashed x classic/object API; 24 base signatures x ~2k faults each incl. mixed-order points (A+T and R+T for every torsion point T x 24 messages, built with libsodium's group operations: strict and cofactored verification disagree on them); accept/reject must equal libsodium's strict verifier and be reject for every mutation. Torsion in both public key and R chosen to cancel (~1.4k signatures libsodium's strict verifier accepts) must be accepted.",
   note="Trusted: two references — libsodium 1.0.18 strict verification/signing in-process and a pure-Python RFC 8032 implementation (sign pure + pre-hashed, strict verify; ref/curve_check.py) over ~1.8k dumped cases."),
 "C07": dict(
   engine="E-prod (mc/src/c07.rs) + Python specification reference (ref/spec_check.py)", cat="exploration", ref="DESIGN.md §3 C07",
   technique="bounded exhaustive enumeration per primitive (all digest-length x key-length pairs x every input length; constructed Poly1305 operands hitting each carry/reduction boundary; all single-bit core inputs; every 1-/2-byte counter value) compared with two independent references: libsodium in-process and a Python re-computation of a dumped corpus",
   text="BLAKE2b 2 450 (outlen,keylen) pairs x every length 0..=300 (1100 thorough); SHA-512/HMAC/Poly1305/SipHash every length 0..=1100 x 5 keys x 4 contents; Poly1305 accumulators solved to land exactly on p-2..p+6, 2^130+-6, 2p+-2; HSalsa20/HChaCha20; increment; verify functions reject all 384 single-bit tag mutations.",
   note="Trusted: libsodium and CPython hashlib/hmac as the two references; values outside the alphabets not covered."),
 "C08": dict(
   engine="E-state history-replay explorer over update histories (mc/src/c08.rs)", cat="model_checking", ref="DESIGN.md §3 C08",
   technique="exhaustive exploration of update-call histories of every incremental interface on fresh real objects: all partitions of every message length into <=3 (4) pieces incl. empty ones, and all sequences over a 14-piece alphabet up to depth 5/6, each compared with the one-shot result of dryoc and libsodium",
   text="16 interfaces (generic hash classic/object keyed/unkeyed x 3 digest lengths, auth, onetimeauth, SHA-512, incremental signing create+verify); ~75 M histories quick; states = (interface, pending-buffer fill, absorbed-block class), transitions = update calls.",
   note="Message bytes are a fixed pattern (the automaton is length-driven)."),
 "C09": dict(
   engine="E-prod parameter grids (mc/src/c09.rs)", cat="exploration", ref="DESIGN.md §3 C09",
   technique="bounded exhaustive enumeration of Argon2 parameter grids (every output length 16..=1100, every memory size 8..=129 KiB, passes 1..=6, password/salt lengths, both types, out-of-range rejects), each cell compared with libsodium's argon2_hash / crypto_pwhash",
   text="Per-dimension exhaustive grids G1-G4 around a common centre plus the G1xG2 sub-product; object API hash_with_salt/verify incl. every single-byte password mutation; Config builder: every sequence of <= 4 setter calls over an 8-member alphabet from each of the 4 base constructors (18 724 sequences) against the model 'last write to a field wins', hashes compared with libsodium wherever the cost is small; preset entry points hash_interactive/hash_with_defaults (thorough: hash_moderate, hash_sensitive).",
   note="Trusted: two references — libsodium's Argon2 (raw argon2_hash symbol, crypto_pwhash) in-process and a pure-Python Argon2 written from RFC 9106 (ref/argon2_check.py) over the sub-grid m <= 48 KiB, t <= 3 (~1.6k cells). Not a full cross-product of all dimensions (stated)."),
 "C10": dict(
   engine="E-prod (mc/src/c10.rs)", cat="exploration", ref="DESIGN.md §3 C10",
   technique="bounded exhaustive enumeration of password-hash strings: full product passwords x costs in both directions (dryoc-made checked by an independent parser and libsodium's verifier; libsodium-made under dryoc), both algorithms x salt lengths x hash lengths for parse/re-encode, and the complete needs-rehash truth table",
   text="144 (pw,ops,mem) cells x 2 directions; ~2k (alg, saltlen, hashlen) strings quick / 12.9k thorough; 768 needs_rehash cells vs libsodium and the definition. Both algorithms alternated on one thread at equal costs (every order of <= 3 steps over verify-argon2i / verify-argon2id / make).",
   note="Trusted: libsodium's PHC encoder/verifier; RNG seam H3."),
 "C11": dict(
   engine="E-state bounded call histories with an owned RNG (mc/src/c11.rs)", cat="exploration", ref="DESIGN.md §3 C11",
   technique="exhaustive enumeration of bounded call histories over the inventory of randomised entry points (each alone x N, all ordered pairs interleaved, hub triples) under an owned deterministic RNG seam and under OsRng; oracle on returned values (no repeat, no all-zero, no constant byte)",
   text="40 entry points (keygens, key pairs, gen() on containers, sealed-box ephemeral key, stream header, pwhash salts) -> 40 singles x 64/512 calls + 1 560 ordered pairs + triples, in two environments; a source scan lists randomness call sites outside the inventory. Salt lengths 0..=24 through PwHash::hash: refused or entirely fresh; getrandom short reads (64-byte cap) for values of 65..4097 bytes.",
   note="OS generator quality not examined; nightly-only entry points (locked containers) are exercised in the nightly leg when built."),
 "C12": dict(
   engine="E-prod (mc/src/c12.rs) + Python BLAKE2b reference", cat="exploration", ref="DESIGN.md §3 C12",
   technique="bounded exhaustive enumeration: full product subkey length 0..=80 x 10 ids x 4 contexts x 5 master keys against libsodium and a Python hashlib.blake2b re-computation; pairwise separation checked over all outputs per key",
   text="16 200 cells; lengths 16..=64 must equal both references, others must Err; no output equal to or prefix of another. Every length 65..=1100 and 2^k +- 64 must be refused; derivations after every sequence of <= 2 other BLAKE2b activities (abandoned / refused generic-hash states, one-shot hashes, other derivations) on a fresh thread.",
   note="Trusted: libsodium + hashlib."),
 "C13": dict(
   engine="E-prod (mc/src/c13.rs)", cat="exploration", ref="DESIGN.md §3 C13",
   technique="bounded exhaustive enumeration: every box seed length 0..=128 x content, the 32-byte seed alphabet for kx/sign/from_secret_key/ed->x conversion, password-derived pairs, each against libsodium's output or its construction evaluated with libsodium primitives",
   text="516 box-seed cells, 41 (265 thorough) 32-byte seeds x 4 derivations, 8 password-derived pairs; in-place seed forms into pre-filled buffers; SigningKeyPair::from_secret_key on secret keys with a stale / zero / inverted public half (the pair must be the seed's pair and sign verifiably under its own public key). derive_keypair under the four Config presets against libsodium at its own limit constants (incl. 1 GiB x 4 passes).",
   note="Dishonest Ed25519 public keys are outside the quantifier."),
 "C14": dict(
   engine="E-state history-replay explorer on the real allocator and kernel (mc/src/pm.rs, nightly build)", cat="model_checking", ref="DESIGN.md §3 C14",
   technique="exhaustive history-replay exploration: every operation sequence up to a depth bound over the type-state API is executed on fresh real protected regions, one process per (container, length); the kernel's view (/proc/self/smaps, VmLck, fork-probe signals) is compared with a type-state reference model after every history",
   text="All histories up to length 5 (quick) / 6 (thorough) over 7 constructors and mlock/munlock/mprotect_*/clone/resize/write/drop on up to two live handles, for 9 lengths x HeapBytes and 9 HeapByteArray<N>, are run on the real code; page rights, lock flag, VmLck, both guard pages, contents and the final no-residue condition are read from the kernel; forbidden accesses are performed in forked children and must die by SIGSEGV.",
   note="Trusted: Linux /proc and signal delivery; hook H2 (allocation sizes); lengths outside the alphabet and more than two simultaneous handles are not covered."),
 "C15": dict(
   engine="E-state history-replay explorer + release observer (mc/src/pm.rs, nightly build)", cat="model_checking", ref="DESIGN.md §3 C15",
   technique="exhaustive history-replay exploration of container operation sequences with an allocator release observer: every released allocation is read in full immediately before free() and must be all zero",
   text="All histories up to length 5 (quick) / 6 (thorough) over constructors (incl. raw heap containers), write, resize up/down (forcing reallocation, truncation, spare capacity), clone, lock/protect transitions and drop; at each of the release events the whole allocation incl. spare capacity is checked for non-zero bytes and alloc/release counts must balance. Environment legs: mlockall; mprotect performed-but-reported-failed from the k-th request; the first mprotect of the t-th protection-changing transition refused and not performed (every t). Second observation point: blocks freed to the general allocator while a container resizes must not hold its content.",
   note="Trusted: hook H2 reports every deallocation of the page-aligned allocator right before free(); stack and Vec<u8> containers are outside the statement."),
 "C16": dict(
   engine="E-prod (mc/src/c16.rs, nightly build so heap/locked containers are included)", cat="exploration", ref="DESIGN.md §3 C16",
   technique="bounded exhaustive enumeration: every object kind x payload length x container x codec round-trips and equals libsodium's layout; for every fixed-length container type every element count 0..=2N through 5 decoders and TryFrom must be refused unless exactly N",
   text="4 message objects x lengths 0..=80 (300) x 6 codecs; 7 key objects x 5 keys x 2 codecs; 7 fixed-length types x counts 0..=2N x 5 decoders; heap/locked containers x lengths x 5 decoders; password-hash objects and their Config for every salt length 8..=64 x 7 hash lengths x JSON/bincode/parts; the 4 preset Configs; slice-copying constructors with_data / with_data_and_mac; zero constructors of every fixed length. All byte views of a kx Session (arrays, slices, parts; stack and Vec) agree and equal libsodium's pair.",
   note="Vec<u8> used as a fixed-length field type cannot enforce lengths at decode time (observation, not alarmed)."),
 "C18": dict(
   engine="E-conf configuration matrix (mc/src/probe.rs built 4x, conf/c18.py)", cat="exploration", ref="DESIGN.md §3 C18",
   technique="bounded exhaustive enumeration of a shared corpus executed under every build configuration (stable default, nightly, nightly+simd_backend) with transcript equality for all pairs; container leg compares stack/Vec/heap/locked results inside the nightly builds",
   text="8 corpus sections (~0.68 M cases quick) x 3 configurations; section digests by libsodium SHA-512; first differing case reported on mismatch.",
   note="Third-party CPU-specific back-ends are not part of the configuration set."),
 "C19": dict(
   engine="E-fault (mlock refusal by in-process interposer) on the E-state explorer (mc/src/pm.rs, nightly build)", cat="fault_enumeration", ref="DESIGN.md §3 C19",
   technique="exhaustive single-point fault enumeration over environment answers: every history up to the depth bound is re-executed for every k with the k-th and all later mlock calls refused; Result-returning calls must return Err, survivors keep the C14 kernel invariant, drop keeps the C14 final and C15 release conditions",
   text="Every (history, k) pair for histories of length <= 4 (quick) / 5 (thorough): refusal is injected by defining the mlock symbol in the harness binary; panics are caught and attributed to the operation; kernel view and release observer checked as in C14/C15. The enumeration is repeated on a reduced unit set in processes whose soft RLIMIT_MEMLOCK is 0.",
   note="Trusted: the interposed mlock is the only lock entry point dryoc uses on Linux; only mlock is refused."),
 "C20": dict(
   engine="E-prog program-table checker (typestate/check.py)", cat="model_checking", ref="DESIGN.md §3 C20",
   technique="model checking of a permission table (type-state x operation) against the compiler: one generated program per cell, exhaustive over the table; must-reject cells must fail with a capability-class rustc error, must-accept cells must compile and run in a forked child without faulting",
   text="4 containers (32-byte resizable and fixed, page-sized fixed, page of data + page of spare capacity) x 5 type-states x 30 operations (incl. clone_from, explicit zeroize followed by a transition to read-only / no-access and drop, byte views through trait implementations: Serialize via JSON and bincode, Debug, PartialEq, to_vec, iter) + use-after/use-result for each consuming transition + 8 stream cells = 738 programs (234 must-reject, 348 must-accept, 156 with no verdict demanded); rustc (nightly, features nightly+serde) verdict and error class per program; 436 compiling programs executed in forked children.",
   note="Trusted: rustc as oracle; the table is written from the statement."),
}

def main():
    hooks = subprocess.run(["git", "-C", "/repo", "log", "--format=%H %s"], capture_output=True, text=True).stdout.splitlines()
    hook_commits = [l.split()[0] for l in hooks if "verif hook" in l]
    checks = []
    for pid in ALL:
        c = CHECKS.get(pid)
        if not c: continue
        checks.append({
            "property_id": pid,
            "quick_cmd": f"bin/check {pid} quick",
            "thorough_cmd": f"bin/check {pid} thorough",
            "evidence_file": f"/verif/evidence/{pid}.json",
            "replay_cmd_template": "bin/check replay {path}",
            "engine": c["engine"],
            "level_claimed": {"category": c["cat"], "text": c["text"], "design_ref": c["ref"]},
            "level_note": c["note"] + ("" if pid in ("C18", "C20") else " Two build legs: the check first runs at quick-tier bounds in a plain release build of harness and crate (no debug assertions, no overflow checks: what a downstream --release build executes; a violation there ends the check), then at the requested tier in the checked build (overflow checks and debug assertions on); the plain leg's totals are embedded in the evidence as coverage.plain_release_leg.") + (" Four configurations since round 5: the three of the statement plus the nightly plain-release build." if pid == "C18" else ""),
            "technique": c["technique"],
        })
    na = [{"property_id": p, "reason": "check not built yet (work in progress); nothing is claimed for this property at this commit"} for p in ALL if p not in CHECKS]
    m = {
        "version": 1,
        "setup_cmd": "bin/setup",
        "hooks": {
            "guard": "cargo feature `verif_hooks` of the dryoc crate (off by default)",
            "enable": "the harness crate /verif/mc depends on dryoc = { path = \"/repo\", features = [\"serde\", \"base64\", \"verif_hooks\"] }",
            "baseline_off_cmd": "cd /repo && cargo test --workspace --no-fail-fast --offline",
            "source_commits": hook_commits,
            "add_only": True,
        },
        "engines": [
            {"name": "mc", "path": "/verif/mc", "serves_properties": sorted(CHECKS.keys()),
             "kind_free_text": "Rust harness crate: bounded exhaustive enumerators (E-prod, E-fault), stateright explicit-state search (C03), history-replay explorers over the real code; reference oracle libsodium via libsodium-sys"},
        ],
        "checks": checks,
        "not_applicable": na,
        "notes": "All checks rebuild the harness against /repo's working tree (cargo path dependency), in up to four configurations (target-stable, target-nightly release + plain profile, target-simd). Exit 0 pass, 1 VIOLATION, 2 machinery error. Known findings: /verif/known_findings.json.",
    }
    json.dump(m, open(os.path.join(ROOT, "MANIFEST.json"), "w"), indent=1)
    print("wrote MANIFEST.json with", len(checks), "checks;", len(na), "not_applicable")

main()
