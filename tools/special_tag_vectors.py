import struct, sys
M32=0xffffffff
def rotl32(x,b): return ((x<<b)|(x>>(32-b)))&M32
SIG=struct.unpack('<4I', b'expand 32-byte k')
def rounds(x):
    def qr(a,b,c,d):
        x[b]^=rotl32((x[a]+x[d])&M32,7); x[c]^=rotl32((x[b]+x[a])&M32,9); x[d]^=rotl32((x[c]+x[b])&M32,13); x[a]^=rotl32((x[d]+x[c])&M32,18)
    for _ in range(10):
        qr(0,4,8,12); qr(5,9,13,1); qr(10,14,2,6); qr(15,3,7,11)
        qr(0,1,2,3); qr(5,6,7,4); qr(10,11,8,9); qr(15,12,13,14)
def state(k,n16):
    kw=struct.unpack('<8I',k); nw=struct.unpack('<4I',n16)
    return [SIG[0],kw[0],kw[1],kw[2],kw[3],SIG[1],nw[0],nw[1],nw[2],nw[3],SIG[2],kw[4],kw[5],kw[6],kw[7],SIG[3]]
def hsalsa20(k,n16):
    x=state(k,n16); rounds(x)
    return struct.pack('<8I',x[0],x[5],x[10],x[15],x[6],x[7],x[8],x[9])
def salsa20_block(k,n8,ctr):
    x0=state(k,n8+struct.pack('<Q',ctr)); x=list(x0); rounds(x)
    return struct.pack('<16I',*[(a+b)&M32 for a,b in zip(x,x0)])
def xsalsa20(k,n24,length):
    sub=hsalsa20(k,n24[:16]); out=b''; c=0
    while len(out)<length: out+=salsa20_block(sub,n24[16:],c); c+=1
    return out[:length]
P=(1<<130)-5
def poly(key,m):
    r=int.from_bytes(key[:16],'little')&0x0ffffffc0ffffffc0ffffffc0fffffff; s=int.from_bytes(key[16:],'little'); h=0
    for i in range(0,len(m),16):
        b=m[i:i+16]; h=(h+int.from_bytes(b,'little')+(1<<(8*len(b))))*r%P
    return ((h+s)&((1<<128)-1)).to_bytes(16,'little')
def find(target_tag, k):
    for t in range(1,2000):
        n=bytes([(t*7+i)&0xff for i in range(24)])
        ks=xsalsa20(k,n,64); pk=ks[:32]
        r=int.from_bytes(pk[:16],'little')&0x0ffffffc0ffffffc0ffffffc0fffffff; s=int.from_bytes(pk[16:],'little')
        if r==0: continue
        want=(int.from_bytes(target_tag,'little')-s)%(1<<128)
        rinv=pow(r,-1,P)
        for j in range(4):
            h=want+(j<<128)
            if h>=P: continue
            v=h*rinv%P
            if (1<<128)<=v<(1<<129):
                c=(v-(1<<128)).to_bytes(16,'little')
                assert poly(pk,c)==target_tag
                m=bytes(a^b for a,b in zip(c,ks[32:48]))
                return n,m,c
k=bytes(range(1,33))
for name,tag in [('zero',bytes(16)),('ones',b'\xff'*16),('one',b'\x01'+bytes(15)),('top',bytes(15)+b'\x80')]:
    n,m,c=find(tag,k); print(name,k.hex(),n.hex(),m.hex(),c.hex())
