//! C05 — X25519 exact for every scalar and point; DH and key exchange agree (E-prod).

use crate::core::*;
use crate::sodium;
use dryoc::classic::crypto_box::crypto_box_beforenm;
use dryoc::classic::crypto_core::{crypto_scalarmult, crypto_scalarmult_base};
use dryoc::classic::crypto_kx::*;
use dryoc::keypair::KeyPair;
use dryoc::kx::Session;
use dryoc::types::*;
use serde_json::{json, Value};
use std::panic::AssertUnwindSafe;

pub type B32 = [u8; 32];

pub fn le_from_hex(h: &str) -> B32 {
    hex::decode(h).unwrap().try_into().unwrap()
}
pub fn le_add(a: &B32, k: i64) -> B32 {
    let mut r = *a;
    if k >= 0 {
        let mut carry = k as u128;
        for b in r.iter_mut() {
            let v = *b as u128 + (carry & 0xff);
            *b = v as u8;
            carry = (carry >> 8) + (v >> 8);
            if carry == 0 {
                break;
            }
        }
    } else {
        let mut borrow = (-k) as u128;
        for b in r.iter_mut() {
            let sub = borrow & 0xff;
            let (v, under) = if (*b as u128) >= sub { (*b as u128 - sub, 0u128) } else { (*b as u128 + 256 - sub, 1) };
            *b = v as u8;
            borrow = (borrow >> 8) + under;
            if borrow == 0 {
                break;
            }
        }
    }
    r
}
pub fn le_shl(a: &B32, n: u32) -> B32 {
    let mut r = [0u8; 32];
    let mut carry = 0u16;
    for i in 0..32 {
        let v = ((a[i] as u16) << n) | carry;
        r[i] = v as u8;
        carry = v >> 8;
    }
    r
}
pub fn le_pow2(n: usize) -> B32 {
    let mut r = [0u8; 32];
    if n < 256 {
        r[n / 8] = 1 << (n % 8);
    }
    r
}
pub fn p25519() -> B32 {
    let mut p = [0xffu8; 32];
    p[0] = 0xed;
    p[31] = 0x7f;
    p
}
pub fn group_l() -> B32 {
    le_from_hex("edd3f55c1a631258d69cf7a2def9de1400000000000000000000000000000010")
}

fn interval(center: &B32, lo: i64, hi: i64) -> Vec<B32> {
    (lo..hi).map(|k| le_add(center, k)).collect()
}

pub fn low_order_table() -> Vec<B32> {
    let base = vec![
        [0u8; 32],
        le_add(&[0u8; 32], 1),
        le_from_hex("e0eb7a7c3b41b8ae1656e3faf19fc46ada098deb9c32b1fd866205165f49b800"),
        le_from_hex("5f9c95bca3508c24b1d0b1559c83ef5b04445cc4581c8e86d8224eddd09f1157"),
        le_add(&p25519(), -1),
        p25519(),
        le_add(&p25519(), 1),
    ];
    let mut v = base.clone();
    for b in &base {
        let mut t = *b;
        t[31] |= 0x80;
        v.push(t);
    }
    v
}

pub fn scalars(seed: u64, tier: Tier) -> Vec<B32> {
    let mut v: Vec<B32> = vec![];
    v.extend(interval(&[0u8; 32], 0, 64));
    v.extend(interval(&le_pow2(254), -8, 9));
    v.extend(interval(&group_l(), -8, 9));
    v.extend(interval(&le_shl(&group_l(), 3), -8, 9));
    v.extend(interval(&le_pow2(255), -8, 8));
    v.extend(interval(&[0xffu8; 32], -15, 1));
    v.push(le_from_hex("a546e36bf0527c9d3b16154b82465edd62144c0ac1fc5a18506a2244ba449ac4"));
    v.push(le_from_hex("4b66e9d4d1b4673c5ad22691957d6af5c11b6421e0ea01d42ca4169e7918ba0d"));
    v.push(le_from_hex("77076d0a7318a57d3c16c17251b26645df4c2f87ebc0992ab177fba51db92c2a"));
    v.push(le_from_hex("5dab087e624a8a4b79e17f8b83800ee66f3bb1292618b6fd1c2f8b27ff88e0eb"));
    for i in 0..tier.pick(8, 32) {
        v.push(prand(seed, "c05-scalar", i, 32).try_into().unwrap());
    }
    v
}

pub fn points(seed: u64, tier: Tier) -> Vec<B32> {
    let mut v: Vec<B32> = vec![];
    v.extend(interval(&[0u8; 32], 0, tier.pick(2048, 32768)));
    v.extend(interval(&p25519(), -64, 65));
    v.extend(interval(&le_pow2(255), -64, 64));
    v.extend(interval(&[0xffu8; 32], -63, 1));
    v.extend(low_order_table());
    v.push(le_from_hex("e6db6867583030db3594c1a424b15f7c726624ec26b3353b10a903a6d0ab1c4c"));
    v.push(le_from_hex("e5210f12786811d3f4b7959d0538ae2c31dbe7106fc03c3efc4cd549c715a493"));
    v.push(le_from_hex("0900000000000000000000000000000000000000000000000000000000000000"));
    v.push(le_from_hex("8520f0098930a754748b7ddcb43ef75a0dbf3a0d26381af4eba4a98eaa9b4e6a"));
    v.push(le_from_hex("de9edb7d7b7dc1b4d35b61c2ece435373f8343c85b78674dadfc7e146f882b4f"));
    for i in 0..4u64 {
        let sk: B32 = prand(seed, "c05-honest", i, 32).try_into().unwrap();
        v.push(sodium::scalarmult_base(&sk));
    }
    for i in 0..tier.pick(64, 1024) {
        v.push(prand(seed, "c05-point", i, 32).try_into().unwrap());
    }
    v
}

fn dry_mult(n: &B32, p: &B32) -> Result<B32, String> {
    guarded(AssertUnwindSafe(|| {
        let mut q = [0xC3u8; 32];
        crypto_scalarmult(&mut q, n, p);
        q
    }))
}

fn point_class(p: &B32) -> &'static str {
    let lo = low_order_table();
    if lo.contains(p) {
        "low-order-table"
    } else if p[31] & 0x80 != 0 {
        "top-bit-set"
    } else {
        // non-canonical u >= p (without the top bit)
        let pp = p25519();
        let mut ge = true;
        for i in (0..32).rev() {
            if p[i] != pp[i] {
                ge = p[i] > pp[i];
                break;
            }
        }
        if ge {
            "non-canonical"
        } else {
            "ordinary(curve-or-twist)"
        }
    }
}

pub fn replay(case: &Value) -> Option<String> {
    match case["kind"].as_str().unwrap_or("") {
        "mult" => {
            let n: B32 = unhx(&case["n"]).try_into().unwrap();
            let p: B32 = unhx(&case["p"]).try_into().unwrap();
            let (_, want) = sodium::scalarmult_raw(&n, &p);
            match dry_mult(&n, &p) {
                Err(e) => Some(format!("panic: {}", e)),
                Ok(q) if q != want => Some(format!("dryoc {} != libsodium {}", hx(&q), hx(&want))),
                _ => None,
            }
        }
        "kx-low-order" => {
            let pk: B32 = unhx(&case["peer_pk"]).try_into().unwrap();
            let sk: B32 = unhx(&case["sk"]).try_into().unwrap();
            let mypk = sodium::scalarmult_base(&sk);
            let (mut rx, mut tx) = ([0xC3u8; 32], [0xC3u8; 32]);
            let a = crypto_kx_client_session_keys(&mut rx, &mut tx, &mypk, &sk, &pk).is_ok();
            let b = crypto_kx_server_session_keys(&mut rx, &mut tx, &mypk, &sk, &pk).is_ok();
            if a || b {
                Some(format!("key exchange accepted a peer key with all-zero shared secret (client ok={}, server ok={})", a, b))
            } else {
                None
            }
        }
        "kx-peer" => {
            let peer: B32 = unhx(&case["peer_pk"]).try_into().unwrap();
            let sk: B32 = unhx(&case["sk"]).try_into().unwrap();
            let pk = sodium::scalarmult_base(&sk);
            let (mut rx, mut tx) = ([0xC3u8; 32], [0xC3u8; 32]);
            let c = crypto_kx_client_session_keys(&mut rx, &mut tx, &pk, &sk, &peer).ok().map(|_| (rx, tx));
            let (mut rx2, mut tx2) = ([0xC3u8; 32], [0xC3u8; 32]);
            let s = crypto_kx_server_session_keys(&mut rx2, &mut tx2, &pk, &sk, &peer).ok().map(|_| (rx2, tx2));
            if c == sodium::kx_client(&pk, &sk, &peer) && s == sodium::kx_server(&pk, &sk, &peer) {
                None
            } else {
                Some("session keys / verdict differ from libsodium for this peer key".into())
            }
        }
        _ => Some("unknown C05 replay kind".into()),
    }
}

pub fn run() -> i32 {
    sodium::init();
    quiet_panics();
    let mut ctx = Ctx::new("C05", "exploration");
    let seed = ctx.seed;
    let ss = scalars(seed, ctx.tier);
    let ps = points(seed, ctx.tier);
    ctx.rule = format!("full product scalars x points: {} scalars (every integer in [0,64), [2^254-8,2^254+8], [L-8,L+8], [8L-8,8L+8], [2^255-8,2^255+8), [2^256-16,2^256), RFC 7748 scalars, seeded members) x {} point encodings (every integer u in [0,{}), [p-64,p+64], [2^255-64,2^255+64), [2^256-64,2^256), the complete low-order table with and without bit 255, RFC 7748 vectors, honest public keys, seeded members), each through dryoc and libsodium crypto_scalarmult; plus base-point multiplication for every scalar, DH commutativity, box precomputation and key-exchange session keys (honest pairs, the low-order table, and every 7th + every special-class peer key of the point table in both roles); non-trivial = product cell executed in both implementations", ss.len(), ps.len(), ctx.tier.pick(2048, 32768));
    ctx.assume("reference 2: pure-Python RFC 7748 ladder over a dumped sub-product (ref/curve_check.py), run by bin/check after this binary");
    ctx.assume("libsodium's ref10 X25519 is the reference (its output buffer is zero when it refuses a blocklisted point, which equals the RFC 7748 result for a clamped scalar)");
    ctx.assume("the 2^512 input space is represented by the stated structural classes (clamping, top bit, twist/curve, small-order component, non-canonical reduction)");

    let corpus_path = format!("{}/logs/c05_corpus.jsonl", VERIF_ROOT);
    let _ = std::fs::create_dir_all(format!("{}/logs", VERIF_ROOT));
    let corpus = std::sync::Mutex::new(std::io::BufWriter::new(std::fs::File::create(&corpus_path).expect("corpus")));
    let pstep = ctx.tier.pick(4usize, 8);
    let units: Vec<usize> = (0..ss.len()).collect();
    let st = par_units(&units, |&si, st| {
        let n = &ss[si];
        // base point
        let want_b = sodium::scalarmult_base(n);
        let mut got_b = [0xC3u8; 32];
        crypto_scalarmult_base(&mut got_b, n);
        st.eval(&("base", si), true, if got_b == want_b { "base==libsodium" } else { "base-differs" });
        if got_b != want_b {
            st.fail(Fail { check: "C05.x25519".into(), signature: "C05/scalarmult_base/differs".into(), what: format!("crypto_scalarmult_base differs from libsodium for scalar {}", hx(n)), case: json!({"kind": "mult", "n": hx(n), "p": "0900000000000000000000000000000000000000000000000000000000000000"}) });
        }
        for (pi, p) in ps.iter().enumerate() {
            let (rc, want) = sodium::scalarmult_raw(n, p);
            let cls = point_class(p);
            match dry_mult(n, p) {
                Err(e) => {
                    st.eval(&(si, pi), true, "panic");
                    st.fail(Fail { check: "C05.x25519".into(), signature: format!("C05/scalarmult/panic/{}", cls), what: format!("crypto_scalarmult panicked: {}", e), case: json!({"kind": "mult", "n": hx(n), "p": hx(p)}) });
                }
                Ok(q) => {
                    let ok = q == want;
                    if si % 16 == 3 && (pi % pstep == 0 || cls != "ordinary(curve-or-twist)") {
                        use std::io::Write;
                        let mut f = corpus.lock().unwrap();
                        let _ = writeln!(f, "{}", json!({"p": "x25519", "n": hx(n), "u": hx(p), "out": hx(&q)}));
                    }
                    st.eval(&(si, pi), true, if ok { if rc == 0 { "mult==libsodium" } else { "mult==0(low-order)" } } else { "mult-differs" });
                    *st.dims.entry(format!("points:{}", cls)).or_insert(0) += 1;
                    if !ok {
                        st.fail(Fail {
                            check: "C05.x25519".into(),
                            signature: format!("C05/scalarmult/differs/{}", cls),
                            what: format!("crypto_scalarmult(n={}, p={}) = {} but libsodium/RFC 7748 gives {}", hx(n), hx(p), hx(&q), hx(&want)),
                            case: json!({"kind": "mult", "n": hx(n), "p": hx(p)}),
                        });
                    }
                    // box precomputation where libsodium accepts
                    if pi % 7 == 0 {
                        if let Some(k) = sodium::box_beforenm(p, n) {
                            let d = crypto_box_beforenm(p, n);
                            let ok = d == k;
                            st.eval(&("beforenm", si, pi), true, if ok { "beforenm==libsodium" } else { "beforenm-differs" });
                            if !ok {
                                st.fail(Fail { check: "C05.x25519".into(), signature: format!("C05/beforenm/differs/{}", cls), what: format!("crypto_box_beforenm(pk={}, sk={}) differs from libsodium", hx(p), hx(n)), case: json!({"kind": "mult", "n": hx(n), "p": hx(p)}) });
                            }
                        }
                    }
                }
            }
        }
        if si == 3 {
            st.sample(json!({"scalar": hx(n), "points": ps.len(), "first_points": ps.iter().take(3).map(|p| hx(p)).collect::<Vec<_>>()}));
        }
    });
    {
        use std::io::Write;
        corpus.into_inner().unwrap().flush().unwrap();
    }
    ctx.note("second_reference_corpus", json!(corpus_path));
    ctx.note("point_classes", json!(st.dims));
    ctx.absorb("scalarmult", st);

    // sparse point encodings: every byte position takes every value with all other bytes zero,
    // and every small u (0..16) with every value of the top byte — shortcuts keyed on "looks like
    // a well-known point" (base point, zero, one) that inspect too few bytes show up here
    {
        let mut sparse: Vec<B32> = vec![];
        for pos in 0..32 {
            for v in 1..=255u8 {
                let mut p = [0u8; 32];
                p[pos] = v;
                sparse.push(p);
            }
        }
        for lo in 0..16u8 {
            for top in 1..=255u8 {
                let mut p = [0u8; 32];
                p[0] = lo;
                p[31] = top;
                sparse.push(p);
                let mut q = p;
                q[15] = 1;
                sparse.push(q);
            }
        }
        let scal: Vec<B32> = vec![karr(seed ^ 0xd, 1), karr(seed ^ 0xd, 2), karr(seed ^ 0xd, 3), prand(seed, "c05-sparse", 0, 32).try_into().unwrap()];
        let units: Vec<usize> = (0..sparse.len()).step_by(64).collect();
        let st = par_units(&units, |&start, st| {
            for pi in start..(start + 64).min(sparse.len()) {
                let p = &sparse[pi];
                for (si, n) in scal.iter().enumerate() {
                    let (_, want) = sodium::scalarmult_raw(n, p);
                    let got = dry_mult(n, p);
                    let ok = got == Ok(want);
                    st.eval(&("sparse", pi, si), true, if ok { "mult(sparse)==libsodium" } else { "mult(sparse)-differs" });
                    if !ok {
                        st.fail(Fail { check: "C05.x25519".into(), signature: "C05/scalarmult/differs/sparse-encoding".into(), what: format!("crypto_scalarmult(n={}, p={}) = {:?} but libsodium gives {}", hx(n), hx(p), got.map(|g| hx(&g)), hx(&want)), case: json!({"kind": "mult", "n": hx(n), "p": hx(p)}) });
                    }
                    if si == 0 {
                        let d = guarded(AssertUnwindSafe(|| crypto_box_beforenm(p, n)));
                        if let (Some(k), Ok(d)) = (sodium::box_beforenm(p, n), d) {
                            if d != k {
                                st.fail(Fail { check: "C05.x25519".into(), signature: "C05/beforenm/differs/sparse-encoding".into(), what: format!("crypto_box_beforenm(pk={}, sk={}) differs from libsodium", hx(p), hx(n)), case: json!({"kind": "mult", "n": hx(n), "p": hx(p)}) });
                            }
                        }
                    }
                }
            }
        });
        ctx.note("sparse_point_encodings", json!(sparse.len()));
        ctx.absorb("sparse-encodings", st);
    }

    // DH commutes, kx agrees, kx refuses low-order peers
    let nkeys = ctx.tier.pick(12usize, 40);
    let sks: Vec<B32> = (0..nkeys).map(|i| if i < 5 { karr(seed ^ 0xd, i) } else { prand(seed, "c05-sk", i as u64, 32).try_into().unwrap() }).collect();
    let pairs: Vec<(usize, usize)> = (0..nkeys).flat_map(|a| (0..nkeys).map(move |b| (a, b))).collect();
    let lo = low_order_table();
    let st = par_units(&pairs, |&(a, b), st| {
        let (ska, skb) = (&sks[a], &sks[b]);
        let (pka, pkb) = (sodium::scalarmult_base(ska), sodium::scalarmult_base(skb));
        let ab = dry_mult(ska, &pkb).unwrap_or([1; 32]);
        let ba = dry_mult(skb, &pka).unwrap_or([2; 32]);
        st.eval(&("dh", a, b), true, if ab == ba { "dh-commutes" } else { "dh-differs" });
        if ab != ba {
            st.fail(Fail { check: "C05.x25519".into(), signature: "C05/dh/not-commutative".into(), what: format!("X25519(a, B) != X25519(b, A) for sk a={} b={}", hx(ska), hx(skb)), case: json!({"kind": "mult", "n": hx(ska), "p": hx(&pkb)}) });
        }
        // kx: a = client, b = server
        let (mut crx, mut ctx_, mut srx, mut stx) = ([0xC3u8; 32], [0xC3u8; 32], [0xC3u8; 32], [0xC3u8; 32]);
        let rc = crypto_kx_client_session_keys(&mut crx, &mut ctx_, &pka, ska, &pkb);
        let rs = crypto_kx_server_session_keys(&mut srx, &mut stx, &pkb, skb, &pka);
        let so_c = sodium::kx_client(&pka, ska, &pkb);
        let so_s = sodium::kx_server(&pkb, skb, &pka);
        let mut ok = rc.is_ok() && rs.is_ok() && so_c == Some((crx, ctx_)) && so_s == Some((srx, stx)) && crx == stx && ctx_ == srx;
        // object API
        let kpa: KeyPair<StackByteArray<32>, StackByteArray<32>> = KeyPair::from_slices(&pka, ska).unwrap();
        let kpb: KeyPair<StackByteArray<32>, StackByteArray<32>> = KeyPair::from_slices(&pkb, skb).unwrap();
        let sc: Result<Session<StackByteArray<32>>, _> = Session::new_client(&kpa, &kpb.public_key);
        let ssv: Result<Session<StackByteArray<32>>, _> = Session::new_server(&kpb, &kpa.public_key);
        match (sc, ssv) {
            (Ok(c), Ok(s)) => {
                ok &= c.rx_as_array() == &crx && c.tx_as_array() == &ctx_ && s.rx_as_array() == &srx && s.tx_as_array() == &stx;
                let c2: Session<Vec<u8>> = kpa.kx_new_client_session(&kpb.public_key).unwrap();
                ok &= c2.rx_as_slice() == &crx[..] && c2.tx_as_slice() == &ctx_[..];
                let s2: Session<Vec<u8>> = kpb.kx_new_server_session(&kpa.public_key).unwrap();
                ok &= s2.rx_as_slice() == &srx[..] && s2.tx_as_slice() == &stx[..];
                let c3 = Session::new_client_with_defaults(&kpa, &kpb.public_key).unwrap();
                let s3 = Session::new_server_with_defaults(&kpb, &kpa.public_key).unwrap();
                ok &= c3.rx_as_slice() == &crx[..] && c3.tx_as_slice() == &ctx_[..] && s3.rx_as_slice() == &srx[..] && s3.tx_as_slice() == &stx[..];
                let (prx, ptx) = c3.into_parts();
                ok &= prx.as_slice() == &crx[..] && ptx.as_slice() == &ctx_[..];
            }
            _ => ok = false,
        }
        // the caller's own public key is hashed exactly as stored in the key pair, whatever it is:
        // the same point with the top bit set, and an unrelated key
        for (what, own_pk) in [("own-pk-top-bit", { let mut x = pka; x[31] |= 0x80; x }), ("own-pk-unrelated", pkb)] {
            let want_c = sodium::kx_client(&own_pk, ska, &pkb);
            let want_s = sodium::kx_server(&own_pk, ska, &pkb);
            let odd: KeyPair<StackByteArray<32>, StackByteArray<32>> = KeyPair::from_slices(&own_pk, ska).unwrap();
            let peer: StackByteArray<32> = pkb.into();
            let c1 = Session::<StackByteArray<32>>::new_client(&odd, &peer).ok().map(|s| (*s.rx_as_array(), *s.tx_as_array()));
            let s1 = Session::<StackByteArray<32>>::new_server(&odd, &peer).ok().map(|s| (*s.rx_as_array(), *s.tx_as_array()));
            let c2 = odd.kx_new_client_session::<Vec<u8>>(&peer).ok().map(|s| (s.rx_as_slice().to_vec(), s.tx_as_slice().to_vec()));
            let (mut rx, mut tx) = ([0xC3u8; 32], [0xC3u8; 32]);
            let c0 = crypto_kx_client_session_keys(&mut rx, &mut tx, &own_pk, ska, &pkb).ok().map(|_| (rx, tx));
            let okk = c1 == want_c && s1 == want_s && c0 == want_c && c2 == want_c.map(|(a, b)| (a.to_vec(), b.to_vec()));
            if !okk {
                ok = false;
                st.fail(Fail { check: "C05.x25519".into(), signature: format!("C05/kx/differs/{}", what), what: format!("key exchange with a key pair whose stored public key is {} (sk {}): session keys differ from libsodium, which hashes the public key as supplied", hx(&own_pk), hx(ska)), case: json!({"kind": "mult", "n": hx(ska), "p": hx(&pkb)}) });
            }
        }
        st.eval(&("kx", a, b), true, if ok { "kx==libsodium" } else { "kx-differs" });
        if !ok {
            st.fail(Fail { check: "C05.x25519".into(), signature: "C05/kx/differs".into(), what: format!("session keys differ from libsodium or client/server keys do not mirror (client sk {}, server sk {})", hx(ska), hx(skb)), case: json!({"kind": "mult", "n": hx(ska), "p": hx(&pkb)}) });
        }
        // low-order peers must be refused (b indexes the table)
        if b < lo.len() {
            let peer = &lo[b];
            let (mut rx, mut tx) = ([0xC3u8; 32], [0xC3u8; 32]);
            let c = guarded(AssertUnwindSafe(|| crypto_kx_client_session_keys(&mut rx, &mut tx, &pka, ska, peer).is_ok())).unwrap_or(true);
            let s = guarded(AssertUnwindSafe(|| crypto_kx_server_session_keys(&mut rx, &mut tx, &pka, ska, peer).is_ok())).unwrap_or(true);
            let peer_sb: StackByteArray<32> = (*peer).into();
            let o: bool = Session::<StackByteArray<32>>::new_client(&kpa, &peer_sb).is_ok()
                || Session::<StackByteArray<32>>::new_server(&kpa, &peer_sb).is_ok()
                || Session::new_client_with_defaults(&kpa, &peer_sb).is_ok()
                || Session::new_server_with_defaults(&kpa, &peer_sb).is_ok()
                || kpa.kx_new_client_session::<Vec<u8>>(&peer_sb).is_ok()
                || kpa.kx_new_server_session::<Vec<u8>>(&peer_sb).is_ok();
            let so = sodium::kx_client(&pka, ska, peer).is_some();
            let good = !c && !s && !o;
            st.eval(&("kx-lo", a, b), true, if good { "kx-refuses-low-order" } else { "kx-accepts-low-order" });
            if !good {
                st.fail(Fail {
                    check: "C05.x25519".into(),
                    signature: "C05/kx/accepts-zero-shared-secret".into(),
                    what: format!("key exchange accepted peer key {} (all-zero shared secret); client ok={} server ok={} object ok={} libsodium accepts={}", hx(peer), c, s, o, so),
                    case: json!({"kind": "kx-low-order", "peer_pk": hx(peer), "sk": hx(ska)}),
                });
            }
        }
    });
    ctx.absorb("dh-kx", st);

    // constructed peer keys: for each target in SPARSE_SECRETS (structured X25519 outputs: one
    // half all-zero, halves with disjoint bits, equal halves, single bytes, u = 9) and each own
    // secret key k, the peer key P = [k^-1 mod l]T is built with libsodium's group operations so
    // that the raw shared secret X25519(k, P) IS the target. None of them is all-zero, so key
    // exchange, DH and box precomputation must accept and equal libsodium.
    {
        let units: Vec<usize> = (0..SPARSE_SECRETS.len()).collect();
        let st = par_units(&units, |&ti, st| {
            let (fam, u_hex, t_hex) = SPARSE_SECRETS[ti];
            let target: B32 = unhx(&json!(u_hex)).try_into().unwrap();
            let t_ed: B32 = unhx(&json!(t_hex)).try_into().unwrap();
            for ski in 0..sks.len().min(6) {
                let sk = &sks[ski];
                // the clamped scalar as an integer mod l
                let mut k = *sk;
                k[0] &= 248;
                k[31] &= 127;
                k[31] |= 64;
                let mut wide = [0u8; 64];
                wide[..32].copy_from_slice(&k);
                let kr = sodium::sc_reduce64(&wide);
                let Some(kinv) = sodium::sc_invert(&kr) else { continue };
                let Some(p_ed) = sodium::ed_mult_noclamp(&kinv, &t_ed) else { continue };
                let Some(peer) = sodium::ed_pk_to_curve(&p_ed) else { continue };
                // libsodium confirms the construction; a case it does not confirm is not used
                if sodium::scalarmult(sk, &peer) != Some(target) {
                    st.eval(&("constructed", ti, ski), false, "construction-not-confirmed");
                    continue;
                }
                let pk = sodium::scalarmult_base(sk);
                let dm = dry_mult(sk, &peer);
                let bn = guarded(AssertUnwindSafe(|| crypto_box_beforenm(&peer, sk))).ok();
                let (mut rx, mut tx) = ([0xC3u8; 32], [0xC3u8; 32]);
                let c = guarded(AssertUnwindSafe(|| crypto_kx_client_session_keys(&mut rx, &mut tx, &pk, sk, &peer).ok().map(|_| (rx, tx)))).unwrap_or(None);
                let (mut rx2, mut tx2) = ([0xC3u8; 32], [0xC3u8; 32]);
                let s = guarded(AssertUnwindSafe(|| crypto_kx_server_session_keys(&mut rx2, &mut tx2, &pk, sk, &peer).ok().map(|_| (rx2, tx2)))).unwrap_or(None);
                let kp: KeyPair<StackByteArray<32>, StackByteArray<32>> = KeyPair::from_slices(&pk, sk).unwrap();
                let peer_sb: StackByteArray<32> = peer.into();
                let oc = guarded(AssertUnwindSafe(|| Session::<StackByteArray<32>>::new_client(&kp, &peer_sb).ok().map(|x| (*x.rx_as_array(), *x.tx_as_array())))).unwrap_or(None);
                let os = guarded(AssertUnwindSafe(|| Session::<StackByteArray<32>>::new_server(&kp, &peer_sb).ok().map(|x| (*x.rx_as_array(), *x.tx_as_array())))).unwrap_or(None);
                let (wc, ws) = (sodium::kx_client(&pk, sk, &peer), sodium::kx_server(&pk, sk, &peer));
                let ok = dm.clone().ok() == Some(target) && bn == sodium::box_beforenm(&peer, sk) && c == wc && s == ws && oc == wc && os == ws && wc.is_some() && ws.is_some();
                st.eval(&("constructed", ti, ski), true, if ok { "structured-secret==libsodium" } else { "structured-secret-differs" });
                if !ok {
                    st.fail(Fail {
                        check: "C05.x25519".into(),
                        signature: "C05/kx/structured-shared-secret".into(),
                        what: format!("peer key {} constructed so that X25519(sk {}, peer) = {} ({}): dryoc mult {:?}, kx client {} server {} object client {} server {} (libsodium accepts: {})", hx(&peer), hx(sk), u_hex, fam, dm.map(|x| hx(&x)), c == wc, s == ws, oc == wc, os == ws, wc.is_some()),
                        case: json!({"kind": "mult", "n": hx(sk), "p": hx(&peer)}),
                    });
                }
            }
        });
        ctx.absorb("constructed-structured-secrets", st);
    }

    // key exchange with every peer key of the point table (top bit set, non-canonical, twist,
    // small-order component): verdict and session keys must equal libsodium's in both roles
    let peers: Vec<B32> = ps.iter().enumerate().filter(|(i, p)| i % 7 == 0 || point_class(p) != "ordinary(curve-or-twist)").map(|(_, p)| *p).collect();
    let units: Vec<usize> = (0..peers.len()).collect();
    let st = par_units(&units, |&pi, st| {
        let peer = &peers[pi];
        for ski in 0..3usize {
            let sk = &sks[ski];
            let pk = sodium::scalarmult_base(sk);
            let (mut rx, mut tx) = ([0xC3u8; 32], [0xC3u8; 32]);
            let c = guarded(AssertUnwindSafe(|| crypto_kx_client_session_keys(&mut rx, &mut tx, &pk, sk, peer).ok().map(|_| (rx, tx))));
            let (mut rx2, mut tx2) = ([0xC3u8; 32], [0xC3u8; 32]);
            let s = guarded(AssertUnwindSafe(|| crypto_kx_server_session_keys(&mut rx2, &mut tx2, &pk, sk, peer).ok().map(|_| (rx2, tx2))));
            let ok = c == Ok(sodium::kx_client(&pk, sk, peer)) && s == Ok(sodium::kx_server(&pk, sk, peer));
            st.eval(&("kx-peer", pi, ski), true, if ok { "kx(arbitrary peer)==libsodium" } else { "kx(arbitrary peer)-differs" });
            if !ok {
                st.fail(Fail { check: "C05.x25519".into(), signature: format!("C05/kx/arbitrary-peer/{}", point_class(peer)), what: format!("session keys / verdict for peer key {} (own sk {}) differ from libsodium: client {:?} server {:?}", hx(peer), hx(sk), c.as_ref().map(|x| x.is_some()), s.as_ref().map(|x| x.is_some())), case: json!({"kind": "kx-peer", "peer_pk": hx(peer), "sk": hx(sk)}) });
            }
        }
    });
    ctx.note("kx_arbitrary_peers", json!(peers.len()));
    ctx.absorb("kx-arbitrary-peers", st);
    // a family of honest key pairs from counter seeds (every byte position of a public key takes
    // every value) exchanged with each other, with themselves (loopback: own public key as the
    // peer) and precomputed as box keys: verdict and keys must equal libsodium's
    {
        let nkeys: u32 = ctx.tier.pick(1u32 << 13, 1u32 << 17);
        let chunks: Vec<u32> = (0..nkeys / 256).collect();
        let st = par_units(&chunks, |&c, st| {
            let kp = |n: u32| {
                let mut sd = [0u8; 32];
                sd[..4].copy_from_slice(&n.to_le_bytes());
                sd[4..12].copy_from_slice(&seed.to_le_bytes());
                sodium::kx_seed_keypair(&sd)
            };
            for i in 0..256u32 {
                let n = c * 256 + i;
                let (pk, sk) = kp(n);
                for (what, peer) in [("next", kp(n ^ 1).0), ("self", pk)] {
                    let (mut rx, mut tx) = ([0xC3u8; 32], [0xC3u8; 32]);
                    let cl = guarded(AssertUnwindSafe(|| crypto_kx_client_session_keys(&mut rx, &mut tx, &pk, &sk, &peer).ok().map(|_| (rx, tx))));
                    let (mut rx2, mut tx2) = ([0xC3u8; 32], [0xC3u8; 32]);
                    let sv = guarded(AssertUnwindSafe(|| crypto_kx_server_session_keys(&mut rx2, &mut tx2, &pk, &sk, &peer).ok().map(|_| (rx2, tx2))));
                    let bn = guarded(AssertUnwindSafe(|| dryoc::classic::crypto_box::crypto_box_beforenm(&peer, &sk)));
                    let ok = cl == Ok(sodium::kx_client(&pk, &sk, &peer)) && sv == Ok(sodium::kx_server(&pk, &sk, &peer)) && bn.ok() == sodium::box_beforenm(&peer, &sk);
                    st.eval(&("kx-family", n, what), true, if ok { "kx(honest family)==libsodium" } else { "kx(honest family)-differs" });
                    if !ok {
                        st.fail(Fail { check: "C05.x25519".into(), signature: format!("C05/kx/honest-family/{}", what), what: format!("honest pair (sk {}) with peer '{}' {}: session keys / verdict / box key differ from libsodium", hx(&sk), what, hx(&peer)), case: json!({"kind": "kx-peer", "peer_pk": hx(&peer), "sk": hx(&sk)}) });
                    }
                }
            }
        });
        ctx.note("kx_honest_family", json!({"keys": nkeys, "peers": ["neighbouring key of the family", "own public key (loopback)"]}));
        ctx.absorb("kx-honest-family", st);
    }
    {
        let a: B32 = karr(seed ^ 0xd, 2);
        let b: B32 = karr(seed ^ 0xd, 3);
        let (pa, pb) = (sodium::scalarmult_base(&a), sodium::scalarmult_base(&b));
        let twist: B32 = le_add(&[0u8; 32], 2);
        let mut t: Vec<crate::purity::Entry> = vec![];
        for (nm, sk, pk) in [("scalarmult(a,B)", a, pb), ("scalarmult(b,A)", b, pa), ("scalarmult(a,u=2)", a, twist), ("scalarmult(b,u=2)", b, twist)] {
            t.push((nm, Box::new(move || dry_mult(&sk, &pk).map(|x| x.to_vec()).unwrap_or_default())));
        }
        t.push(("scalarmult_base(a)", Box::new(move || {
            let mut q = [0xC3u8; 32];
            crypto_scalarmult_base(&mut q, &a);
            q.to_vec()
        })));
        t.push(("scalarmult_base(b)", Box::new(move || {
            let mut q = [0xC3u8; 32];
            crypto_scalarmult_base(&mut q, &b);
            q.to_vec()
        })));
        t.push(("beforenm(B,a)", Box::new(move || crypto_box_beforenm(&pb, &a).to_vec())));
        t.push(("beforenm(A,b)", Box::new(move || crypto_box_beforenm(&pa, &b).to_vec())));
        t.push(("kx_client(a;B)", Box::new(move || {
            let (mut rx, mut tx) = ([0xC3u8; 32], [0xC3u8; 32]);
            let _ = crypto_kx_client_session_keys(&mut rx, &mut tx, &pa, &a, &pb);
            [rx, tx].concat()
        })));
        t.push(("kx_server(b;A)", Box::new(move || {
            let (mut rx, mut tx) = ([0xC3u8; 32], [0xC3u8; 32]);
            let _ = crypto_kx_server_session_keys(&mut rx, &mut tx, &pb, &b, &pa);
            [rx, tx].concat()
        })));
        t.push(("kx_client(b;A)", Box::new(move || {
            let (mut rx, mut tx) = ([0xC3u8; 32], [0xC3u8; 32]);
            let _ = crypto_kx_client_session_keys(&mut rx, &mut tx, &pb, &b, &pa);
            [rx, tx].concat()
        })));
        crate::purity::triples(&mut ctx, "C05", "C05.x25519", t);
    }
    ctx.require_outcome("mult==libsodium");
    ctx.require_outcome("mult==0(low-order)");
    ctx.require_outcome("kx==libsodium");
    ctx.finish()
}

/// (family, target X25519 output, Edwards encoding of a torsion-free point with that Montgomery
/// u-coordinate) — generated by tools/sparse_secret_vectors.py; re-confirmed with libsodium at
/// run time before use.
const SPARSE_SECRETS: &[(&str, &str, &str)] = &[
    ("u=9", "0900000000000000000000000000000000000000000000000000000000000000", "5866666666666666666666666666666666666666666666666666666666666666"),
    ("low-half-only small", "1000000000000000000000000000000000000000000000000000000000000000", "414b4b4b4b4b4b4b4b4b4b4b4b4b4b4b4b4b4b4b4b4b4b4b4b4b4b4b4b4b4b4b"),
    ("low-half-only small", "2200000000000000000000000000000000000000000000000000000000000000", "f88aaff88aaff88aaff88aaff88aaff88aaff88aaff88aaff88aaff88aaff80a"),
    ("low-half-only one byte", "0003000000000000000000000000000000000000000000000000000000000000", "874e14c3b6db6cb9d38471abfd06eb3e43365de8462b7e856fb1eb3c49249346"),
    ("low-half-only one byte", "0009000000000000000000000000000000000000000000000000000000000000", "a2d57c9c7f83609b89298a24b78ff278bf4495c03aef96b1c130496d2894ca60"),
    ("low-half-only dense", "862fa1bdf54a97bffa8159c24edcd54b00000000000000000000000000000000", "c24c63eab648e9b55bd7fad0e2d3bfccf1fec07be33a6baa9f7517789ba89841"),
    ("low-half-only dense", "9ace1c4d15e783241b74db2a2ee14e8800000000000000000000000000000000", "2c84ab3fd8a9a40b37c92f95c8f07726348f7322a2afd24d93173c1909358e13"),
    ("high-half-only small", "0000000000000000000000000000000005000000000000000000000000000000", "1383f2a9a231289f2a1a83f2a9a231287d7043aed20737e42a7d7043aed20737"),
    ("high-half-only small", "000000000000000000000000000000001b000000000000000000000000000000", "138b707630f4c5847d6aa9543bbcb09c33532182e33e1fffc2c42112be255c79"),
    ("high-half-only dense", "00000000000000000000000000000000448d127dcbb11e4d28c88ca2f4287417", "805a8f8008fce0e546cae63db643c1f3a7b1d4cdc464c50213e7ea095836d823"),
    ("high-half-only dense", "0000000000000000000000000000000042a01a8c8d12c112b5963aa170675145", "606c1ad4296ca92bc6f3393157cd59180a13e141ebdaaa91770d61345bc94a63"),
    ("halves bitwise disjoint (complement)", "9b3783337ad09184258efb87abd47a6664c87ccc852f6e7bda710478542b8519", "70b713d77e57a93a33a248cfef53656412ef7aa1e6241f741b27c38824a67a3a"),
    ("halves bitwise disjoint (complement)", "f7c78abb9752f3c8e1a08aa31253c0690838754468ad0c371e5f755cedac3f16", "0665c12857c4aa458c13b3aca04269c6b3349539114bc8daad5c636b99729e7e"),
    ("halves bitwise disjoint (sparse)", "12102580010a4721a28840405606402841205001244010060103000801710001", "ada1b15767c0e1414250bac48e9a01b055b1d52e46511c8581a635b5d40b6461"),
    ("halves bitwise disjoint (sparse)", "920002380415a942280020062136026401c0204302000480004098e102000403", "c665979dc53b2a38bb155fb68c01124e9d1250228930095c078c299feef48610"),
    ("halves equal", "5b89c9ff4526029905e58d98daab6d7f5b89c9ff4526029905e58d98daab6d7f", "fba6bbde254b0e7fa0252997ada011312da9268cc8fddae93a73219ae5ac6174"),
    ("halves equal", "ac44efd7832861225279ef6a26cc6966ac44efd7832861225279ef6a26cc6966", "2283a1e2a5a3235b166544ab4284ac02cb82e4fe59b367d3597a922df6754d79"),
    ("one bit per 64-bit word", "0400000000000000000000000000000800000000000100000000010000000000", "0dc87d6e497e140870e140b3d208491949feed58d6b17cc047dd904f0ac59b31"),
    ("one bit per 64-bit word", "0000000040000000800000000000000000000000020000000200000000000000", "20094fd115054a16bc1798e066faeb69f187ffc5e29912a20e7263ac50511270"),
    ("single non-zero byte high", "0000000000000000000000000000000005000000000000000000000000000000", "1383f2a9a231289f2a1a83f2a9a231287d7043aed20737e42a7d7043aed20737"),
    ("single non-zero byte high", "000000000000000000000000000000001b000000000000000000000000000000", "138b707630f4c5847d6aa9543bbcb09c33532182e33e1fffc2c42112be255c79"),
];
