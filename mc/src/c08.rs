//! C08 — incremental == one-shot for any chunking: history-replay exploration of the
//! pending-buffer automata of every incremental interface (fresh real object per history).

use crate::core::*;
use crate::sodium;
use dryoc::auth::Auth;
use dryoc::classic::crypto_auth::*;
use dryoc::classic::crypto_generichash::*;
use dryoc::classic::crypto_hash::*;
use dryoc::classic::crypto_onetimeauth::*;
use dryoc::classic::crypto_sign::*;
use dryoc::generichash::GenericHash;
use dryoc::onetimeauth::OnetimeAuth;
use dryoc::sha512::Sha512;
use dryoc::sign::IncrementalSigner;
use dryoc::types::*;
use serde_json::{json, Value};
use std::collections::HashSet;
use std::panic::AssertUnwindSafe;

#[derive(Clone, Copy, Debug, PartialEq, Eq, Hash)]
pub enum Iface {
    GhClassic { outlen: usize, keyed: bool },
    GhObject { keyed: bool }, // GenericHash<32,32> / <32,64>
    AuthClassic,
    AuthObject,
    OtaClassic,
    OtaObject,
    ShaClassic,
    ShaObject,
    SignClassic,
    SignObject,
}

pub const IFACES: [Iface; 15] = [
    Iface::GhClassic { outlen: 16, keyed: false },
    Iface::GhClassic { outlen: 32, keyed: false },
    Iface::GhClassic { outlen: 64, keyed: false },
    Iface::GhClassic { outlen: 16, keyed: true },
    Iface::GhClassic { outlen: 32, keyed: true },
    Iface::GhClassic { outlen: 64, keyed: true },
    Iface::GhObject { keyed: false },
    Iface::GhObject { keyed: true },
    Iface::AuthClassic,
    Iface::AuthObject,
    Iface::OtaClassic,
    Iface::OtaObject,
    Iface::ShaClassic,
    Iface::ShaObject,
    Iface::SignClassic,
];
pub const SIGN_IFACES: [Iface; 2] = [Iface::SignClassic, Iface::SignObject];

pub struct Params {
    pub key32: [u8; 32],
    pub sign_pk: [u8; 32],
    pub sign_sk: [u8; 64],
}

impl Params {
    pub fn new(seed: u64) -> Params {
        let (pk, sk) = sodium::sign_seed_keypair(&karr(seed ^ 0x51, 3));
        Params { key32: karr(seed ^ 0x08, 3), sign_pk: pk, sign_sk: sk }
    }
}

fn block_of(i: Iface) -> usize {
    match i {
        Iface::OtaClassic | Iface::OtaObject => 16,
        _ => 128,
    }
}

/// Feed `msg` cut at `cuts` (ascending offsets; pieces may be empty) into a fresh object.
/// For signing interfaces the result is signature || verify-verdict byte.
pub fn incremental(i: Iface, p: &Params, msg: &[u8], cuts: &[usize]) -> Result<Vec<u8>, String> {
    let mut pieces: Vec<&[u8]> = vec![];
    let mut prev = 0;
    for &c in cuts {
        pieces.push(&msg[prev..c]);
        prev = c;
    }
    pieces.push(&msg[prev..]);
    guarded(AssertUnwindSafe(|| -> Vec<u8> {
        match i {
            Iface::GhClassic { outlen, keyed } => {
                let mut st = crypto_generichash_init(if keyed { Some(&p.key32[..]) } else { None }, outlen).unwrap();
                for pc in &pieces {
                    crypto_generichash_update(&mut st, pc);
                }
                let mut o = vec![0xC3u8; outlen];
                crypto_generichash_final(st, &mut o).unwrap();
                o
            }
            Iface::GhObject { keyed } => {
                let k: StackByteArray<32> = p.key32.into();
                let mut h = GenericHash::<32, 64>::new(if keyed { Some(&k) } else { None }).unwrap();
                for pc in &pieces {
                    h.update(*pc);
                }
                h.finalize_to_vec().unwrap()
            }
            Iface::AuthClassic => {
                let mut st = crypto_auth_init(&p.key32);
                for pc in &pieces {
                    crypto_auth_update(&mut st, pc);
                }
                let mut o = [0xC3u8; 32];
                crypto_auth_final(st, &mut o);
                o.to_vec()
            }
            Iface::AuthObject => {
                let mut a = Auth::new(p.key32);
                for pc in &pieces {
                    a.update(&pc.to_vec());
                }
                a.finalize_to_vec()
            }
            Iface::OtaClassic => {
                let mut st = crypto_onetimeauth_init(&p.key32);
                for pc in &pieces {
                    crypto_onetimeauth_update(&mut st, pc);
                }
                let mut o = [0xC3u8; 16];
                crypto_onetimeauth_final(st, &mut o);
                o.to_vec()
            }
            Iface::OtaObject => {
                let mut a = OnetimeAuth::new(p.key32);
                for pc in &pieces {
                    a.update(&pc.to_vec());
                }
                a.finalize_to_vec()
            }
            Iface::ShaClassic => {
                let mut st = crypto_hash_sha512_init();
                for pc in &pieces {
                    crypto_hash_sha512_update(&mut st, pc);
                }
                let mut o = [0xC3u8; 64];
                crypto_hash_sha512_final(st, &mut o);
                o.to_vec()
            }
            Iface::ShaObject => {
                let mut h = Sha512::new();
                for pc in &pieces {
                    h.update(*pc);
                }
                h.finalize_to_vec()
            }
            Iface::SignClassic => {
                let mut st = crypto_sign_init();
                for pc in &pieces {
                    crypto_sign_update(&mut st, pc);
                }
                let mut sig = [0xC3u8; 64];
                crypto_sign_final_create(st, &mut sig, &p.sign_sk).unwrap();
                let mut st = crypto_sign_init();
                for pc in &pieces {
                    crypto_sign_update(&mut st, pc);
                }
                let ok = crypto_sign_final_verify(st, &sig, &p.sign_pk).is_ok();
                let mut o = sig.to_vec();
                o.push(ok as u8);
                o
            }
            Iface::SignObject => {
                let mut s = IncrementalSigner::new();
                for pc in &pieces {
                    s.update(&pc.to_vec());
                }
                let sig: StackByteArray<64> = s.finalize(&StackByteArray::<64>::from(&p.sign_sk)).unwrap();
                let mut s = IncrementalSigner::new();
                for pc in &pieces {
                    s.update(&pc.to_vec());
                }
                let ok = s.verify(&sig, &StackByteArray::<32>::from(&p.sign_pk)).is_ok();
                let mut o = sig.to_vec();
                o.push(ok as u8);
                o
            }
        }
    }))
}

/// one-shot on the concatenation: (dryoc one-shot, libsodium one-shot)
pub fn oneshot(i: Iface, p: &Params, msg: &[u8]) -> (Vec<u8>, Vec<u8>) {
    match i {
        Iface::GhClassic { outlen, keyed } => {
            let k = if keyed { Some(&p.key32[..]) } else { None };
            let mut o = vec![0xC3u8; outlen];
            crypto_generichash(&mut o, msg, k).unwrap();
            (o, sodium::generichash(outlen, msg, k))
        }
        Iface::GhObject { keyed } => {
            let k = if keyed { Some(&p.key32[..]) } else { None };
            let mut o = vec![0xC3u8; 64];
            crypto_generichash(&mut o, msg, k).unwrap();
            (o, sodium::generichash(64, msg, k))
        }
        Iface::AuthClassic | Iface::AuthObject => {
            let mut o = [0xC3u8; 32];
            crypto_auth(&mut o, msg, &p.key32);
            (o.to_vec(), sodium::auth(msg, &p.key32).to_vec())
        }
        Iface::OtaClassic | Iface::OtaObject => {
            let mut o = [0xC3u8; 16];
            crypto_onetimeauth(&mut o, msg, &p.key32);
            (o.to_vec(), sodium::onetimeauth(msg, &p.key32).to_vec())
        }
        Iface::ShaClassic | Iface::ShaObject => {
            let mut o = [0xC3u8; 64];
            crypto_hash_sha512(&mut o, msg);
            (o.to_vec(), sodium::sha512(msg).to_vec())
        }
        Iface::SignClassic | Iface::SignObject => {
            // the one-shot of pre-hashed signing is the single-update run; libsodium's is
            // its own init/update/final on the whole message
            let mut st = crypto_sign_init();
            crypto_sign_update(&mut st, msg);
            let mut sig = [0xC3u8; 64];
            crypto_sign_final_create(st, &mut sig, &p.sign_sk).unwrap();
            let mut a = sig.to_vec();
            a.push(1);
            let mut b = sodium::sign_ph_create(&[msg], &p.sign_sk).to_vec();
            b.push(1);
            (a, b)
        }
    }
}

fn message(seed: u64, n: usize) -> Vec<u8> {
    let _ = seed;
    (0..n).map(|i| (i % 251) as u8 ^ 0x5a).collect()
}

struct Tracker {
    states: HashSet<(Iface, usize, usize)>,
    transitions: u64,
}
impl Tracker {
    fn walk(&mut self, i: Iface, n: usize, cuts: &[usize]) {
        let b = block_of(i);
        let mut prev = 0;
        for &c in cuts.iter().chain(std::iter::once(&n)) {
            let _ = prev;
            self.transitions += 1;
            self.states.insert((i, c % b, (c / b).min(3)));
            prev = c;
        }
    }
}

fn judge(st: &mut Stats, i: Iface, p: &Params, msg: &[u8], cuts: &[usize], one: &(Vec<u8>, Vec<u8>), kind: &str) {
    let r = incremental(i, p, msg, cuts);
    let ok = match &r {
        Ok(v) => v == &one.0 && v == &one.1,
        Err(_) => false,
    };
    if !ok {
        let n = msg.len();
        let mut pieces = vec![];
        let mut prev = 0;
        for &c in cuts.iter().chain(std::iter::once(&n)) {
            pieces.push(c - prev);
            prev = c;
        }
        let b = block_of(i);
        let class = if pieces.iter().any(|x| *x == 0) { "empty-piece" } else if cuts.iter().any(|c| c % b == 0) { "block-aligned-cut" } else { "straddling-cut" };
        st.fail(Fail {
            check: "C08.chunk".into(),
            signature: format!("C08/{:?}/{}", i, class).replace(' ', ""),
            what: format!("{:?}: message of {} bytes fed as pieces {:?} ({}) gives {} but one-shot gives dryoc {} / libsodium {}", i, n, pieces, kind, r.as_ref().map(|v| short(v)).unwrap_or_else(|e| format!("panic: {}", e)), short(&one.0), short(&one.1)),
            case: json!({"iface": format!("{:?}", i), "n": n, "cuts": cuts}),
        });
    }
    st.evaluations += 1;
    *st.outcomes.entry(if ok { "incremental==oneshot".to_string() } else { "incremental-differs".to_string() }).or_insert(0) += 1;
}

fn iface_by_name(s: &str) -> Option<Iface> {
    IFACES.iter().chain(SIGN_IFACES.iter()).copied().find(|i| format!("{:?}", i) == s)
}

pub fn replay(case: &Value) -> Option<String> {
    let i = iface_by_name(case["iface"].as_str()?)?;
    let mut p = Params::new(0);
    let n = case["n"].as_u64()? as usize;
    let cuts: Vec<usize> = case["cuts"].as_array()?.iter().map(|c| c.as_u64().unwrap() as usize).collect();
    let mut msg = message(0, n);
    if let (Some(k), Some(m)) = (case["key"].as_str(), case["msg"].as_str()) {
        p.key32 = unhx(&json!(k)).try_into().ok()?;
        msg = unhx(&json!(m));
    }
    let one = oneshot(i, &p, &msg);
    match incremental(i, &p, &msg, &cuts) {
        Ok(v) if v == one.0 && v == one.1 => None,
        Ok(v) => Some(format!("incremental {} != one-shot {} / {}", short(&v), short(&one.0), short(&one.1))),
        Err(e) => Some(format!("panic: {}", e)),
    }
}

pub fn run() -> i32 {
    sodium::init();
    quiet_panics();
    let mut ctx = Ctx::new("C08", "model_checking");
    let seed = ctx.seed;
    let tier = ctx.tier;
    let (n2, n3, n4) = (tier.pick(600usize, 1100), tier.pick(300usize, 300), tier.pick(0usize, 128));
    let (sn2, sn3) = (tier.pick(200usize, 300), tier.pick(40usize, 64));
    let depth = tier.pick(5usize, 6);
    let alphabet: [usize; 14] = [0, 1, 15, 16, 17, 63, 64, 65, 127, 128, 129, 255, 256, 257];
    ctx.rule = format!("history-replay exploration of the pending-buffer automaton of each incremental interface ({} hash/MAC interfaces + 2 signing interfaces), one fresh real object per history: (a) ALL partitions of every message length n into <=3 consecutive pieces, empty pieces included (2-way n<={}, 3-way n<={}, 4-way n<={}; signing: 2-way n<={}, 3-way n<={}); (b) ALL update sequences over the piece alphabet {:?} up to depth {} (signing depth 3); (c) ALL sequences of 3 updates over the large-piece alphabet {{0,1,127,128,129,4096,8191,8192,8193,16385}} and ALL ordered pairs over {{0,1,65535,65536,65537,100000,131072,131073,262145}}; oracle: result == dryoc one-shot == libsodium one-shot on the concatenation (signing: signature bytes and the incremental verifier accepts); states = distinct (interface, pending-buffer fill, absorbed-blocks class) reached, transitions = update calls", IFACES.len() - 1, n2, n3, n4, sn2, sn3, alphabet, depth);
    ctx.assume("message bytes are a fixed counting pattern: the automaton under test is driven by lengths, not values");
    let p = Params::new(seed);
    let tracker = std::sync::Mutex::new(Tracker { states: HashSet::new(), transitions: 0 });

    // (a) partitions
    let mut all: Vec<Iface> = IFACES.to_vec();
    all.push(Iface::SignObject);
    let mut units: Vec<(Iface, usize)> = vec![];
    for &i in &all {
        let is_sign = matches!(i, Iface::SignClassic | Iface::SignObject);
        let top = if is_sign { sn2 } else { n2 };
        for n in 0..=top {
            units.push((i, n));
        }
    }
    let st = par_units(&units, |&(i, n), st| {
        let is_sign = matches!(i, Iface::SignClassic | Iface::SignObject);
        let msg = message(seed, n);
        let one = oneshot(i, &p, &msg);
        let mut tr = Tracker { states: HashSet::new(), transitions: 0 };
        for a in 0..=n {
            judge(st, i, &p, &msg, &[a], &one, "2-way");
            tr.walk(i, n, &[a]);
        }
        let lim3 = if is_sign { sn3 } else { n3 };
        if n <= lim3 {
            for a in 0..=n {
                for b in a..=n {
                    judge(st, i, &p, &msg, &[a, b], &one, "3-way");
                    tr.walk(i, n, &[a, b]);
                }
            }
        }
        if !is_sign && n <= n4 {
            for a in 0..=n {
                for b in a..=n {
                    for c in b..=n {
                        judge(st, i, &p, &msg, &[a, b, c], &one, "4-way");
                        tr.walk(i, n, &[a, b, c]);
                    }
                }
            }
        }
        st.distinct = st.evaluations;
        let mut g = tracker.lock().unwrap();
        g.transitions += tr.transitions;
        g.states.extend(tr.states);
        if n == 130 && i == IFACES[1] {
            st.sample(json!({"interface": format!("{:?}", i), "message_len": n, "all_2way_cuts": n + 1, "all_3way_cuts": (n + 1) * (n + 2) / 2, "example_pieces": [[0, 130], [128, 2], [127, 1, 2], [64, 64, 2]]}));
        }
    });
    ctx.absorb("partitions", st);

    // (b) sequences over the piece alphabet
    let mut units: Vec<(Iface, usize, usize)> = vec![];
    for &i in &all {
        for a in 0..alphabet.len() {
            for b in 0..alphabet.len() {
                units.push((i, a, b));
            }
        }
    }
    let st = par_units(&units, |&(i, a, b), st| {
        let is_sign = matches!(i, Iface::SignClassic | Iface::SignObject);
        let d = if is_sign { 3 } else { depth };
        let mut tr = Tracker { states: HashSet::new(), transitions: 0 };
        // sequences of length 1..=d starting with (a, b); length-1 and -2 handled once
        let mut stack: Vec<Vec<usize>> = vec![vec![alphabet[a], alphabet[b]]];
        if b == 0 {
            stack.push(vec![alphabet[a]]);
        }
        while let Some(seq) = stack.pop() {
            let n: usize = seq.iter().sum();
            let mut cuts = vec![];
            let mut acc = 0;
            for x in &seq[..seq.len() - 1] {
                acc += x;
                cuts.push(acc);
            }
            let msg = message(seed, n);
            let one = oneshot(i, &p, &msg);
            judge(st, i, &p, &msg, &cuts, &one, "alphabet sequence");
            tr.walk(i, n, &cuts);
            if seq.len() >= 2 && seq.len() < d {
                for x in alphabet {
                    let mut s2 = seq.clone();
                    s2.push(x);
                    stack.push(s2);
                }
            }
        }
        st.distinct = st.evaluations;
        let mut g = tracker.lock().unwrap();
        g.transitions += tr.transitions;
        g.states.extend(tr.states);
        if a == 3 && b == 4 && i == IFACES[10] {
            st.sample(json!({"interface": format!("{:?}", i), "history": "update(16) update(17) update(x3) ... over the piece alphabet", "depth": d}));
        }
    });
    ctx.absorb("alphabet-sequences", st);

    // large pieces: all sequences of <= 3 updates over {0, 1, 127, 128, 129, 4096, 8191, 8192, 8193, 16385}
    let bigalpha: [usize; 10] = [0, 1, 127, 128, 129, 4096, 8191, 8192, 8193, 16385];
    let mut units: Vec<(Iface, usize)> = vec![];
    for &i in &all {
        if !matches!(i, Iface::SignClassic | Iface::SignObject) {
            for a in 0..bigalpha.len() {
                units.push((i, a));
            }
        }
    }
    let st = par_units(&units, |&(i, a), st| {
        let mut tr = Tracker { states: HashSet::new(), transitions: 0 };
        for b in 0..bigalpha.len() {
            for c in 0..bigalpha.len() {
                let seq = [bigalpha[a], bigalpha[b], bigalpha[c]];
                let n: usize = seq.iter().sum();
                let cuts = [seq[0], seq[0] + seq[1]];
                let msg = message(seed, n);
                let one = oneshot(i, &p, &msg);
                judge(st, i, &p, &msg, &cuts, &one, "large-piece sequence");
                tr.walk(i, n, &cuts);
            }
        }
        st.distinct = st.evaluations;
        let mut g = tracker.lock().unwrap();
        g.transitions += tr.transitions;
        g.states.extend(tr.states);
    });
    ctx.absorb("large-piece-sequences", st);
    // very large single updates (slab / chunked fast paths engage above 64 KiB): all ordered
    // pairs over {0, 1, 65535, 65536, 65537, 100000, 131072, 131073, 262145}
    let huge: [usize; 9] = [0, 1, 65535, 65536, 65537, 100000, 131072, 131073, 262145];
    let mut units: Vec<(Iface, usize)> = vec![];
    for &i in &all {
        for a in 0..huge.len() {
            units.push((i, a));
        }
    }
    let st = par_units(&units, |&(i, a), st| {
        let mut tr = Tracker { states: HashSet::new(), transitions: 0 };
        for b in 0..huge.len() {
            let n = huge[a] + huge[b];
            let cuts = [huge[a]];
            let msg = message(seed, n);
            let one = oneshot(i, &p, &msg);
            judge(st, i, &p, &msg, &cuts, &one, "very-large-piece pair");
            tr.walk(i, n, &cuts);
        }
        st.distinct = st.evaluations;
        let mut g = tracker.lock().unwrap();
        g.transitions += tr.transitions;
        g.states.extend(tr.states);
    });
    ctx.absorb("very-large-pieces", st);
    // Poly1305 operands at the edges of the internal limbs: keys r in {1, 2, 2^44, clamped
    // maximum, two seeded} x s in {0, 2^128-1}; messages = every sequence of 1..=4 blocks over
    // {0, 2^44-1, 2^44, 2^88-1, 2^88, 2^128-1} (optionally + a 5-byte tail); every 2-way cut.
    // A carry that is only lost when a call boundary falls on such an accumulator value shows
    // up as incremental != one-shot.
    {
        let mut rs: Vec<[u8; 16]> = vec![1u128.to_le_bytes(), 2u128.to_le_bytes(), (1u128 << 44).to_le_bytes(), 0x0ffffffc0ffffffc0ffffffc0fffffffu128.to_le_bytes()];
        for i in 2..4 {
            let mut r: [u8; 16] = karr(seed ^ 0x1305, i);
            r[3] &= 15;
            r[7] &= 15;
            r[11] &= 15;
            r[15] &= 15;
            r[4] &= 252;
            r[8] &= 252;
            r[12] &= 252;
            rs.push(r);
        }
        let ssv: [[u8; 16]; 2] = [[0u8; 16], [0xffu8; 16]];
        let blocks: Vec<[u8; 16]> = [0u128, (1 << 44) - 1, 1 << 44, (1 << 88) - 1, 1 << 88, u128::MAX].iter().map(|v| v.to_le_bytes()).collect();
        let mut msgs: Vec<Vec<u8>> = vec![];
        for nb in 1..=4usize {
            for idx in 0..6usize.pow(nb as u32) {
                let mut m = vec![];
                let mut x = idx;
                for _ in 0..nb {
                    m.extend_from_slice(&blocks[x % 6]);
                    x /= 6;
                }
                if nb <= 3 {
                    let mut t = m.clone();
                    t.extend_from_slice(&[0xff, 0, 0xff, 1, 0x80]);
                    msgs.push(t);
                }
                msgs.push(m);
            }
        }
        let units: Vec<(usize, usize)> = (0..rs.len()).flat_map(|r| (0..2).map(move |s| (r, s))).collect();
        let st = par_units(&units, |&(ri, si), st| {
            let mut pp = Params::new(seed);
            pp.key32[..16].copy_from_slice(&rs[ri]);
            pp.key32[16..].copy_from_slice(&ssv[si]);
            for msg in &msgs {
                for i in [Iface::OtaClassic, Iface::OtaObject] {
                    let one = oneshot(i, &pp, msg);
                    for cut in 0..=msg.len() {
                        let r = incremental(i, &pp, msg, &[cut]);
                        let ok = matches!(&r, Ok(v) if v == &one.0 && v == &one.1);
                        st.evaluations += 1;
                        *st.outcomes.entry(if ok { "incremental==oneshot".to_string() } else { "incremental-differs".to_string() }).or_insert(0) += 1;
                        if !ok {
                            st.fail(Fail { check: "C08.chunk".into(), signature: format!("C08/{:?}/limb-edge-operands", i), what: format!("{:?} with key {} on the {}-byte message {} cut at {}: incremental {:?} but one-shot gives dryoc {} / libsodium {}", i, hx(&pp.key32), msg.len(), hx(msg), cut, r.as_ref().map(|v| hx(v)), hx(&one.0), hx(&one.1)), case: json!({"iface": format!("{:?}", i), "n": msg.len(), "cuts": [cut], "key": hx(&pp.key32), "msg": hx(msg)}) });
                        }
                    }
                }
            }
            st.distinct = st.evaluations;
        });
        // key containers longer than the key length (Vec / slices are "at least N bytes"): the
        // incremental object and the one-shot function are given the very same container; either
        // may refuse it, but they must not silently key the hash differently
        {
            let mut st = Stats::new();
            for klen in [32usize, 33, 40, 48, 64] {
                for mlen in [0usize, 1, 128, 129, 300] {
                    let key: Vec<u8> = (0..klen).map(|i| (i as u8).wrapping_mul(5).wrapping_add(1)).collect();
                    let msg = message(seed, mlen);
                    let (k1, k2, m1, m2) = (key.clone(), key.clone(), msg.clone(), msg.clone());
                    let inc = guarded(AssertUnwindSafe(move || {
                        let mut h = GenericHash::<32, 32>::new(Some(&k1)).ok()?;
                        h.update(&m1[..m1.len() / 2]);
                        h.update(&m1[m1.len() / 2..]);
                        h.finalize_to_vec().ok()
                    }));
                    let one = guarded(AssertUnwindSafe(move || GenericHash::<32, 32>::hash_to_vec(&m2, Some(&k2)).ok()));
                    let consistent = match (&inc, &one) {
                        (Ok(Some(a)), Ok(Some(b))) => a == b,
                        _ => true,
                    };
                    st.eval(&("oversize-key", klen, mlen), true, if consistent { "incremental==oneshot" } else { "incremental-differs" });
                    if !consistent {
                        st.fail(Fail { check: "C08.chunk".into(), signature: "C08/GhObject/oversize-key-container".into(), what: format!("GenericHash<32,32> with a {}-byte key container on a {}-byte message: incremental and one-shot results differ", klen, mlen), case: json!({"iface": "GhObject{keyed:true}", "n": mlen, "cuts": [mlen / 2]}) });
                    }
                }
            }
            ctx.absorb("oversize-key-containers", st);
        }
        ctx.note("poly1305_limb_edge_operands", json!({"keys": rs.len() * 2, "messages": msgs.len(), "cuts": "every offset"}));
        ctx.absorb("poly1305-limb-edges", st);
    }
    let g = tracker.lock().unwrap();
    ctx.total.states = g.states.len() as u64;
    ctx.total.transitions = g.transitions;
    ctx.total.traces = ctx.total.evaluations;
    drop(g);
    ctx.require_outcome("incremental==oneshot");
    ctx.finish()
}
