//! C02 (any tampering is rejected) and C17 (a failed open releases nothing) — E-fault:
//! one enumeration of base cases x complete single-fault family x every open form,
//! judged by two different oracles.

use crate::aead::*;
use crate::core::*;
use crate::sodium;
use dryoc::classic::crypto_secretstream_xchacha20poly1305 as ss;
use dryoc::dryocstream::{DryocStream, Pull};
use serde::{Deserialize, Serialize};
use serde_json::{json, Value};
use std::panic::AssertUnwindSafe;

#[derive(Clone, Copy, Debug, PartialEq, Eq, Hash, Serialize, Deserialize)]
pub enum Fault {
    None,
    WireBit(usize),
    NonceBit(usize),
    KeyBit(usize),
    Trunc(usize),
    Extend(usize, u8), // n bytes, style 0=0x00 1=0xff 2=repeat last
    HeaderBit(usize),
    AdBit(usize),
    AdToggle,
    /// two bits of the 16-byte authentication tag (bit indices 0..128 inside the tag)
    TagPair(u8, u8),
    /// structured multi-bit change of the tag: 0..=5 = the same difference (01, 80, ff) in every
    /// 4- / 8-byte word, 6 = halves swapped, 7 = complement
    TagPattern(u8),
}

fn fault_class(f: &Fault, fam_overhead_prefix: usize, wire_len: usize) -> &'static str {
    match f {
        Fault::None => "control",
        Fault::WireBit(i) => {
            let byte = i / 8;
            if fam_overhead_prefix == 48 && byte < 32 {
                "bit/ephemeral-pk"
            } else if fam_overhead_prefix == 1 {
                // stream: tag byte | body | mac
                if byte == 0 {
                    "bit/stream-tag"
                } else if byte >= wire_len - 16 {
                    "bit/mac"
                } else {
                    "bit/body"
                }
            } else if byte < fam_overhead_prefix {
                "bit/tag"
            } else {
                "bit/body"
            }
        }
        Fault::NonceBit(_) => "bit/nonce",
        Fault::KeyBit(_) => "bit/key",
        Fault::Trunc(_) => "truncated",
        Fault::Extend(_, _) => "extended",
        Fault::HeaderBit(_) => "bit/header",
        Fault::AdBit(_) => "bit/ad",
        Fault::AdToggle => "ad-present-absent",
        Fault::TagPair(_, _) => "two-bits/tag",
        Fault::TagPattern(_) => "multi-bit/tag",
    }
}

/// apply a tag-only fault to the 16 tag bytes; false when the pattern leaves the tag unchanged
fn mutate_tag(f: &Fault, tag: &mut [u8]) -> bool {
    let before = tag.to_vec();
    match *f {
        Fault::TagPair(i, j) => {
            tag[i as usize / 8] ^= 1 << (i % 8);
            tag[j as usize / 8] ^= 1 << (j % 8);
        }
        Fault::TagPattern(k) if k < 6 => {
            let w = if k < 3 { 4 } else { 8 };
            let d = [1u8, 0x80, 0xff][k as usize % 3];
            for x in (0..16).step_by(w) {
                tag[x] ^= d;
            }
        }
        Fault::TagPattern(6) => tag.rotate_left(8),
        Fault::TagPattern(_) => tag.iter_mut().for_each(|b| *b = !*b),
        _ => {}
    }
    tag != &before[..]
}

fn tag_faults() -> Vec<Fault> {
    let mut v = vec![];
    for i in 0..128u8 {
        for j in (i + 1)..128 {
            v.push(Fault::TagPair(i, j));
        }
    }
    for k in 0..8u8 {
        v.push(Fault::TagPattern(k));
    }
    v
}

fn extensions() -> Vec<(usize, u8)> {
    let mut v = vec![];
    for n in (1..=17).chain([32, 64]) {
        for s in 0..3u8 {
            v.push((n, s));
        }
    }
    v
}

fn extend(w: &[u8], n: usize, style: u8) -> Vec<u8> {
    let mut v = w.to_vec();
    let b = match style {
        0 => 0u8,
        1 => 0xff,
        _ => *w.last().unwrap_or(&0x5a),
    };
    v.extend(std::iter::repeat(b).take(n));
    v
}

fn aead_faults(fam: Fam, wire_len: usize) -> Vec<Fault> {
    let mut v = vec![Fault::None];
    for i in 0..wire_len * 8 {
        v.push(Fault::WireBit(i));
    }
    if fam != Fam::Seal {
        for i in 0..192 {
            v.push(Fault::NonceBit(i));
        }
        for i in 0..256 {
            v.push(Fault::KeyBit(i));
        }
    }
    for n in 0..wire_len {
        v.push(Fault::Trunc(n));
    }
    for (n, s) in extensions() {
        v.push(Fault::Extend(n, s));
    }
    v
}

thread_local! {
    /// true while the wire being mutated is a sealed box (tag after the ephemeral key)
    static SEAL_LAYOUT: std::cell::Cell<bool> = const { std::cell::Cell::new(false) };
}

fn apply_aead(f: &Fault, ks: &Keys, wire: &[u8]) -> (Keys, Vec<u8>) {
    let mut k2 = ks.clone();
    let mut w2 = wire.to_vec();
    match *f {
        Fault::None => {}
        Fault::WireBit(i) => w2[i / 8] ^= 1 << (i % 8),
        Fault::NonceBit(i) => k2.n[i / 8] ^= 1 << (i % 8),
        Fault::KeyBit(i) => {
            k2.k[i / 8] ^= 1 << (i % 8);
            k2.pre[i / 8] ^= 1 << (i % 8);
        }
        Fault::Trunc(n) => w2.truncate(n),
        Fault::Extend(n, s) => w2 = extend(wire, n, s),
        Fault::TagPair(_, _) | Fault::TagPattern(_) => {
            // sealed boxes carry the tag after the 32-byte ephemeral key
            let off = if w2.len() >= 48 && SEAL_LAYOUT.with(|c| c.get()) { 32 } else { 0 };
            mutate_tag(f, &mut w2[off..off + 16]);
        }
        _ => unreachable!(),
    }
    (k2, w2)
}

#[derive(Clone, Copy, PartialEq, Eq)]
pub enum Mode {
    Tamper, // C02
    Leak,   // C17
}

fn judge(mode: Mode, prop: &str, form: &str, fam: &str, fclass: &str, is_control: bool, out: &OpenOut, m: &[u8], sodium_accepts: Option<bool>) -> (String, Option<(String, String)>) {
    // returns (outcome class, optional (signature, what))
    match mode {
        Mode::Tamper => match (&out.v, is_control) {
            (Verdict::NA, _) => ("not-applicable".into(), None),
            (Verdict::Ok(got), true) if got == m => {
                if sodium_accepts == Some(false) {
                    return ("control-accepted".into(), Some((format!("{}/{}/{}/harness-control", prop, fam, form), "libsodium rejects the untampered control: harness error".into())));
                }
                ("control-accepted".into(), None)
            }
            (Verdict::Ok(_), true) => ("control-wrong".into(), Some((format!("{}/{}/{}/control-wrong-message", prop, fam, form), "untampered input accepted with a wrong message".into()))),
            (Verdict::Err, true) => ("control-rejected".into(), Some((format!("{}/{}/{}/control-rejected", prop, fam, form), "the untampered input was rejected".into()))),
            (Verdict::Panic(p), _) => ("panic".into(), Some((format!("{}/{}/{}/panic/{}", prop, fam, form, fclass), format!("panicked instead of returning an error: {}", p)))),
            (Verdict::Err, false) => {
                if sodium_accepts == Some(true) {
                    return ("tamper-rejected".into(), Some((format!("{}/{}/{}/harness-fault", prop, fam, form), format!("libsodium accepts the {} input: the harness fault is not a real tampering", fclass))));
                }
                ("tamper-rejected".into(), None)
            }
            (Verdict::Ok(_), false) => ("tamper-accepted".into(), Some((format!("{}/{}/{}/accepted/{}", prop, fam, form, fclass), format!("tampered input ({}) was accepted", fclass)))),
        },
        Mode::Leak => match &out.v {
            Verdict::Err => {
                if out.before.is_empty() && out.after.is_empty() {
                    return ("err-no-buffer".into(), None);
                }
                let same = out.after == out.before;
                let zero = out.after.iter().all(|b| *b == 0);
                if same {
                    ("err-buffer-untouched".into(), None)
                } else if zero {
                    ("err-buffer-zeroed".into(), None)
                } else {
                    let changed = out.after.iter().zip(out.before.iter()).filter(|(a, b)| a != b).count();
                    ("err-buffer-leaks".into(), Some((format!("{}/{}/{}/buffer-modified", prop, fam, form), format!("after a failed open ({}) {} of {} bytes of the caller's buffer differ from what they were and are not zero", fclass, changed, out.after.len()))))
                }
            }
            Verdict::Ok(_) => ("ok".into(), None),
            Verdict::Panic(_) => ("panic(other-property)".into(), None),
            Verdict::NA => ("not-applicable".into(), None),
        },
    }
}

/// C17, "the object API returns only an error" / "nothing derived from the rejected ciphertext":
/// the text an error carries may depend on which check failed and on lengths, but not on the
/// rejected bytes. Within one base case every failed open of one form under one fault class and
/// one submitted length must therefore produce the same Display/Debug text.
#[derive(Default)]
struct ErrTexts(std::collections::HashMap<(String, String, usize, usize), (String, Fault)>);
impl ErrTexts {
    fn check(&mut self, mode: Mode, prop: &str, fam: &str, form: &str, fclass: &str, wlen: usize, outlen: usize, fault: Fault, out: &OpenOut) -> Option<(String, String, Fault)> {
        let text = take_last_err();
        if mode != Mode::Leak || out.v != Verdict::Err {
            return None;
        }
        let text = text?;
        match self.0.entry((form.to_string(), fclass.to_string(), wlen, outlen)) {
            std::collections::hash_map::Entry::Vacant(v) => {
                v.insert((text, fault));
                None
            }
            std::collections::hash_map::Entry::Occupied(o) => {
                if o.get().0 == text {
                    None
                } else {
                    Some((format!("{}/{}/{}/error-text-depends-on-input", prop, fam, form), format!("two rejected inputs of the same length and fault class ({}: {:?} and {:?}) produce different error texts: '{}' vs '{}'", fclass, o.get().1, fault, short_text(&o.get().0), short_text(&text)), o.get().1))
                }
            }
        }
    }
}
fn short_text(s: &str) -> String {
    if s.len() > 160 {
        format!("{}...", &s[..160])
    } else {
        s.to_string()
    }
}

/// caller-chosen buffer sizes: the message buffer handed to a classic copying form (or the
/// classic stream pull) is not sized from the submitted ciphertext. Only what the statement
/// fixes is demanded: a tampered input never yields Ok, an accepted control yields the
/// original message in the leading bytes; refusing an odd-sized buffer (Err or panic) is
/// the implementation's choice.
fn judge_bs(mode: Mode, prop: &str, form: &str, fam: &str, fclass: &str, is_control: bool, out: &OpenOut, m: &[u8]) -> (String, Option<(String, String)>) {
    if mode == Mode::Leak {
        let (oc, f) = judge(mode, prop, form, fam, fclass, is_control, out, m, None);
        return (oc, f.map(|(s, w)| (format!("{}/buffer-size", s), w)));
    }
    match (&out.v, is_control) {
        (Verdict::NA, _) => ("not-applicable".into(), None),
        (Verdict::Ok(got), true) => {
            // stream: got = message || tag byte, m likewise; aead: got = whole buffer
            let ok = if fam == "stream" { got == m } else { got.len() >= m.len() && &got[..m.len()] == m };
            if ok {
                ("control-accepted".into(), None)
            } else {
                ("control-wrong".into(), Some((format!("{}/{}/{}/control-wrong-message/buffer-size", prop, fam, form), "untampered input accepted with a wrong message".into())))
            }
        }
        (Verdict::Ok(_), false) => ("tamper-accepted".into(), Some((format!("{}/{}/{}/accepted/{}/buffer-size", prop, fam, form, fclass), format!("tampered input ({}) was accepted", fclass)))),
        (Verdict::Err, true) => ("control-refused(buffer-size)".into(), None),
        (Verdict::Err, false) => ("tamper-rejected".into(), None),
        (Verdict::Panic(_), _) => ("refused-by-panic(buffer-size)".into(), None),
    }
}

// ---------------------------------------------------------------------------------------
// streams

struct StreamBase {
    key: [u8; 32],
    header: [u8; 24],
    ad: Option<Vec<u8>>,
    msg: Vec<u8>,
    tag: u8,
    wire: Vec<u8>,
}

fn stream_base(seed: u64, ki: usize, mlen: usize, adlen: Option<usize>, tag: u8) -> StreamBase {
    let key: [u8; 32] = karr(seed, ki);
    let header: [u8; 24] = karr(seed ^ 0x77, ki + 1);
    let ad = adlen.map(|n| cval(seed, 3, n));
    let msg = cval(seed, 2, mlen);
    let mut st = sodium::ss_init_pull(&header, &key);
    let wire = sodium::ss_push(&mut st, &msg, ad.as_deref(), tag);
    StreamBase { key, header, ad, msg, tag, wire }
}

fn stream_faults(b: &StreamBase) -> Vec<Fault> {
    let mut v = vec![Fault::None];
    for i in 0..b.wire.len() * 8 {
        v.push(Fault::WireBit(i));
    }
    for i in 0..192 {
        v.push(Fault::HeaderBit(i));
    }
    for i in 0..256 {
        v.push(Fault::KeyBit(i));
    }
    if let Some(a) = &b.ad {
        for i in 0..a.len() * 8 {
            v.push(Fault::AdBit(i));
        }
    }
    v.push(Fault::AdToggle);
    for n in 0..b.wire.len() {
        v.push(Fault::Trunc(n));
    }
    for (n, s) in extensions() {
        v.push(Fault::Extend(n, s));
    }
    v
}

struct StreamIn {
    key: [u8; 32],
    header: [u8; 24],
    ad: Option<Vec<u8>>,
    wire: Vec<u8>,
}

fn apply_stream(f: &Fault, b: &StreamBase) -> Option<StreamIn> {
    let mut s = StreamIn { key: b.key, header: b.header, ad: b.ad.clone(), wire: b.wire.clone() };
    match *f {
        Fault::None => {}
        Fault::WireBit(i) => s.wire[i / 8] ^= 1 << (i % 8),
        Fault::HeaderBit(i) => s.header[i / 8] ^= 1 << (i % 8),
        Fault::KeyBit(i) => s.key[i / 8] ^= 1 << (i % 8),
        Fault::AdBit(i) => s.ad.as_mut().unwrap()[i / 8] ^= 1 << (i % 8),
        Fault::AdToggle => {
            s.ad = match &b.ad {
                // absent <-> present; an empty AD is the same as none, so a present-but-empty
                // AD toggles to a one-byte AD
                None => Some(vec![0x41]),
                Some(a) if a.is_empty() => Some(vec![0x41]),
                Some(_) => None,
            }
        }
        Fault::Trunc(n) => s.wire.truncate(n),
        Fault::Extend(n, st) => s.wire = extend(&b.wire, n, st),
        Fault::TagPair(_, _) | Fault::TagPattern(_) => {
            let l = s.wire.len();
            if !mutate_tag(f, &mut s.wire[l - 16..]) {
                return None;
            }
        }
        _ => return None,
    }
    Some(s)
}

const STREAM_FORMS: [&str; 2] = ["secretstream_pull", "DryocStream::pull_to_vec"];

/// returns (OpenOut, tag variable after the call) — for the classic form the buffer is the
/// message buffer followed by the one-byte tag variable so that C17 sees both.
fn stream_open(form: usize, s: &StreamIn) -> OpenOut {
    if form == 0 {
        let mlen = crate::aead::OUT_LEN.with(|c| c.get()).unwrap_or(s.wire.len().saturating_sub(17));
        let mut before = vec![SENTINEL; mlen];
        before.push(0x77);
        let mut m = vec![SENTINEL; mlen];
        let mut tag = 0x77u8;
        let r = guarded(AssertUnwindSafe(|| {
            let mut st = ss::State::new();
            ss::crypto_secretstream_xchacha20poly1305_init_pull(&mut st, &s.header, &s.key);
            ss::crypto_secretstream_xchacha20poly1305_pull(&mut st, &mut m, &mut tag, &s.wire, s.ad.as_deref())
        }));
        let v = match r {
            Err(p) => Verdict::Panic(p),
            Ok(Ok(n)) => {
                let mut out = m[..n].to_vec();
                out.push(tag);
                Verdict::Ok(out)
            }
            Ok(Err(e)) => {
                note_err(&e);
                Verdict::Err
            }
        };
        let mut after = m;
        after.push(tag);
        OpenOut { v, before, after }
    } else {
        let r = guarded(AssertUnwindSafe(|| {
            let mut ds: DryocStream<Pull> = DryocStream::init_pull(&s.key, &s.header);
            ds.pull_to_vec(&s.wire, s.ad.as_ref())
        }));
        let v = match r {
            Err(p) => Verdict::Panic(p),
            Ok(Ok((m, t))) => {
                let mut out = m;
                out.push(t.bits());
                Verdict::Ok(out)
            }
            Ok(Err(e)) => {
                note_err(&e);
                Verdict::Err
            }
        };
        OpenOut { v, before: vec![], after: vec![] }
    }
}

fn stream_sodium(s: &StreamIn) -> bool {
    let mut st = sodium::ss_init_pull(&s.header, &s.key);
    sodium::ss_pull(&mut st, &s.wire, s.ad.as_deref()).is_some()
}

// ---------------------------------------------------------------------------------------

pub fn replay(case: &Value) -> Option<String> {
    let mode = if case["mode"] == "leak" { Mode::Leak } else { Mode::Tamper };
    let prop = if mode == Mode::Leak { "C17" } else { "C02" };
    let fault: Fault = serde_json::from_value(case["fault"].clone()).unwrap();
    if !case["fault0"].is_null() {
        // error-text oracle: the two faults must yield the same error text
        let fault0: Fault = serde_json::from_value(case["fault0"].clone()).unwrap();
        let text = |f: &Fault| -> Option<String> {
            let _ = take_last_err();
            if case["family"] == "stream" {
                let b = stream_base(case["seed"].as_u64().unwrap(), case["ki"].as_u64().unwrap() as usize, case["mlen"].as_u64().unwrap() as usize, case["adlen"].as_u64().map(|x| x as usize), case["tag"].as_u64().unwrap() as u8);
                let s = apply_stream(f, &b)?;
                let form = STREAM_FORMS.iter().position(|x| *x == case["form"].as_str().unwrap()).unwrap();
                let _ = stream_open(form, &s);
            } else {
                let ks = Keys::from_json(&case["keys"]);
                let m = unhx(&case["msg"]);
                let o = open_by_name(case["form"].as_str().unwrap()).unwrap();
                let wire = ref_wire(o.1, &ks, &m);
                let (k2, w2) = apply_aead(f, &ks, &wire);
                let _ = (o.2)(&k2, &w2, SENTINEL);
            }
            take_last_err()
        };
        let (a, b) = (text(&fault0), text(&fault));
        return if a.is_some() && b.is_some() && a != b { Some(format!("error-text-depends-on-input: '{}' vs '{}'", short_text(&a.unwrap()), short_text(&b.unwrap()))) } else { None };
    }
    if let Some(n) = case["outlen"].as_u64() {
        let n = n as usize;
        if case["family"] == "stream" {
            let b = stream_base(case["seed"].as_u64().unwrap(), case["ki"].as_u64().unwrap() as usize, case["mlen"].as_u64().unwrap() as usize, case["adlen"].as_u64().map(|x| x as usize), case["tag"].as_u64().unwrap() as u8);
            let s = apply_stream(&fault, &b)?;
            let out = crate::aead::with_out_len(Some(n), || stream_open(0, &s));
            let mut want = b.msg.clone();
            want.push(b.tag);
            let (_, f) = judge_bs(mode, prop, STREAM_FORMS[0], "stream", fault_class(&fault, 1, b.wire.len()), fault == Fault::None, &out, &want);
            return f.map(|x| format!("{}: {}", x.0, x.1));
        }
        let ks = Keys::from_json(&case["keys"]);
        let m = unhx(&case["msg"]);
        let name = case["form"].as_str().unwrap();
        let o = open_by_name(name).unwrap();
        let wire = ref_wire(o.1, &ks, &m);
        let (k2, w2) = apply_aead(&fault, &ks, &wire);
        let out = crate::aead::with_out_len(Some(n), || (o.2)(&k2, &w2, SENTINEL));
        let (_, f) = judge_bs(mode, prop, name, fam_name(o.1), fault_class(&fault, overhead(o.1), wire.len()), fault == Fault::None, &out, &m);
        return f.map(|x| format!("{}: {}", x.0, x.1));
    }
    if case["family"] == "stream" {
        let b = stream_base(case["seed"].as_u64().unwrap(), case["ki"].as_u64().unwrap() as usize, case["mlen"].as_u64().unwrap() as usize, case["adlen"].as_u64().map(|x| x as usize), case["tag"].as_u64().unwrap() as u8);
        let s = apply_stream(&fault, &b)?;
        let form = STREAM_FORMS.iter().position(|f| *f == case["form"].as_str().unwrap()).unwrap();
        let out = stream_open(form, &s);
        let mut want = b.msg.clone();
        want.push(b.tag);
        let (_, f) = judge(mode, prop, STREAM_FORMS[form], "stream", fault_class(&fault, 1, b.wire.len()), fault == Fault::None, &out, &want, Some(stream_sodium(&s)));
        return f.map(|x| format!("{}: {}", x.0, x.1));
    }
    let ks = Keys::from_json(&case["keys"]);
    let m = unhx(&case["msg"]);
    let name = case["form"].as_str().unwrap();
    let o = open_by_name(name).unwrap();
    let wire = ref_wire(o.1, &ks, &m);
    SEAL_LAYOUT.with(|c| c.set(o.1 == Fam::Seal));
    let (k2, w2) = apply_aead(&fault, &ks, &wire);
    let out = (o.2)(&k2, &w2, SENTINEL);
    let (_, f) = judge(mode, prop, name, fam_name(o.1), fault_class(&fault, overhead(o.1), wire.len()), fault == Fault::None, &out, &m, None);
    f.map(|x| format!("{}: {}", x.0, x.1))
}

pub fn run(mode: Mode) -> i32 {
    sodium::init();
    quiet_panics();
    let prop = if mode == Mode::Leak { "C17" } else { "C02" };
    let mut ctx = Ctx::new(prop, "fault_enumeration");
    let seed = ctx.seed;
    let maxlen = ctx.tier.pick(160usize, 400);
    let modestr = if mode == Mode::Leak { "leak" } else { "tamper" };
    ctx.rule = format!("single-fault enumeration: for every base case (family in {{secretbox, box, sealedbox, stream}} x message length 0..={} x key alphabet) every member of the fault family — each bit of the wire (tag/MAC, body, sealed-box ephemeral key, stream tag byte), each bit of nonce / symmetric or precomputed key / stream header / associated data, AD present<->absent, truncation to every shorter length, extension by 1..=17,32,64 bytes of 00/ff/repeat-last, every pair of tag bits and 8 structured multi-bit tag patterns (base lengths 0, 1, 17) — plus the untampered control, is applied once and presented to every open form of that family ({} AEAD forms + 2 stream forms); {}; long messages (1023..16385 bytes quick, up to 256 KiB thorough) with the structural fault family (control, truncations, extensions, key/nonce/header/AD faults, both edge bits of every component edge and of every 64*2^k / 1 KiB boundary +-1,+-17); heap container open forms (nightly build) on the reduced grid base lengths 0..=24, both edge bits of every byte, long lengths {{1024, 4097}}; locked container forms on base lengths {{0,1,17}} with one fault per component edge; non-trivial = (base, fault, form) triple executed (NA pairs, e.g. a detached form on a wire shorter than a tag, are counted as evaluations but not as non-trivial)", maxlen, open_all().len(),
        if mode == Mode::Leak { "oracle: after Err the caller's message buffer (prefilled with a sentinel; the submitted ciphertext for in-place forms) and the stream tag variable are byte-identical to what they were, or all zero" } else { "oracle: control => Ok(original message); every fault => Err (a panic is a violation); libsodium's verdict on the same faulty input must agree" });
    ctx.assume("a flipped key bit is rejected only with probability 1-2^-128 in principle; accepted as residual");
    ctx.assume("public/secret key bits of the box forms are not flipped (clamped / masked bits leave the key unchanged); the precomputed key is");

    // AEAD families
    let fams = [Fam::Sb, Fam::Bx, Fam::Seal];
    let mut units: Vec<(usize, usize, usize)> = vec![]; // fam, key set, len
    for (fi, f) in fams.iter().enumerate() {
        let ksets: &[usize] = if *f == Fam::Sb { &[2, 3] } else { &[3] };
        for &k in ksets {
            for len in 0..=maxlen {
                units.push((fi, k, len));
            }
        }
    }
    let st = par_units(&units, |&(fi, ki, len), st| {
        let fam = fams[fi];
        let ks = Keys::make(seed, ki, (ki + 1) % 5);
        let m = cval(seed, 2 + (len % 2), len);
        let wire = ref_wire(fam, &ks, &m);
        let forms: Vec<_> = open_all().iter().filter(|o| o.1 == fam).collect();
        let mut et = ErrTexts::default();
        for fault in aead_faults(fam, wire.len()) {
            let (k2, w2) = apply_aead(&fault, &ks, &wire);
            let fclass = fault_class(&fault, overhead(fam), wire.len());
            let sodium_ok = if mode == Mode::Tamper {
                Some(match (fam, fault) {
                    (Fam::Bx, Fault::KeyBit(_)) => sodium::secretbox_open_easy(&w2, &k2.n, &k2.pre).is_some(),
                    _ => ref_open(fam, &k2, &w2).is_some(),
                })
            } else {
                None
            };
            for o in &forms {
                if fam == Fam::Bx && matches!(fault, Fault::KeyBit(_)) && !uses_pre(o.0) {
                    continue;
                }
                // heap container forms: base lengths 0..=24 and both edge bits of every byte
                if is_heavy(o.0) && (len > 24 || ki != 3 || matches!(fault, Fault::WireBit(b) | Fault::NonceBit(b) | Fault::KeyBit(b) if b % 8 != 0 && b % 8 != 7)) {
                    continue;
                }
                // locked container forms: base lengths {0,1,17}, one fault per component edge
                if weight(o.0) == 2 {
                    let wl = wire.len();
                    let keep = match fault {
                        Fault::None => true,
                        Fault::WireBit(b) => [0, 7, 15 * 8, 16 * 8, 31 * 8, 32 * 8, 47 * 8, 48 * 8, (wl - 1) * 8 + 7].contains(&b),
                        Fault::NonceBit(b) => b == 0 || b == 191,
                        Fault::KeyBit(b) => b == 0 || b == 255,
                        Fault::Trunc(n) => n + 1 == wl || n == 0 || n == 16,
                        Fault::Extend(n, s) => (n == 1 || n == 16) && s == 0,
                        _ => false,
                    };
                    if !keep || ![0usize, 1, 17].contains(&len) {
                        continue;
                    }
                }
                let out = (o.2)(&k2, &w2, SENTINEL);
                let (oc, f) = judge(mode, prop, o.0, fam_name(fam), fclass, fault == Fault::None, &out, &m, sodium_ok);
                st.eval(&(fi, ki, len, fault, o.0), out.v != Verdict::NA, &oc);
                if let Some((sig, what, f0)) = et.check(mode, prop, fam_name(fam), o.0, fclass, w2.len(), 0, fault, &out) {
                    st.fail(Fail { check: "C02.fault".into(), signature: sig, what: format!("{} on {} message of {} bytes: {}", o.0, fam_name(fam), len, what), case: json!({"mode": modestr, "family": fam_name(fam), "form": o.0, "keys": ks.json(), "msg": hx(&m), "fault": fault, "fault0": f0}) });
                }
                if let Some((sig, what)) = f {
                    st.fail(Fail {
                        check: "C02.fault".into(),
                        signature: sig,
                        what: format!("{} on {} message of {} bytes, fault {:?}: {}", o.0, fam_name(fam), len, fault, what),
                        case: json!({"mode": modestr, "family": fam_name(fam), "form": o.0, "keys": ks.json(), "msg": hx(&m), "fault": fault}),
                    });
                }
            }
        }
        if len == 3 && fi == 0 && ki == 2 {
            st.sample(json!({"family": "secretbox", "msg_len": 3, "faults": aead_faults(fam, wire.len()).len(), "example_faults": ["None", "WireBit(0)", "NonceBit(191)", "KeyBit(255)", "Trunc(0)", "Extend(17,2)"], "forms": forms.iter().map(|o| o.0).collect::<Vec<_>>()}));
        }
    });
    ctx.absorb("aead", st);

    // streams
    let adlens: [Option<usize>; 4] = [None, Some(1), Some(16), Some(17)];
    let mut units: Vec<(usize, usize, usize)> = vec![]; // mlen, ad idx, tag
    for mlen in 0..=maxlen {
        for a in 0..adlens.len() {
            units.push((mlen, a, [0u8, 1, 2, 3][(mlen + a) % 4] as usize));
        }
    }
    let st = par_units(&units, |&(mlen, ai, tag), st| {
        let ki = 2 + (mlen % 2);
        let b = stream_base(seed, ki, mlen, adlens[ai], tag as u8);
        let mut want = b.msg.clone();
        want.push(b.tag);
        let mut et = ErrTexts::default();
        for fault in stream_faults(&b) {
            let Some(s) = apply_stream(&fault, &b) else { continue };
            let fclass = fault_class(&fault, 1, b.wire.len());
            let sodium_ok = if mode == Mode::Tamper { Some(stream_sodium(&s)) } else { None };
            for form in 0..2 {
                let out = stream_open(form, &s);
                let (oc, f) = judge(mode, prop, STREAM_FORMS[form], "stream", fclass, fault == Fault::None, &out, &want, sodium_ok);
                st.eval(&(mlen, ai, fault, form), true, &oc);
                if let Some((sig, what, f0)) = et.check(mode, prop, "stream", STREAM_FORMS[form], fclass, s.wire.len(), 0, fault, &out) {
                    st.fail(Fail { check: "C02.fault".into(), signature: sig, what: format!("{} on stream message of {} bytes (ad {:?}): {}", STREAM_FORMS[form], mlen, adlens[ai], what), case: json!({"mode": modestr, "family": "stream", "form": STREAM_FORMS[form], "seed": seed, "ki": ki, "mlen": mlen, "adlen": adlens[ai], "tag": tag, "fault": fault, "fault0": f0}) });
                }
                if let Some((sig, what)) = f {
                    st.fail(Fail {
                        check: "C02.fault".into(),
                        signature: sig,
                        what: format!("{} on stream message of {} bytes (ad {:?}), fault {:?}: {}", STREAM_FORMS[form], mlen, adlens[ai], fault, what),
                        case: json!({"mode": modestr, "family": "stream", "form": STREAM_FORMS[form], "seed": seed, "ki": ki, "mlen": mlen, "adlen": adlens[ai], "tag": tag, "fault": fault}),
                    });
                }
            }
        }
        if mlen == 2 && ai == 1 {
            st.sample(json!({"family": "stream", "msg_len": 2, "adlen": 1, "faults": stream_faults(&b).len(), "example_faults": ["HeaderBit(0)", "AdBit(7)", "AdToggle", "WireBit(0) (encrypted tag byte)"]}));
        }
    });
    ctx.absorb("stream", st);
    // long messages: chunked / striped / single-pass code paths only engage above some size;
    // every structural position (component edges, every 64-byte and 1 KiB boundary +-1) is faulted
    let long_lens: Vec<usize> = match ctx.tier {
        Tier::Quick => vec![1023, 1024, 1025, 4095, 4096, 4097, 8192, 16385],
        Tier::Thorough => vec![511, 512, 513, 1023, 1024, 1025, 2048, 4095, 4096, 4097, 8191, 8192, 8193, 16384, 16385, 65536, 65537, 262145],
    };
    fn structural_bits(wire_len: usize) -> Vec<usize> {
        let mut bytes: Vec<usize> = vec![0, 1, 15, 16, 17, 31, 32, 33, 47, 48, 49, wire_len - 1, wire_len - 2, wire_len - 16, wire_len - 17, wire_len - 18, wire_len / 2];
        let mut b = 64;
        while b < wire_len {
            for d in [0usize, 1, 16, 17] {
                if b + d < wire_len {
                    bytes.push(b + d);
                }
                if b >= d + 1 {
                    bytes.push(b - d - 1);
                }
            }
            b = if b < 1024 { b * 2 } else { b + 1024 };
        }
        bytes.sort();
        bytes.dedup();
        bytes.into_iter().filter(|x| *x < wire_len).flat_map(|x| [x * 8, x * 8 + 7]).collect()
    }
    let mut units: Vec<(usize, usize)> = vec![]; // family (0..3 aead, 3 stream), len
    for f in 0..4 {
        for &l in &long_lens {
            units.push((f, l));
        }
    }
    let st = par_units(&units, |&(fi, len), st| {
        let m = cval(seed, 3, len);
        if fi < 3 {
            let fam = fams[fi];
            let ks = Keys::make(seed, 3, 1);
            let wire = ref_wire(fam, &ks, &m);
            let forms: Vec<_> = open_all().iter().filter(|o| o.1 == fam).collect();
            let mut faults = vec![Fault::None, Fault::Trunc(wire.len() - 1), Fault::Trunc(wire.len() - 16), Fault::Trunc(overhead(fam)), Fault::Extend(1, 0), Fault::Extend(16, 2), Fault::Extend(64, 1)];
            faults.extend(structural_bits(wire.len()).into_iter().map(Fault::WireBit));
            if fam != Fam::Seal {
                faults.extend([Fault::NonceBit(0), Fault::NonceBit(191), Fault::KeyBit(0), Fault::KeyBit(255)]);
            }
            for fault in faults {
                let (k2, w2) = apply_aead(&fault, &ks, &wire);
                let fclass = fault_class(&fault, overhead(fam), wire.len());
                let sodium_ok = if mode == Mode::Tamper {
                    Some(match (fam, fault) {
                        (Fam::Bx, Fault::KeyBit(_)) => sodium::secretbox_open_easy(&w2, &k2.n, &k2.pre).is_some(),
                        _ => ref_open(fam, &k2, &w2).is_some(),
                    })
                } else {
                    None
                };
                for o in &forms {
                    if fam == Fam::Bx && matches!(fault, Fault::KeyBit(_)) && !uses_pre(o.0) {
                        continue;
                    }
                    if is_heavy(o.0) && !(len == 1024 || len == 4097) {
                        continue;
                    }
                    if weight(o.0) == 2 && !matches!(fault, Fault::None | Fault::Trunc(_) | Fault::Extend(1, 0)) && !matches!(fault, Fault::WireBit(b) if b == 0 || b % 8192 == 7) {
                        continue;
                    }
                    let out = (o.2)(&k2, &w2, SENTINEL);
                    let (oc, f) = judge(mode, prop, o.0, fam_name(fam), fclass, fault == Fault::None, &out, &m, sodium_ok);
                    st.eval(&("long", fi, len, fault, o.0), out.v != Verdict::NA, &oc);
                    if let Some((sig, what)) = f {
                        st.fail(Fail { check: "C02.fault".into(), signature: format!("{}/long-message", sig), what: format!("{} on {} message of {} bytes, fault {:?}: {}", o.0, fam_name(fam), len, fault, what), case: json!({"mode": modestr, "family": fam_name(fam), "form": o.0, "keys": ks.json(), "msg": hx(&m), "fault": fault}) });
                    }
                }
            }
        } else {
            for (ai, adl) in [None, Some(17usize)].iter().enumerate() {
                let tagv: u8 = [0u8, 3][ai];
                let b = stream_base(seed, 3, len, *adl, tagv);
                let mut want = b.msg.clone();
                want.push(b.tag);
                let mut faults = vec![Fault::None, Fault::Trunc(b.wire.len() - 1), Fault::Trunc(17), Fault::Extend(1, 0), Fault::Extend(16, 2), Fault::HeaderBit(0), Fault::HeaderBit(191), Fault::KeyBit(3), Fault::AdToggle];
                faults.extend(structural_bits(b.wire.len()).into_iter().map(Fault::WireBit));
                for fault in faults {
                    let Some(s) = apply_stream(&fault, &b) else { continue };
                    let fclass = fault_class(&fault, 1, b.wire.len());
                    let sodium_ok = if mode == Mode::Tamper { Some(stream_sodium(&s)) } else { None };
                    for form in 0..2 {
                        let out = stream_open(form, &s);
                        let (oc, f) = judge(mode, prop, STREAM_FORMS[form], "stream", fclass, fault == Fault::None, &out, &want, sodium_ok);
                        st.eval(&("long-stream", len, ai, fault, form), true, &oc);
                        if let Some((sig, what)) = f {
                            st.fail(Fail { check: "C02.fault".into(), signature: format!("{}/long-message", sig), what: format!("{} on stream message of {} bytes (ad {:?}), fault {:?}: {}", STREAM_FORMS[form], len, adl, fault, what), case: json!({"mode": modestr, "family": "stream", "form": STREAM_FORMS[form], "seed": seed, "ki": 3, "mlen": len, "adlen": adl, "tag": tagv, "fault": fault}) });
                        }
                    }
                }
            }
        }
        if len == 4096 && fi == 3 {
            st.sample(json!({"family": "stream", "msg_len": 4096, "faults": "control + truncations + extensions + header/key/AD faults + both edge bits of every structural byte position (component edges, 64*2^k and every 1 KiB boundary +-1,+-17)"}));
        }
    });
    ctx.note("long_message_lengths", json!(long_lens));
    ctx.absorb("long-messages", st);
    // multi-bit changes confined to the authentication tag: every pair of tag bits and eight
    // structured patterns (a tag comparison that folds word differences together wrongly
    // accepts exactly these), base lengths {0, 1, 17}, every weight-0 open form
    {
        let tf = tag_faults();
        let units: Vec<(usize, usize)> = (0..4).flat_map(|f| [0usize, 1, 17].into_iter().map(move |l| (f, l))).collect();
        let st = par_units(&units, |&(fi, len), st| {
            let m = cval(seed, 2, len);
            if fi < 3 {
                let fam = fams[fi];
                SEAL_LAYOUT.with(|c| c.set(fam == Fam::Seal));
                let ks = Keys::make(seed, 3, 1);
                let wire = ref_wire(fam, &ks, &m);
                let forms: Vec<_> = open_all().iter().filter(|o| o.1 == fam && weight(o.0) == 0).collect();
                for fault in &tf {
                    let (k2, w2) = apply_aead(fault, &ks, &wire);
                    if w2 == wire {
                        continue;
                    }
                    let fclass = fault_class(fault, overhead(fam), wire.len());
                    for o in &forms {
                        let out = (o.2)(&k2, &w2, SENTINEL);
                        let (oc, f) = judge(mode, prop, o.0, fam_name(fam), fclass, false, &out, &m, None);
                        st.eval(&("tagbits", fi, len, *fault, o.0), out.v != Verdict::NA, &oc);
                        if let Some((sig, what)) = f {
                            st.fail(Fail { check: "C02.fault".into(), signature: sig, what: format!("{} on {} message of {} bytes, fault {:?}: {}", o.0, fam_name(fam), len, fault, what), case: json!({"mode": modestr, "family": fam_name(fam), "form": o.0, "keys": ks.json(), "msg": hx(&m), "fault": fault}) });
                        }
                    }
                }
                SEAL_LAYOUT.with(|c| c.set(false));
            } else {
                let b = stream_base(seed, 3, len, Some(5), 1);
                let mut want = b.msg.clone();
                want.push(b.tag);
                for fault in &tf {
                    let Some(s) = apply_stream(fault, &b) else { continue };
                    let fclass = fault_class(fault, 1, b.wire.len());
                    for form in 0..2 {
                        let out = stream_open(form, &s);
                        let (oc, f) = judge(mode, prop, STREAM_FORMS[form], "stream", fclass, false, &out, &want, None);
                        st.eval(&("tagbits-stream", len, *fault, form), true, &oc);
                        if let Some((sig, what)) = f {
                            st.fail(Fail { check: "C02.fault".into(), signature: sig, what: format!("{} on stream message of {} bytes, fault {:?}: {}", STREAM_FORMS[form], len, fault, what), case: json!({"mode": modestr, "family": "stream", "form": STREAM_FORMS[form], "seed": seed, "ki": 3, "mlen": len, "adlen": 5, "tag": 1, "fault": fault}) });
                        }
                    }
                }
            }
        });
        ctx.note("tag_multi_bit_faults", json!({"pairs_of_tag_bits": 8128, "patterns": 8, "base_lengths": [0, 1, 17]}));
        ctx.absorb("tag-multi-bit", st);
    }
    // boxes "from" a low-order sender key: the shared secret is all-zero, so anybody can make a
    // box that authenticates under it. Whether such a box is accepted is not this property's
    // business; but if an open form refuses it, the caller's buffer must be as it was or zero.
    if mode == Mode::Leak {
        let mut st = Stats::new();
        let k0 = sodium::hsalsa20(&[0u8; 16], &[0u8; 32], None);
        for (pi, lo) in crate::c05::low_order_table().iter().enumerate() {
            for len in [0usize, 1, 17, 64] {
                let mut ks = Keys::make(seed, 3, 1);
                ks.pk_a = *lo;
                let m = cval(seed, 2, len);
                let wire = sodium::secretbox_easy(&m, &ks.n, &k0);
                for o in open_all().iter().filter(|o| o.1 == Fam::Bx && weight(o.0) == 0 && !uses_pre(o.0)) {
                    let out = (o.2)(&ks, &wire, SENTINEL);
                    let _ = take_last_err();
                    let (oc, f) = judge(mode, prop, o.0, "box", "low-order-sender", false, &out, &m, None);
                    st.eval(&("low-order-sender", pi, len, o.0), out.v != Verdict::NA, &oc);
                    if let Some((sig, what)) = f {
                        st.fail(Fail { check: format!("{}.harness", prop), signature: format!("{}/low-order-sender", sig), what: format!("{} on a {}-byte box made under the all-zero shared secret of the low-order sender key {}: {}", o.0, len, hx(lo), what), case: json!({"mode": modestr, "family": "note", "note": "deterministic: re-run bin/check C17"}) });
                    }
                }
            }
        }
        ctx.absorb("low-order-sender-boxes", st);
    }
    // authentication tags handed over in run-time-sized containers of the wrong length (object
    // API with Vec tags): every proper prefix of the genuine tag
    if mode == Mode::Tamper {
        use dryoc::dryocbox::DryocBox;
        use dryoc::dryocsecretbox::DryocSecretBox;
        let mut st = Stats::new();
        for len in [0usize, 1, 16, 17, 100] {
            let ks = Keys::make(seed, 3, 1);
            let m = cval(seed, 2, len);
            for fam in [Fam::Sb, Fam::Bx] {
                let wire = ref_wire(fam, &ks, &m);
                // (containers longer than the tag are outside the statement: dryoc's ByteArray<N> for
                // Vec means "at least N bytes, the first N are used")
                let tags: Vec<Vec<u8>> = (0..16).map(|n| wire[..n].to_vec()).collect();
                for t in tags {
                    let (tl, body, k2) = (t.len(), wire[16..].to_vec(), ks.clone());
                    let r = guarded(AssertUnwindSafe(move || match fam {
                        Fam::Sb => {
                            let b: DryocSecretBox<Vec<u8>, Vec<u8>> = DryocSecretBox::from_parts(t, body);
                            b.decrypt::<Vec<u8>, _, _>(&k2.n, &k2.k).is_ok()
                        }
                        _ => {
                            let b: DryocBox<Vec<u8>, Vec<u8>, Vec<u8>> = DryocBox::from_parts(t, body, None);
                            b.decrypt::<_, _, _, Vec<u8>>(&k2.n.to_vec(), &k2.pk_a.to_vec(), &k2.sk_b.to_vec()).is_ok()
                        }
                    }));
                    let accepted = r == Ok(true);
                    st.eval(&("wrong-length-tag", fam_name(fam), len, tl), true, if accepted { "tamper-accepted" } else { "tamper-rejected" });
                    if accepted {
                        st.fail(Fail { check: format!("{}.harness", prop), signature: format!("C02/{}/object-from_parts/accepted/wrong-length-tag", fam_name(fam)), what: format!("{} object built from a {}-byte tag container (message {} bytes) decrypted successfully", fam_name(fam), tl, len), case: json!({"mode": modestr, "family": "note", "note": "deterministic: re-run bin/check C02"}) });
                    }
                }
            }
        }
        ctx.absorb("wrong-length-tags", st);
    }
    // caller-chosen buffer sizes (classic copying forms and the classic stream pull)
    let bs_max = ctx.tier.pick(48usize, 130);
    let mut units: Vec<(usize, usize)> = vec![];
    for f in 0..4 {
        for l in (0..=bs_max).chain([1024usize]) {
            units.push((f, l));
        }
    }
    let st = par_units(&units, |&(fi, len), st| {
        let m = cval(seed, 2, len);
        let outlens = |wl: usize| -> Vec<usize> {
            let mut v = vec![len, len + 1, len + 15, len + 16, len + 17, len + 64, wl, wl + 64];
            if len > 0 {
                v.push(len - 1);
            }
            v.sort();
            v.dedup();
            v
        };
        if fi < 3 {
            let fam = fams[fi];
            let ks = Keys::make(seed, 3, 1);
            let wire = ref_wire(fam, &ks, &m);
            let forms: Vec<_> = open_all().iter().filter(|o| o.1 == fam && is_copying(o.0) && weight(o.0) == 0).collect();
            let mut faults = vec![Fault::None];
            faults.extend(extensions().into_iter().map(|(n, s)| Fault::Extend(n, s)));
            faults.extend((0..wire.len()).map(Fault::Trunc));
            if len <= 64 {
                faults.extend((0..wire.len()).flat_map(|b| [Fault::WireBit(b * 8), Fault::WireBit(b * 8 + 7)]));
            } else {
                faults.extend([0, 15, 16, wire.len() - 1].into_iter().map(|b| Fault::WireBit(b * 8)));
            }
            if fam != Fam::Seal {
                faults.extend([Fault::NonceBit(0), Fault::NonceBit(191)]);
            }
            for fault in faults {
                let (k2, w2) = apply_aead(&fault, &ks, &wire);
                let fclass = fault_class(&fault, overhead(fam), wire.len());
                for o in &forms {
                    for n in outlens(wire.len()) {
                        let out = with_out_len(Some(n), || (o.2)(&k2, &w2, SENTINEL));
                        let (oc, f) = judge_bs(mode, prop, o.0, fam_name(fam), fclass, fault == Fault::None, &out, &m);
                        st.eval(&("bufsize", fi, len, fault, o.0, n), out.v != Verdict::NA, &oc);
                        if let Some((sig, what)) = f {
                            st.fail(Fail { check: "C02.fault".into(), signature: sig, what: format!("{} on {} message of {} bytes into a caller buffer of {} bytes, fault {:?}: {}", o.0, fam_name(fam), len, n, fault, what), case: json!({"mode": modestr, "family": fam_name(fam), "form": o.0, "keys": ks.json(), "msg": hx(&m), "fault": fault, "outlen": n}) });
                        }
                    }
                }
            }
        } else {
            for (ai, adl) in [None, Some(5usize)].iter().enumerate() {
                let tagv: u8 = [0u8, 3][ai];
                let b = stream_base(seed, 3, len, *adl, tagv);
                let mut want = b.msg.clone();
                want.push(b.tag);
                let mut faults = vec![Fault::None, Fault::HeaderBit(0), Fault::KeyBit(3), Fault::AdToggle];
                faults.extend(extensions().into_iter().map(|(n, s)| Fault::Extend(n, s)));
                faults.extend((0..b.wire.len()).map(Fault::Trunc));
                if len <= 64 {
                    faults.extend((0..b.wire.len()).flat_map(|x| [Fault::WireBit(x * 8), Fault::WireBit(x * 8 + 7)]));
                } else {
                    faults.extend([0, 1, b.wire.len() - 16, b.wire.len() - 1].into_iter().map(|x| Fault::WireBit(x * 8)));
                }
                for fault in faults {
                    let Some(s) = apply_stream(&fault, &b) else { continue };
                    let fclass = fault_class(&fault, 1, b.wire.len());
                    for n in outlens(b.wire.len()) {
                        let out = with_out_len(Some(n), || stream_open(0, &s));
                        let (oc, f) = judge_bs(mode, prop, STREAM_FORMS[0], "stream", fclass, fault == Fault::None, &out, &want);
                        st.eval(&("bufsize-stream", len, ai, fault, n), true, &oc);
                        if let Some((sig, what)) = f {
                            st.fail(Fail { check: "C02.fault".into(), signature: sig, what: format!("{} on stream message of {} bytes (ad {:?}) into a caller buffer of {} bytes, fault {:?}: {}", STREAM_FORMS[0], len, adl, n, fault, what), case: json!({"mode": modestr, "family": "stream", "form": STREAM_FORMS[0], "seed": seed, "ki": 3, "mlen": len, "adlen": adl, "tag": tagv, "fault": fault, "outlen": n}) });
                        }
                    }
                }
            }
        }
        if len == 5 && fi == 0 {
            st.sample(json!({"section": "buffer-sizes", "family": "secretbox", "msg_len": 5, "buffer_lengths": outlens(5 + 16), "forms": open_all().iter().filter(|o| o.1 == Fam::Sb && is_copying(o.0) && weight(o.0) == 0).map(|o| o.0).collect::<Vec<_>>()}));
        }
    });
    ctx.note("buffer_size_section", json!({"message_lengths": format!("0..={} and 1024", bs_max), "buffer_lengths": "L-1, L, L+1, L+15, L+16, L+17, L+64, wire length, wire length+64 (L = genuine message length)", "faults": "control, every extension, every truncation, both edge bits of every wire byte (<=64) / component edges, nonce/header/key/AD faults"}));
    ctx.absorb("buffer-sizes", st);
    if mode == Mode::Tamper {
        ctx.require_outcome("control-accepted");
        ctx.require_outcome("tamper-rejected");
    } else {
        ctx.require_outcome("err-");
    }
    ctx.finish()
}
