//! C04 — opening / verifying / parsing functions are total on untrusted bytes (E-prod + O-total):
//! every length x content class, every tag byte, a grammar product of password-hash strings;
//! each call under catch_unwind, in a child process (abort / signal / OOM are caught), with a
//! counting allocator bounding the largest single request.

use crate::aead::{self, open_all, Keys, Verdict, SENTINEL};
use crate::core::*;
use crate::sodium;
use base64::Engine;
use dryoc::auth::Auth;
use dryoc::classic::crypto_auth::*;
use dryoc::classic::crypto_onetimeauth::*;
use dryoc::classic::crypto_pwhash::*;
use dryoc::classic::crypto_secretstream_xchacha20poly1305 as ss;
use dryoc::classic::crypto_sign::*;
use dryoc::dryocstream::{DryocStream, Pull};
use dryoc::onetimeauth::OnetimeAuth;
use dryoc::pwhash::PwHash;
use dryoc::sign::{IncrementalSigner, SignedMessage};
use dryoc::types::*;
use serde_json::{json, Value};
use std::alloc::{GlobalAlloc, Layout, System};
use std::cell::Cell;
use std::panic::AssertUnwindSafe;

// ---- counting allocator (registered in main.rs) -----------------------------------------
pub struct CountingAlloc;
thread_local! {
    static MAX_REQ: Cell<usize> = const { Cell::new(0) };
}
unsafe impl GlobalAlloc for CountingAlloc {
    unsafe fn alloc(&self, l: Layout) -> *mut u8 {
        let _ = MAX_REQ.try_with(|m| {
            if l.size() > m.get() {
                m.set(l.size())
            }
        });
        System.alloc(l)
    }
    unsafe fn dealloc(&self, p: *mut u8, l: Layout) {
        // C15's second observation point: while a watch is armed (only around a container
        // operation of the protected-memory explorer), a block handed back to the GENERAL
        // allocator must not hold a copy of the watched secret
        let wl = WATCH_LEN.load(std::sync::atomic::Ordering::SeqCst);
        if wl >= 8 && l.size() >= wl {
            let w = std::slice::from_raw_parts(WATCH_PTR.load(std::sync::atomic::Ordering::SeqCst) as *const u8, wl);
            let b = std::slice::from_raw_parts(p as *const u8, l.size());
            if b.windows(wl).any(|x| x == w) {
                WATCH_HITS.fetch_add(1, std::sync::atomic::Ordering::SeqCst);
                WATCH_HIT_SIZE.store(l.size(), std::sync::atomic::Ordering::SeqCst);
            }
        }
        System.dealloc(p, l)
    }
    unsafe fn realloc(&self, p: *mut u8, l: Layout, n: usize) -> *mut u8 {
        let _ = MAX_REQ.try_with(|m| {
            if n > m.get() {
                m.set(n)
            }
        });
        System.realloc(p, l, n)
    }
    unsafe fn alloc_zeroed(&self, l: Layout) -> *mut u8 {
        let _ = MAX_REQ.try_with(|m| {
            if l.size() > m.get() {
                m.set(l.size())
            }
        });
        System.alloc_zeroed(l)
    }
}
pub static WATCH_PTR: std::sync::atomic::AtomicPtr<u8> = std::sync::atomic::AtomicPtr::new(std::ptr::null_mut());
pub static WATCH_LEN: std::sync::atomic::AtomicUsize = std::sync::atomic::AtomicUsize::new(0);
pub static WATCH_HITS: std::sync::atomic::AtomicUsize = std::sync::atomic::AtomicUsize::new(0);
pub static WATCH_HIT_SIZE: std::sync::atomic::AtomicUsize = std::sync::atomic::AtomicUsize::new(0);
/// arm the watch on the first `min(len, 16)` bytes of `secret` (which must stay alive and
/// unmoved until `watch_disarm`); returns false when the secret is too short to be told from noise
pub fn watch_arm(secret: &[u8]) -> bool {
    // the watched window: the first run of min(len, 16) >= 8 bytes with at least 6 distinct
    // values (zeros, fill bytes and other low-entropy runs occur in innocent blocks too)
    let w = secret.len().min(16);
    if w < 8 {
        return false;
    }
    let Some(off) = (0..=secret.len() - w).find(|&o| {
        let mut seen = [false; 256];
        secret[o..o + w].iter().filter(|b| !std::mem::replace(&mut seen[**b as usize], true)).count() >= 6
    }) else {
        return false;
    };
    WATCH_HITS.store(0, std::sync::atomic::Ordering::SeqCst);
    WATCH_PTR.store(secret[off..].as_ptr() as *mut u8, std::sync::atomic::Ordering::SeqCst);
    WATCH_LEN.store(w, std::sync::atomic::Ordering::SeqCst);
    true
}
/// disarm; returns (number of released blocks that held the secret, size of the last one)
pub fn watch_disarm() -> (usize, usize) {
    WATCH_LEN.store(0, std::sync::atomic::Ordering::SeqCst);
    (WATCH_HITS.swap(0, std::sync::atomic::Ordering::SeqCst), WATCH_HIT_SIZE.load(std::sync::atomic::Ordering::SeqCst))
}
fn reset_max() {
    MAX_REQ.with(|m| m.set(0));
}
fn get_max() -> usize {
    MAX_REQ.with(|m| m.get())
}

type SB<const N: usize> = StackByteArray<N>;

struct Fixture {
    ks: Keys,
    stream_key: [u8; 32],
    stream_header: [u8; 24],
    sign_pk: [u8; 32],
    sign_sk: [u8; 64],
    mac_key: [u8; 32],
    pw: Vec<u8>,
    valid_pwstr: String,
}

fn fixture(seed: u64) -> Fixture {
    let (sign_pk, sign_sk) = sodium::sign_seed_keypair(&karr(seed ^ 0x4, 3));
    let pw = b"hunter2".to_vec();
    let valid_pwstr = sodium::pwhash_str(&pw, 1, 8192).unwrap();
    Fixture { ks: Keys::make(seed, 3, 2), stream_key: karr(seed ^ 0x41, 2), stream_header: karr(seed ^ 0x42, 3), sign_pk, sign_sk, mac_key: karr(seed ^ 0x43, 3), pw, valid_pwstr }
}

/// a byte-string target: (name, overhead, authentic sample of total length >= n, call)
struct Target {
    name: String,
    overhead: usize,
    sample: Box<dyn Fn(&Fixture, usize) -> Vec<u8> + Sync>,
    call: Box<dyn Fn(&Fixture, &[u8]) -> Result<bool, String> + Sync>, // Ok(accepted?) or Err(panic)
}

fn targets() -> Vec<Target> {
    let mut v: Vec<Target> = vec![];
    for o in open_all().iter() {
        let fam = o.1;
        let f = o.2;
        v.push(Target {
            name: o.0.to_string(),
            overhead: aead::overhead(fam),
            sample: Box::new(move |fx, n| aead::ref_wire(fam, &fx.ks, &vec![0x61u8; n.saturating_sub(aead::overhead(fam))])),
            call: Box::new(move |fx, w| match f(&fx.ks, w, SENTINEL).v {
                Verdict::Panic(p) => Err(p),
                Verdict::Ok(_) => Ok(true),
                _ => Ok(false),
            }),
        });
    }
    // a box WITHOUT an ephemeral key (parsed as an ordinary box, or assembled from parts) handed
    // to the sealed-box opening methods: an error, for every payload length
    v.push(Target {
        name: "DryocBox::from_bytes->unseal_to_vec (no ephemeral key)".into(),
        overhead: 16,
        sample: Box::new(|fx, n| aead::ref_wire(aead::Fam::Bx, &fx.ks, &vec![0x61u8; n.saturating_sub(16)])),
        call: Box::new(|fx, w| {
            guarded(AssertUnwindSafe(|| {
                let Ok(b) = dryoc::dryocbox::VecBox::from_bytes(w) else { return false };
                let kp: dryoc::keypair::KeyPair<SB<32>, SB<32>> = dryoc::keypair::KeyPair::from_slices(&fx.ks.pk_b, &fx.ks.sk_b).unwrap();
                b.unseal_to_vec(&kp).is_ok()
            }))
        }),
    });
    v.push(Target {
        name: "DryocBox::from_parts(no ephemeral key)->unseal".into(),
        overhead: 16,
        sample: Box::new(|fx, n| aead::ref_wire(aead::Fam::Bx, &fx.ks, &vec![0x61u8; n.saturating_sub(16)])),
        call: Box::new(|fx, w| {
            guarded(AssertUnwindSafe(|| {
                if w.len() < 16 {
                    return false;
                }
                let tag: [u8; 16] = w[..16].try_into().unwrap();
                let b: dryoc::dryocbox::DryocBox<SB<32>, SB<16>, Vec<u8>> = dryoc::dryocbox::DryocBox::from_parts(SB::<16>::from(&tag), w[16..].to_vec(), None);
                let kp: dryoc::keypair::KeyPair<SB<32>, SB<32>> = dryoc::keypair::KeyPair::from_slices(&fx.ks.pk_b, &fx.ks.sk_b).unwrap();
                b.unseal::<_, _, Vec<u8>>(&kp).is_ok()
            }))
        }),
    });
    let stream_sample = |fx: &Fixture, n: usize| {
        let mut st = sodium::ss_init_pull(&fx.stream_header, &fx.stream_key);
        sodium::ss_push(&mut st, &vec![0x62u8; n.saturating_sub(17)], None, 0)
    };
    v.push(Target {
        name: "secretstream_pull".into(),
        overhead: 17,
        sample: Box::new(stream_sample),
        call: Box::new(|fx, w| {
            guarded(AssertUnwindSafe(|| {
                let mut st = ss::State::new();
                ss::crypto_secretstream_xchacha20poly1305_init_pull(&mut st, &fx.stream_header, &fx.stream_key);
                let mut m = vec![0xC3u8; w.len().saturating_sub(17)];
                let mut tag = 0u8;
                ss::crypto_secretstream_xchacha20poly1305_pull(&mut st, &mut m, &mut tag, w, None).is_ok()
            }))
        }),
    });
    v.push(Target {
        name: "secretstream_pull(with AD)".into(),
        overhead: 17,
        sample: Box::new(stream_sample),
        call: Box::new(|fx, w| {
            guarded(AssertUnwindSafe(|| {
                let mut st = ss::State::new();
                ss::crypto_secretstream_xchacha20poly1305_init_pull(&mut st, &fx.stream_header, &fx.stream_key);
                let mut m = vec![0xC3u8; w.len().saturating_sub(17)];
                let mut tag = 0u8;
                ss::crypto_secretstream_xchacha20poly1305_pull(&mut st, &mut m, &mut tag, w, Some(b"ad")).is_ok()
            }))
        }),
    });
    v.push(Target {
        name: "DryocStream::pull".into(),
        overhead: 17,
        sample: Box::new(stream_sample),
        call: Box::new(|fx, w| {
            guarded(AssertUnwindSafe(|| {
                let mut ds: DryocStream<Pull> = DryocStream::init_pull(&fx.stream_key, &fx.stream_header);
                let r: Result<(Vec<u8>, _), _> = ds.pull(&w.to_vec(), None);
                r.is_ok()
            }))
        }),
    });
    v.push(Target {
        name: "DryocStream::pull_to_vec(with AD)".into(),
        overhead: 17,
        sample: Box::new(stream_sample),
        call: Box::new(|fx, w| {
            guarded(AssertUnwindSafe(|| {
                let mut ds: DryocStream<Pull> = DryocStream::init_pull(&fx.stream_key, &fx.stream_header);
                ds.pull_to_vec(&w.to_vec(), Some(&b"ad".to_vec())).is_ok()
            }))
        }),
    });
    let sign_sample = |fx: &Fixture, n: usize| sodium::sign_combined(&vec![0x63u8; n.saturating_sub(64)], &fx.sign_sk);
    v.push(Target {
        name: "crypto_sign_open".into(),
        overhead: 64,
        sample: Box::new(sign_sample),
        call: Box::new(|fx, w| {
            guarded(AssertUnwindSafe(|| {
                let mut m = vec![0xC3u8; w.len().saturating_sub(64)];
                crypto_sign_open(&mut m, w, &fx.sign_pk).is_ok()
            }))
        }),
    });
    v.push(Target {
        name: "crypto_sign_verify_detached".into(),
        overhead: 64,
        sample: Box::new(sign_sample),
        call: Box::new(|fx, w| {
            if w.len() < 64 {
                return Ok(false);
            }
            guarded(AssertUnwindSafe(|| crypto_sign_verify_detached(w[..64].try_into().unwrap(), &w[64..], &fx.sign_pk).is_ok()))
        }),
    });
    v.push(Target {
        name: "crypto_sign_final_verify".into(),
        overhead: 64,
        sample: Box::new(sign_sample),
        call: Box::new(|fx, w| {
            if w.len() < 64 {
                return Ok(false);
            }
            guarded(AssertUnwindSafe(|| {
                let mut st = crypto_sign_init();
                crypto_sign_update(&mut st, &w[64..]);
                let a = crypto_sign_final_verify(st, w[..64].try_into().unwrap(), &fx.sign_pk).is_ok();
                let mut inc = IncrementalSigner::new();
                inc.update(&w[64..].to_vec());
                let b = inc.verify(&SB::<64>::try_from(&w[..64]).unwrap(), &SB::<32>::from(&fx.sign_pk)).is_ok();
                a || b
            }))
        }),
    });
    v.push(Target {
        name: "SignedMessage::from_bytes->verify".into(),
        overhead: 64,
        sample: Box::new(sign_sample),
        call: Box::new(|fx, w| {
            guarded(AssertUnwindSafe(|| match SignedMessage::<SB<64>, Vec<u8>>::from_bytes(w) {
                Ok(s) => s.verify(&SB::<32>::from(&fx.sign_pk)).is_ok(),
                Err(_) => false,
            }))
        }),
    });
    v.push(Target {
        name: "SignedMessage<Vec, Vec>::from_bytes->verify".into(),
        overhead: 64,
        sample: Box::new(sign_sample),
        call: Box::new(|fx, w| {
            guarded(AssertUnwindSafe(|| match SignedMessage::<Vec<u8>, Vec<u8>>::from_bytes(w) {
                Ok(s) => {
                    let _ = s.to_vec();
                    s.verify(&fx.sign_pk.to_vec()).is_ok()
                }
                Err(_) => false,
            }))
        }),
    });
    // a public key supplied by the attacker as well (first 32 bytes)
    v.push(Target {
        name: "crypto_sign_verify_detached(attacker pk)".into(),
        overhead: 96,
        sample: Box::new(|fx, n| {
            let mut w = fx.sign_pk.to_vec();
            w.extend(sodium::sign_combined(&vec![0x63u8; n.saturating_sub(96)], &fx.sign_sk));
            w
        }),
        call: Box::new(|_fx, w| {
            if w.len() < 96 {
                return Ok(false);
            }
            guarded(AssertUnwindSafe(|| crypto_sign_verify_detached(w[32..96].try_into().unwrap(), &w[96..], w[..32].try_into().unwrap()).is_ok()))
        }),
    });
    let auth_sample = |fx: &Fixture, n: usize| {
        let m = vec![0x64u8; n.saturating_sub(32)];
        let mut w = sodium::auth(&m, &fx.mac_key).to_vec();
        w.extend(m);
        w
    };
    v.push(Target {
        name: "crypto_auth_verify".into(),
        overhead: 32,
        sample: Box::new(auth_sample),
        call: Box::new(|fx, w| {
            if w.len() < 32 {
                return Ok(false);
            }
            guarded(AssertUnwindSafe(|| {
                let a = crypto_auth_verify(w[..32].try_into().unwrap(), &w[32..], &fx.mac_key).is_ok();
                let mut au = Auth::new(fx.mac_key);
                au.update(&w[32..].to_vec());
                let b = au.verify(&SB::<32>::try_from(&w[..32]).unwrap()).is_ok();
                let c = Auth::compute_and_verify(&w[..32].to_vec(), fx.mac_key, &w[32..].to_vec()).is_ok();
                a || b || c
            }))
        }),
    });
    let ota_sample = |fx: &Fixture, n: usize| {
        let m = vec![0x65u8; n.saturating_sub(16)];
        let mut w = sodium::onetimeauth(&m, &fx.mac_key).to_vec();
        w.extend(m);
        w
    };
    v.push(Target {
        name: "crypto_onetimeauth_verify".into(),
        overhead: 16,
        sample: Box::new(ota_sample),
        call: Box::new(|fx, w| {
            if w.len() < 16 {
                return Ok(false);
            }
            guarded(AssertUnwindSafe(|| {
                let a = crypto_onetimeauth_verify(w[..16].try_into().unwrap(), &w[16..], &fx.mac_key).is_ok();
                let mut au = OnetimeAuth::new(fx.mac_key);
                au.update(&w[16..].to_vec());
                let b = au.verify(&SB::<16>::try_from(&w[..16]).unwrap()).is_ok();
                let c = OnetimeAuth::compute_and_verify(&w[..16].to_vec(), fx.mac_key, &w[16..].to_vec()).is_ok();
                a || b || c
            }))
        }),
    });
    v.push(Target {
        name: "pwhash_str(bytes as lossy utf-8)".into(),
        overhead: 0,
        sample: Box::new(|fx, n| {
            let mut b = fx.valid_pwstr.as_bytes().to_vec();
            b.resize(n.max(b.len()), b'A');
            b
        }),
        call: Box::new(|fx, w| {
            let s = String::from_utf8_lossy(w).to_string();
            pw_call(&s, &fx.pw)
        }),
    });
    v
}

/// every password-hash string consumer on one string
fn pw_call(s: &str, pw: &[u8]) -> Result<bool, String> {
    guarded(AssertUnwindSafe(|| {
        let a = crypto_pwhash_str_verify(s, pw).is_ok();
        let _ = crypto_pwhash_str_needs_rehash(s, 1, 8192);
        let b = match PwHash::<Vec<u8>, Vec<u8>>::from_string(s) {
            Ok(p) => {
                let _ = p.to_string();
                p.verify(&pw.to_vec()).is_ok()
            }
            Err(_) => false,
        };
        let _ = PwHash::from_string_with_defaults(s).is_ok();
        a || b
    }))
}

fn class_bytes(t: &Target, fx: &Fixture, seed: u64, class: usize, n: usize) -> Vec<u8> {
    match class {
        0 => vec![0u8; n],
        1 => vec![0xffu8; n],
        2 => prand(seed, &t.name, n as u64, n),
        3 => {
            let mut s = (t.sample)(fx, n);
            s.truncate(n);
            s
        }
        _ => {
            let mut s = (t.sample)(fx, n);
            s.truncate(n);
            if !s.is_empty() {
                let i = (n * 7 + 3) % s.len();
                s[i] ^= 0x20;
            }
            s
        }
    }
}
const CLASS_NAMES: [&str; 5] = ["zeros", "ff", "random", "valid-prefix", "valid-one-byte-mutated"];

fn grammar_strings(fx: &Fixture) -> Vec<String> {
    let e = base64::engine::general_purpose::STANDARD_NO_PAD;
    let algs = ["argon2id", "argon2i", "argon2", "argon2d", "", "x"];
    let vs = ["19", "16", "", "x", "4294967296"];
    let ms = ["8", "0", "7", "64", "", "-1", "8x", "4294967296"];
    let ts = ["1", "0", "3", "", "x", "4294967296"];
    let ps = ["1", "0", "2", ""];
    let salts = [e.encode([1u8; 8]), e.encode([2u8; 16]), e.encode([3u8; 64]), e.encode([4u8; 7]), String::new(), "!!!".to_string(), format!("{}=", e.encode([2u8; 16]))];
    let hashes = [e.encode([5u8; 16]), e.encode([6u8; 32]), e.encode([7u8; 128]), e.encode([8u8; 15]), String::new(), "!!!".to_string()];
    let mut v = vec![];
    for a in algs {
        for ver in vs {
            for m in ms {
                for t in ts {
                    for p in ps {
                        for s in &salts {
                            for h in &hashes {
                                v.push(format!("${}$v={}$m={},t={},p={}${}${}", a, ver, m, t, p, s, h));
                            }
                        }
                    }
                }
            }
        }
    }
    // every salt length and every hash length 0..=72 (both algorithms), all other fields valid
    for a in ["argon2id", "argon2i"] {
        for n in 0..=72usize {
            v.push(format!("${}$v=19$m=8,t=1,p=1${}${}", a, e.encode(vec![0x5au8; n]), e.encode([6u8; 32])));
            v.push(format!("${}$v=19$m=8,t=1,p=1${}${}", a, e.encode([2u8; 16]), e.encode(vec![0xa5u8; n])));
        }
    }
    // stored hashes and salts longer than any fixed scratch buffer a verifier might use
    for a in ["argon2id", "argon2i"] {
        for n in [127usize, 128, 129, 130, 160, 200, 255, 256, 257, 300, 512, 1025] {
            v.push(format!("${}$v=19$m=8,t=1,p=1${}${}", a, e.encode([2u8; 16]), e.encode(vec![0xa5u8; n])));
            v.push(format!("${}$v=19$m=8,t=1,p=1${}${}", a, e.encode(vec![0x5au8; n]), e.encode([6u8; 32])));
        }
    }
    // every memory cost 8..=2100 KiB (all residues of the 4-lane-slice and 128-word address
    // block granularities), a stride above that, pass counts 1..=3
    for a in ["argon2id", "argon2i"] {
        for m in (8..=2100usize).chain((2101..=4200).step_by(37)) {
            let t = if m <= 2100 { 1 + (m % 3 == 0 && m < 600) as usize } else { 1 + m % 3 };
            v.push(format!("${}$v=19$m={},t={},p=1${}${}", a, m, t, e.encode([2u8; 16]), e.encode([6u8; 32])));
        }
    }
    // multi-byte UTF-8: each field replaced by <k ASCII bytes><2-, 3- or 4-byte character><tail>
    // for every k 0..=40, so that a character straddles every fixed byte offset a parser or an
    // error message might slice at; and a multi-byte character inserted at every position
    for ch in ['\u{e9}', '\u{20ac}', '\u{1f600}'] {
        for k in 0..=40usize {
            let pad: String = "argon2id-abcdefghijklmnopqrstuvwxyz0123456789"[..k.min(44)].to_string();
            let odd = format!("{}{}xyz", pad, ch);
            let sa = e.encode([2u8; 16]);
            let ha = e.encode([6u8; 32]);
            v.push(format!("${}$v=19$m=8,t=1,p=1${}${}", odd, sa, ha));
            v.push(format!("$argon2id$v={}$m=8,t=1,p=1${}${}", odd, sa, ha));
            v.push(format!("$argon2id$v=19$m={},t=1,p=1${}${}", odd, sa, ha));
            v.push(format!("$argon2id$v=19$m=8,t={},p=1${}${}", odd, sa, ha));
            v.push(format!("$argon2id$v=19$m=8,t=1,p={}${}${}", odd, sa, ha));
            v.push(format!("$argon2id$v=19$m=8,t=1,p=1${}${}", odd, ha));
            v.push(format!("$argon2id$v=19$m=8,t=1,p=1${}${}", sa, odd));
            v.push(format!("$argon2id$v=19${}=8,t=1,p=1${}${}", odd, sa, ha));
        }
    }
    // structural mutants of a valid string
    let valid = fx.valid_pwstr.clone();
    let fields: Vec<&str> = valid.split('$').collect();
    for i in 0..fields.len() {
        let mut f = fields.clone();
        f.remove(i);
        v.push(f.join("$"));
        let mut f = fields.clone();
        f.insert(i, fields[i]);
        v.push(f.join("$"));
        if i + 1 < fields.len() {
            let mut f = fields.clone();
            f.swap(i, i + 1);
            v.push(f.join("$"));
        }
    }
    let chars: Vec<char> = valid.chars().collect();
    for i in 0..chars.len() {
        let mut c = chars.clone();
        c.remove(i);
        v.push(c.into_iter().collect());
        v.push(chars[..i].iter().collect());
        let mut c = chars.clone();
        c.insert(i, '$');
        v.push(c.into_iter().collect());
        let mut c = chars.clone();
        c.insert(i, ',');
        v.push(c.into_iter().collect());
        for ch in ['\u{e9}', '\u{20ac}', '\u{1f600}'] {
            let mut c = chars.clone();
            c.insert(i, ch);
            v.push(c.into_iter().collect());
        }
        // every character duplicated, and replaced by each member of a small alphabet
        let mut c = chars.clone();
        c.insert(i, chars[i]);
        v.push(c.into_iter().collect());
        for r in ['$', ',', '=', 'm', 't', 'p', 'v', '0', '9', 'A', ';', ' ', '-', '+'] {
            if chars[i] != r {
                let mut c = chars.clone();
                c[i] = r;
                v.push(c.into_iter().collect());
            }
        }
    }
    v
}

fn alloc_limit(input_len: usize) -> usize {
    16 * 1024 * 1024 + 8 * input_len
}

/// worker: runs one shard, prints one JSON line; records the current case in `cur` first
pub fn worker(args: &[String]) -> i32 {
    sodium::init();
    quiet_panics();
    let shard: usize = args[0].parse().unwrap();
    let nshards: usize = args[1].parse().unwrap();
    let tier = if args[2] == "thorough" { Tier::Thorough } else { Tier::Quick };
    let seed: u64 = args[3].parse().unwrap();
    let curpath = &args[4];
    let fx = fixture(seed);
    let ts = targets();
    let mut st = Stats::new();
    let cur = std::fs::OpenOptions::new().create(true).write(true).truncate(true).open(curpath).unwrap();
    let note = |s: &str| {
        use std::os::unix::fs::FileExt;
        let mut b = s.as_bytes().to_vec();
        b.resize(400, b' ');
        let _ = cur.write_all_at(&b, 0);
    };
    let mut idx = 0usize;
    // byte-string targets
    for t in &ts {
        let n_max = 2 * t.overhead + tier.pick(160, 1024) + if t.overhead == 0 { 160 } else { 0 };
        for n in 0..=n_max {
            // thorough: additionally EVERY single byte of the authentic sample mutated 3 ways
            let extra: usize = if tier == Tier::Thorough && n <= 2 * t.overhead + 96 { 3 * n } else { 0 };
            for class in 0..(5 + extra) {
                idx += 1;
                if idx % nshards != shard {
                    continue;
                }
                let (input, cname): (Vec<u8>, String) = if class < 5 {
                    (class_bytes(t, &fx, seed, class, n), CLASS_NAMES[class].to_string())
                } else {
                    let k = class - 5;
                    let mut s = (t.sample)(&fx, n);
                    s.truncate(n);
                    let pos = k / 3;
                    match k % 3 {
                        0 => s[pos] ^= 0x01,
                        1 => s[pos] ^= 0x80,
                        _ => s[pos] = 0,
                    }
                    (s, format!("valid-byte{}-mutation{}", pos, k % 3))
                };
                note(&format!("{} len {} class {}", t.name, n, cname));
                reset_max();
                let r = (t.call)(&fx, &input);
                let big = get_max();
                let oc = match &r {
                    Err(_) => "panic",
                    Ok(true) => "returned-Ok",
                    Ok(false) => "returned-Err",
                };
                st.eval(&(&t.name, n, class), true, oc);
                if let Err(p) = &r {
                    st.fail(Fail { check: "C04.total".into(), signature: format!("C04/{}/panic/{}", t.name, if n < t.overhead { "shorter-than-overhead" } else { "at-least-overhead" }), what: format!("{} panicked on a {}-byte {} input: {}", t.name, n, cname, p), case: json!({"target": t.name, "input": hx(&input)}) });
                }
                if big > alloc_limit(n) {
                    st.fail(Fail { check: "C04.total".into(), signature: format!("C04/{}/absurd-allocation", t.name), what: format!("{} requested a single allocation of {} bytes for a {}-byte input", t.name, big, n), case: json!({"target": t.name, "input": hx(&input)}) });
                }
                st.max("max_single_allocation_bytes", big as u64);
            }
        }
    }
    // authentic stream messages with every tag byte
    for tag in 0..=255u8 {
        for mlen in [0usize, 1, 17] {
            idx += 1;
            if idx % nshards != shard {
                continue;
            }
            let mut s = sodium::ss_init_pull(&fx.stream_header, &fx.stream_key);
            let w = sodium::ss_push(&mut s, &vec![0x6du8; mlen], None, tag);
            // the same message authenticated together with the associated data the "(with AD)"
            // targets present
            let mut s2 = sodium::ss_init_pull(&fx.stream_header, &fx.stream_key);
            let w_ad = sodium::ss_push(&mut s2, &vec![0x6du8; mlen], Some(b"ad"), tag);
            for t in ts.iter().filter(|t| t.name.starts_with("secretstream_pull") || t.name.starts_with("DryocStream")) {
                note(&format!("{} authentic tag byte {:#x} mlen {}", t.name, tag, mlen));
                let w = if t.name.contains("AD") { &w_ad } else { &w };
                let r = (t.call)(&fx, w);
                let oc = match &r {
                    Err(_) => "panic",
                    Ok(true) => "authentic-any-tag-Ok",
                    Ok(false) => "authentic-any-tag-Err",
                };
                st.eval(&(&t.name, "tag", tag, mlen), true, oc);
                if oc != "authentic-any-tag-Ok" {
                    st.fail(Fail { check: "C04.total".into(), signature: format!("C04/{}/{}/authentic-unknown-tag", t.name, if r.is_err() { "panic" } else { "rejected" }), what: format!("{} on an authentic message with tag byte {:#x}: {:?}", t.name, tag, r), case: json!({"target": t.name, "input": hx(w)}) });
                }
            }
        }
    }
    // password-hash string grammar
    let gs = grammar_strings(&fx);
    for (gi, s) in gs.iter().enumerate() {
        idx += 1;
        if idx % nshards != shard {
            continue;
        }
        note(&format!("pwhash string #{} {}", gi, s));
        reset_max();
        let r = pw_call(s, &fx.pw);
        let big = get_max();
        let oc = match &r {
            Err(_) => "panic",
            Ok(true) => "string-accepted",
            Ok(false) => "string-rejected",
        };
        st.eval(&("pwstr", gi), true, oc);
        if let Err(p) = &r {
            st.fail(Fail { check: "C04.total".into(), signature: "C04/pwhash_str/panic".into(), what: format!("password-hash string consumers panicked on '{}': {}", s, p), case: json!({"target": "pwhash", "string": s}) });
        }
        if big > alloc_limit(s.len()) + 64 * 1024 * 1024 {
            st.fail(Fail { check: "C04.total".into(), signature: "C04/pwhash_str/absurd-allocation".into(), what: format!("'{}' caused a single allocation of {} bytes", s, big), case: json!({"target": "pwhash", "string": s}) });
        }
        st.max("max_single_allocation_bytes", big as u64);
    }
    // cost fields at the edges of their integer types: parsed, re-encoded and asked for
    // needs_rehash only (the statement bounds the cost parameters of anything that hashes)
    {
        let e = base64::engine::general_purpose::STANDARD_NO_PAD;
        let mut gi = 0usize;
        for a in ["argon2id", "argon2i"] {
            for m in [65536u64, 4194303, 4194304, 4194305, 1 << 31, (1 << 32) - 1, 1 << 32, (1 << 32) + 8] {
                for t in [1u64, 3, (1 << 31) + 1, (1 << 32) - 1, 1 << 32] {
                    gi += 1;
                    idx += 1;
                    if idx % nshards != shard {
                        continue;
                    }
                    let s = format!("${}$v=19$m={},t={},p=1${}${}", a, m, t, e.encode([2u8; 16]), e.encode([6u8; 32]));
                    note(&format!("pwhash cost-edge string {}", s));
                    let r = guarded(AssertUnwindSafe(|| {
                        let _ = crypto_pwhash_str_needs_rehash(&s, 3, 1 << 26);
                        let _ = crypto_pwhash_str_needs_rehash(&s, t, (m as usize).wrapping_mul(1024));
                        let p = PwHash::<Vec<u8>, Vec<u8>>::from_string(&s);
                        let ok = p.is_ok();
                        if let Ok(p) = p {
                            let _ = p.to_string();
                        }
                        let _ = PwHash::from_string_with_defaults(&s).map(|p| p.to_string());
                        ok
                    }));
                    st.eval(&("pwstr-cost-edge", gi), true, match &r {
                        Err(_) => "panic",
                        Ok(true) => "string-parsed",
                        Ok(false) => "string-rejected",
                    });
                    if let Err(p) = &r {
                        st.fail(Fail { check: "C04.total".into(), signature: "C04/pwhash_str/panic/cost-edge".into(), what: format!("password-hash string parsers panicked on '{}': {}", s, p), case: json!({"target": "pwhash-parse", "string": s}) });
                    }
                }
            }
        }
    }
    note("done");
    st.flush();
    let fails: Vec<Value> = st.fails.iter().map(|f| json!({"signature": f.signature, "what": f.what, "case": f.case})).collect();
    println!("{}", json!({"evaluations": st.evaluations, "distinct": st.distinct, "outcomes": st.outcomes, "extra": st.extra, "fails": fails, "fail_sigs": st.fail_sigs, "grammar_strings": gs.len(), "targets": ts.len()}));
    0
}

fn call_target_by_name(name: &str, fx: &Fixture, input: &[u8]) -> Option<Result<bool, String>> {
    targets().into_iter().find(|t| t.name == name).map(|t| (t.call)(fx, input))
}

pub fn replay(case: &Value) -> Option<String> {
    let fx = fixture(0);
    if case["target"] == "pwhash" {
        return pw_call(case["string"].as_str()?, &fx.pw).err();
    }
    if case["target"] == "pwhash-parse" {
        let s = case["string"].as_str()?.to_string();
        return guarded(AssertUnwindSafe(|| {
            let _ = crypto_pwhash_str_needs_rehash(&s, 3, 1 << 26);
            if let Ok(p) = PwHash::<Vec<u8>, Vec<u8>>::from_string(&s) {
                let _ = p.to_string();
            }
            let _ = PwHash::from_string_with_defaults(&s).map(|p| p.to_string());
        }))
        .err();
    }
    if case["target"] == "worker-died" {
        return Some("re-run bin/check C04: the worker process died on this case".into());
    }
    let input = unhx(&case["input"]);
    match call_target_by_name(case["target"].as_str()?, &fx, &input)? {
        Err(p) => Some(format!("panic: {}", p)),
        Ok(_) => None,
    }
}

pub fn run() -> i32 {
    use rayon::prelude::*;
    let mut ctx = Ctx::new("C04", "exploration");
    let nshards = 16usize;
    let tier = ctx.tier;
    ctx.rule = "product: every byte-string consumer (21 AEAD open forms incl. from_bytes parsers, 4 stream pull forms, 5 signature verification/opening forms, MAC verification classic+object, password-hash string consumers) x every input length 0..=2*overhead+64 (+256 thorough) x 5 content classes (zeros, 0xff, seeded random, authentic message cut to the length, authentic with one byte mutated); authentic stream messages carrying every tag byte 0..=255 at 3 message lengths through all pull forms; password-hash string grammar product (6 algorithm tokens x 5 versions x 8 memory x 6 time x 4 parallelism x 7 salt x 6 hash fields), every salt length and every hash length 0..=72 for both algorithms, every memory cost m=8..=2100 KiB (stride 37 to 4200), cost fields at the edges of their integer types (m, t around 2^22, 2^31, 2^32: parse / re-encode / needs_rehash only), plus structural mutants (every field deleted/duplicated/swapped, every character deleted / duplicated / replaced by each of 14 alphabet characters, every prefix, '$', ',' and a 2-, 3- and 4-byte UTF-8 character inserted at every position; every field replaced by k ASCII bytes + a multi-byte character for every k 0..=40); oracle: each call returns (Ok or Err) — no unwind, no abort/signal (16 child processes), largest single allocation <= 16 MiB + 8 x input length; non-trivial = every executed call".into();
    ctx.assume("caller-owned output buffers are sized as the API documents for the given input length; cost parameters reaching verify are bounded (m <= 4200 KiB, t <= 3) as the property states");
    let exe = std::env::current_exe().unwrap();
    let seed = ctx.seed;
    let results: Vec<(usize, Result<Value, String>)> = (0..nshards)
        .into_par_iter()
        .map(|s| {
            let cur = format!("{}/logs/c04-shard-{}.cur", VERIF_ROOT, s);
            let out = std::process::Command::new(&exe).args(["c04worker", &s.to_string(), &nshards.to_string(), tier.name(), &seed.to_string(), &cur]).output();
            let r = match out {
                Err(e) => Err(format!("spawn failed: {}", e)),
                Ok(o) => {
                    if !o.status.success() {
                        let at = std::fs::read_to_string(&cur).unwrap_or_default();
                        Err(format!("worker {} died ({:?}) while executing: {}", s, o.status, at.trim()))
                    } else {
                        let t = String::from_utf8_lossy(&o.stdout).to_string();
                        t.lines().rev().find(|l| l.starts_with('{')).ok_or("no json".to_string()).and_then(|l| serde_json::from_str::<Value>(l).map_err(|e| e.to_string()))
                    }
                }
            };
            (s, r)
        })
        .collect();
    let mut st = Stats::new();
    for (s, r) in results {
        match r {
            Err(e) => {
                // a dead child is the subject aborting / overflowing the stack / being OOM-killed
                st.fail(Fail { check: "C04.total".into(), signature: format!("C04/worker-died/{}", e.split("while executing: ").nth(1).unwrap_or("").split(" len ").next().unwrap_or("")), what: e, case: json!({"target": "worker-died", "shard": s}) });
            }
            Ok(v) => {
                st.evaluations += v["evaluations"].as_u64().unwrap_or(0);
                st.distinct += v["distinct"].as_u64().unwrap_or(0);
                if let Some(o) = v["outcomes"].as_object() {
                    for (k, n) in o {
                        *st.outcomes.entry(k.clone()).or_insert(0) += n.as_u64().unwrap_or(0);
                    }
                }
                if let Some(o) = v["extra"].as_object() {
                    for (k, n) in o {
                        st.max(k, n.as_u64().unwrap_or(0));
                    }
                }
                ctx.note("grammar_strings", v["grammar_strings"].clone());
                ctx.note("byte_string_targets", v["targets"].clone());
                for f in v["fails"].as_array().cloned().unwrap_or_default() {
                    st.fail(Fail { check: "C04.total".into(), signature: f["signature"].as_str().unwrap_or("").to_string(), what: f["what"].as_str().unwrap_or("").to_string(), case: f["case"].clone() });
                }
            }
        }
    }
    st.sample(json!({"target": "secretbox_open_easy", "input_lengths": "0..=96", "classes": CLASS_NAMES}));
    st.sample(json!({"pwhash_grammar_example": "$argon2id$v=19$m=8x,t=4294967296,p=$!!!$"}));
    ctx.absorb("totality", st);
    ctx.require_outcome("returned-Ok");
    ctx.require_outcome("returned-Err");
    ctx.require_outcome("string-rejected");
    ctx.require_outcome("authentic-any-tag-Ok");
    ctx.finish()
}
