//! Protected-memory explorer (nightly build only): history-replay exploration of the real
//! allocator / mlock / mprotect code against the kernel's own view (C14), the release
//! observer (C15) and an in-process `mlock` fault injector (C19).
#![allow(dead_code)]

use crate::core::*;
use dryoc::protected::*;
use dryoc::protected::traits as tr;
use serde_json::{json, Value};
use std::cell::RefCell;
use std::collections::{BTreeMap, HashSet};
use std::panic::AssertUnwindSafe;
use std::rc::Rc;
use std::sync::atomic::{AtomicI64, AtomicU64, Ordering};
use zeroize::Zeroize;

pub const PAGE: usize = 4096;

// ---------------------------------------------------------------------------------------
// mlock interposer: the harness binary defines `mlock`, which the static link resolves
// ahead of libc's. Counts calls; refuses the k-th and all later calls when armed.

static MLOCK_CALLS: AtomicU64 = AtomicU64::new(0);
static MLOCK_FAIL_FROM: AtomicI64 = AtomicI64::new(0); // 0 = never fail
static MLOCK_REFUSED: AtomicU64 = AtomicU64::new(0);

#[no_mangle]
pub unsafe extern "C" fn mlock(addr: *const libc::c_void, len: libc::size_t) -> libc::c_int {
    let n = MLOCK_CALLS.fetch_add(1, Ordering::SeqCst) + 1;
    let k = MLOCK_FAIL_FROM.load(Ordering::SeqCst);
    if k > 0 && n as i64 >= k {
        let r = MLOCK_REFUSED.fetch_add(1, Ordering::SeqCst);
        // one of the errno values mlock(2) documents for a refusal, fixed for the whole execution
        // (chosen by the refusal point k, so every history sees each of them for some k)
        *libc::__errno_location() = [libc::EAGAIN, libc::ENOMEM, libc::EPERM][(k % 3) as usize];
        if r > 20_000 {
            // one execution asks a handful of times; this is a retry loop that never gives up
            let msg = b"mlock refused more than 20000 times within one execution: the caller retries forever instead of reporting the error\n";
            libc::write(2, msg.as_ptr() as *const libc::c_void, msg.len());
            libc::_exit(98);
        }
        return -1;
    }
    libc::syscall(libc::SYS_mlock, addr, len) as libc::c_int
}

// mprotect, interposed: passes through; when armed (C15's "mprotect reports failure" leg) the
// k-th and later requests for PROT_READ|PROT_WRITE are carried out but REPORTED as refused
// (EACCES) — a policy layer may fail the call although the pages are writable; what is released
// must be wiped all the same.
static MPROT_RW_CALLS: AtomicU64 = AtomicU64::new(0);
static MPROT_FAIL_FROM: AtomicI64 = AtomicI64::new(0);
pub static MPROT_LEG: std::sync::atomic::AtomicBool = std::sync::atomic::AtomicBool::new(false);

// second armed behaviour (C15's "one refused protection change" leg): the first mprotect request
// made inside the t-th protection-changing transition of the history is REFUSED WITHOUT BEING
// PERFORMED (ENOMEM: the kernel could not split the mapping); every other request, including
// the ones the subsequent drop makes to unprotect and wipe, is carried out. The refused
// transition must report Err and what it consumed must still be wiped and released cleanly.
static MPROT_ONCE_TARGET: AtomicI64 = AtomicI64::new(0);
static MPROT_OP_ORD: AtomicI64 = AtomicI64::new(0);
static MPROT_IN_OP: std::sync::atomic::AtomicBool = std::sync::atomic::AtomicBool::new(false);
static MPROT_OP_USED: std::sync::atomic::AtomicBool = std::sync::atomic::AtomicBool::new(false);
pub static MPROT_ONCE_LEG: std::sync::atomic::AtomicBool = std::sync::atomic::AtomicBool::new(false);

fn mprot_op_begin() {
    MPROT_OP_ORD.fetch_add(1, Ordering::SeqCst);
    MPROT_OP_USED.store(false, Ordering::SeqCst);
    MPROT_IN_OP.store(true, Ordering::SeqCst);
}

fn mprot_op_end() {
    MPROT_IN_OP.store(false, Ordering::SeqCst);
}

fn arm_mprotect_once(t: i64) {
    MPROT_OP_ORD.store(0, Ordering::SeqCst);
    MPROT_IN_OP.store(false, Ordering::SeqCst);
    MPROT_ONCE_TARGET.store(t, Ordering::SeqCst);
}

#[no_mangle]
pub unsafe extern "C" fn mprotect(addr: *mut libc::c_void, len: libc::size_t, prot: libc::c_int) -> libc::c_int {
    let t = MPROT_ONCE_TARGET.load(Ordering::SeqCst);
    if t > 0 && MPROT_IN_OP.load(Ordering::SeqCst) && MPROT_OP_ORD.load(Ordering::SeqCst) == t && !MPROT_OP_USED.swap(true, Ordering::SeqCst) {
        *libc::__errno_location() = libc::ENOMEM;
        return -1;
    }
    let rc = libc::syscall(libc::SYS_mprotect, addr, len, prot) as libc::c_int;
    if prot == (libc::PROT_READ | libc::PROT_WRITE) {
        let n = MPROT_RW_CALLS.fetch_add(1, Ordering::SeqCst) + 1;
        let k = MPROT_FAIL_FROM.load(Ordering::SeqCst);
        if k > 0 && n as i64 >= k && rc == 0 {
            *libc::__errno_location() = libc::EACCES;
            return -1;
        }
    }
    rc
}

fn arm_mprotect(k: i64) {
    MPROT_RW_CALLS.store(0, Ordering::SeqCst);
    MPROT_FAIL_FROM.store(k, Ordering::SeqCst);
}

fn arm_mlock(k: i64) {
    MLOCK_CALLS.store(0, Ordering::SeqCst);
    MLOCK_REFUSED.store(0, Ordering::SeqCst);
    MLOCK_FAIL_FROM.store(k, Ordering::SeqCst);
}

// ---------------------------------------------------------------------------------------
// kernel view

#[derive(Clone, Debug)]
pub struct Vma {
    start: usize,
    end: usize,
    perms: [u8; 4],
    locked: bool,
}

fn parse_smaps() -> Vec<Vma> {
    let s = std::fs::read_to_string("/proc/self/smaps").expect("smaps");
    let mut out: Vec<Vma> = vec![];
    for line in s.lines() {
        let b = line.as_bytes();
        if !b.is_empty() && (b[0].is_ascii_digit() || (b[0] >= b'a' && b[0] <= b'f')) && line.contains('-') {
            // header line: start-end perms ...
            let mut it = line.split_whitespace();
            let range = it.next().unwrap_or("");
            let perms = it.next().unwrap_or("----");
            if let Some((a, e)) = range.split_once('-') {
                if let (Ok(a), Ok(e)) = (usize::from_str_radix(a, 16), usize::from_str_radix(e, 16)) {
                    let mut p = [b'-'; 4];
                    p.copy_from_slice(&perms.as_bytes()[..4]);
                    out.push(Vma { start: a, end: e, perms: p, locked: false });
                    continue;
                }
            }
        }
        if let Some(rest) = line.strip_prefix("VmFlags:") {
            if let Some(v) = out.last_mut() {
                v.locked = rest.split_whitespace().any(|f| f == "lo");
            }
        }
    }
    out
}

fn parse_maps() -> Vec<Vma> {
    let s = std::fs::read_to_string("/proc/self/maps").expect("maps");
    let mut out = vec![];
    for line in s.lines() {
        let mut it = line.split_whitespace();
        let range = it.next().unwrap_or("");
        let perms = it.next().unwrap_or("----");
        if let Some((a, e)) = range.split_once('-') {
            if let (Ok(a), Ok(e)) = (usize::from_str_radix(a, 16), usize::from_str_radix(e, 16)) {
                let mut p = [b'-'; 4];
                p.copy_from_slice(&perms.as_bytes()[..4]);
                out.push(Vma { start: a, end: e, perms: p, locked: false });
            }
        }
    }
    out
}

fn vm_lck_kb() -> u64 {
    let s = std::fs::read_to_string("/proc/self/status").expect("status");
    for l in s.lines() {
        if let Some(r) = l.strip_prefix("VmLck:") {
            return r.trim().trim_end_matches("kB").trim().parse().unwrap_or(u64::MAX);
        }
    }
    u64::MAX
}

fn page_info(vmas: &[Vma], addr: usize) -> Option<(&[u8; 4], bool)> {
    vmas.iter().find(|v| v.start <= addr && addr < v.end).map(|v| (&v.perms, v.locked))
}

/// Fork a child that performs one access; returns true when the child died by SIGSEGV/SIGBUS.
fn probe_faults(addr: usize, write: bool) -> bool {
    unsafe {
        let pid = libc::fork();
        if pid == 0 {
            let p = addr as *mut u8;
            if write {
                let v = std::ptr::read_volatile(p as *const u8);
                std::ptr::write_volatile(p, v ^ 0xff);
            } else {
                let v = std::ptr::read_volatile(p as *const u8);
                std::hint::black_box(v);
            }
            libc::_exit(0);
        }
        let mut status: libc::c_int = 0;
        libc::waitpid(pid, &mut status, 0);
        libc::WIFSIGNALED(status) && (libc::WTERMSIG(status) == libc::SIGSEGV || libc::WTERMSIG(status) == libc::SIGBUS)
    }
}

/// Fork a child that only reads (for NoAccess / guard pages a pure read must fault).
fn probe_read_faults(addr: usize) -> bool {
    probe_faults(addr, false)
}

// ---------------------------------------------------------------------------------------
// containers

pub trait PmCont: Zeroize + NewBytes + Lockable<Self> + Clone + Default + 'static {
    fn cname() -> String;
    fn fixed() -> Option<usize>;
    fn build(content: &[u8]) -> Self;
    fn clone_lrw(h: &Locked<Self>) -> Option<Locked<Self>>;
    fn clone_lro(h: &LockedRO<Self>) -> Option<LockedRO<Self>>;
    /// `Clone::clone_from` between two live handles of the same type-state (false = not offered)
    fn clone_from_lrw(_dst: &mut Locked<Self>, _src: &Locked<Self>) -> bool {
        false
    }
    fn clone_from_lro(_dst: &mut LockedRO<Self>, _src: &LockedRO<Self>) -> bool {
        false
    }
    fn resize_lrw(h: &mut Locked<Self>, n: usize, v: u8) -> bool;
    fn resize_urw(h: &mut Unlocked<Self>, n: usize, v: u8) -> bool;
    fn resize_raw(a: &mut Self, n: usize, v: u8) -> bool;
    fn from_slice_locked(src: &[u8]) -> Result<Locked<Self>, dryoc::Error>;
    fn from_slice_ro_locked(src: &[u8]) -> Result<LockedRO<Self>, dryoc::Error>;
    /// `StackByteArray<N>::mlock()` / `::mprotect_readonly()` (fixed containers only)
    fn stack_mlock(_content: &[u8]) -> Option<Result<Locked<Self>, std::io::Error>> {
        None
    }
    fn stack_ro(_content: &[u8]) -> Option<Result<UnlockedRO<Self>, std::io::Error>> {
        None
    }
}

impl PmCont for HeapBytes {
    fn cname() -> String {
        "HeapBytes".into()
    }
    fn fixed() -> Option<usize> {
        None
    }
    fn build(content: &[u8]) -> Self {
        let mut a = HeapBytes::default();
        a.resize(content.len(), 0);
        a.as_mut_slice().copy_from_slice(content);
        a
    }
    fn clone_lrw(h: &Locked<Self>) -> Option<Locked<Self>> {
        Some(h.clone())
    }
    fn clone_lro(h: &LockedRO<Self>) -> Option<LockedRO<Self>> {
        Some(h.clone())
    }
    fn clone_from_lrw(dst: &mut Locked<Self>, src: &Locked<Self>) -> bool {
        dst.clone_from(src);
        true
    }
    fn clone_from_lro(dst: &mut LockedRO<Self>, src: &LockedRO<Self>) -> bool {
        dst.clone_from(src);
        true
    }
    fn resize_lrw(h: &mut Locked<Self>, n: usize, v: u8) -> bool {
        h.resize(n, v);
        true
    }
    fn resize_urw(h: &mut Unlocked<Self>, n: usize, v: u8) -> bool {
        h.resize(n, v);
        true
    }
    fn resize_raw(a: &mut Self, n: usize, v: u8) -> bool {
        a.resize(n, v);
        true
    }
    fn from_slice_locked(src: &[u8]) -> Result<Locked<Self>, dryoc::Error> {
        HeapBytes::from_slice_into_locked(src)
    }
    fn from_slice_ro_locked(src: &[u8]) -> Result<LockedRO<Self>, dryoc::Error> {
        HeapBytes::from_slice_into_readonly_locked(src)
    }
}

impl<const N: usize> PmCont for HeapByteArray<N> {
    fn cname() -> String {
        format!("HeapByteArray<{}>", N)
    }
    fn fixed() -> Option<usize> {
        Some(N)
    }
    fn build(content: &[u8]) -> Self {
        let mut a = HeapByteArray::<N>::default();
        a.as_mut_slice().copy_from_slice(content);
        a
    }
    fn clone_lrw(_: &Locked<Self>) -> Option<Locked<Self>> {
        None
    }
    fn clone_lro(_: &LockedRO<Self>) -> Option<LockedRO<Self>> {
        None
    }
    fn resize_lrw(_: &mut Locked<Self>, _: usize, _: u8) -> bool {
        false
    }
    fn resize_urw(_: &mut Unlocked<Self>, _: usize, _: u8) -> bool {
        false
    }
    fn resize_raw(_: &mut Self, _: usize, _: u8) -> bool {
        false
    }
    fn from_slice_locked(src: &[u8]) -> Result<Locked<Self>, dryoc::Error> {
        HeapByteArray::<N>::from_slice_into_locked(src)
    }
    fn from_slice_ro_locked(src: &[u8]) -> Result<LockedRO<Self>, dryoc::Error> {
        HeapByteArray::<N>::from_slice_into_readonly_locked(src)
    }
    fn stack_mlock(content: &[u8]) -> Option<Result<Locked<Self>, std::io::Error>> {
        let s = StackByteArray::<N>::try_from(content).ok()?;
        Some(s.mlock())
    }
    fn stack_ro(content: &[u8]) -> Option<Result<UnlockedRO<Self>, std::io::Error>> {
        let s = StackByteArray::<N>::try_from(content).ok()?;
        Some(s.mprotect_readonly())
    }
}

type LockedNA<A> = Protected<A, tr::NoAccess, tr::Locked>;

pub enum Hd<A: PmCont> {
    Raw(A),
    LRW(Locked<A>),
    LRO(LockedRO<A>),
    URW(Unlocked<A>),
    URO(UnlockedRO<A>),
    UNA(NoAccess<A>),
    LNA(LockedNA<A>),
}

#[derive(Clone, Copy, PartialEq, Eq, Debug, Hash)]
pub enum Pm {
    RW,
    RO,
    NA,
}
#[derive(Clone, Copy, PartialEq, Eq, Debug, Hash)]
pub enum Lm {
    Raw,
    Locked,
    Unlocked,
}

impl<A: PmCont> Hd<A> {
    fn kind(&self) -> (Pm, Lm) {
        match self {
            Hd::Raw(_) => (Pm::RW, Lm::Raw),
            Hd::LRW(_) => (Pm::RW, Lm::Locked),
            Hd::LRO(_) => (Pm::RO, Lm::Locked),
            Hd::URW(_) => (Pm::RW, Lm::Unlocked),
            Hd::URO(_) => (Pm::RO, Lm::Unlocked),
            Hd::UNA(_) => (Pm::NA, Lm::Unlocked),
            Hd::LNA(_) => (Pm::NA, Lm::Locked),
        }
    }
    fn slice(&self) -> Option<&[u8]> {
        match self {
            Hd::Raw(a) => Some(a.as_slice()),
            Hd::LRW(p) => Some(p.as_slice()),
            Hd::LRO(p) => Some(p.as_slice()),
            Hd::URW(p) => Some(p.as_slice()),
            Hd::URO(p) => Some(p.as_slice()),
            _ => None,
        }
    }
    fn zeroize(&mut self) {
        use zeroize::Zeroize;
        match self {
            Hd::Raw(a) => a.zeroize(),
            Hd::LRW(p) => p.zeroize(),
            Hd::LRO(p) => p.zeroize(),
            Hd::URW(p) => p.zeroize(),
            Hd::URO(p) => p.zeroize(),
            Hd::UNA(p) => p.zeroize(),
            Hd::LNA(p) => p.zeroize(),
        }
    }
    fn slice_mut(&mut self) -> Option<&mut [u8]> {
        match self {
            Hd::Raw(a) => Some(a.as_mut_slice()),
            Hd::LRW(p) => Some(p.as_mut_slice()),
            Hd::URW(p) => Some(p.as_mut_slice()),
            _ => None,
        }
    }
}

// ---------------------------------------------------------------------------------------
// operations

#[derive(Clone, Copy, Debug, PartialEq, Eq, Hash, serde::Serialize, serde::Deserialize)]
pub enum Ctor {
    NewLocked,
    NewRoLocked,
    GenLocked,
    GenRoLocked,
    FromSliceLocked,
    FromSliceRoLocked,
    RawMlock,
    Raw,
    StackMlock,
    StackRo,
}

#[derive(Clone, Copy, Debug, PartialEq, Eq, Hash, serde::Serialize, serde::Deserialize)]
pub enum Op {
    Create(Ctor),
    Mlock(u8),
    Munlock(u8),
    Ro(u8),
    Rw(u8),
    Na(u8),
    Clone(u8),
    Resize(u8, usize),
    Write(u8, u8),
    Drop(u8),
    /// explicit `Zeroize::zeroize()` on a live handle (release-observer mode only: the
    /// statement of C14 does not list it among the transitions)
    Zero(u8),
    /// the handle is dropped while a panic unwinds through its owner (release-observer mode)
    DropUnwind(u8),
    /// `slots[d].clone_from(&slots[1 - d])`: both handles live and of the same type-state
    CloneFrom(u8),
    /// `MutBytes::copy_from_slice` with a source of another length (len + delta): documented to
    /// require equal lengths; whatever it does (panic, error), the region must stay what its
    /// type says
    CopyFromOtherLen(u8, i32),
}

#[derive(Clone, Debug, PartialEq, Eq)]
pub enum Outcome {
    Ok,
    Err(String),
    Panic(String),
    Skipped,
}

/// Reference model of one live handle.
#[derive(Clone, Debug)]
pub struct MRec {
    pm: Pm,
    lm: Lm,
    content: Vec<u8>,
    addr: usize, // 0 when the container owns no allocation
}

pub struct World<A: PmCont> {
    slots: [Option<Hd<A>>; 2],
    model: [Option<MRec>; 2],
    base_len: usize,
    fill: u8,
    general_leaks: Vec<String>,
}

fn pattern(len: usize, p: u8) -> Vec<u8> {
    (0..len).map(|i| ((i as u8).wrapping_mul(7)).wrapping_add(p) | 1).collect()
}

impl<A: PmCont> World<A> {
    fn new(base_len: usize) -> Self {
        World { slots: [None, None], model: [None, None], base_len, fill: 0xA5, general_leaks: vec![] }
    }

    fn sync_model(&mut self, s: usize, content: Option<Vec<u8>>) {
        match &self.slots[s] {
            None => self.model[s] = None,
            Some(h) => {
                let (pm, lm) = h.kind();
                let prev = self.model[s].take();
                let (c, addr) = match h.slice() {
                    Some(sl) => {
                        let addr = if sl.is_empty() { prev.as_ref().map(|p| p.addr).unwrap_or(0) } else { sl.as_ptr() as usize };
                        // when the region is readable the model content is what the model says it
                        // should be (set by the caller), never what is read back
                        (content.or(prev.as_ref().map(|p| p.content.clone())).unwrap_or_else(|| sl.to_vec()), addr)
                    }
                    None => {
                        let p = prev.expect("NA handle must have a previous model record");
                        (content.unwrap_or(p.content), p.addr)
                    }
                };
                self.model[s] = Some(MRec { pm, lm, content: c, addr });
            }
        }
    }

    /// Which operations does the type system offer in the current state?
    pub fn enabled(&self, resize_targets: &[usize], with_raw: bool) -> Vec<Op> {
        let mut v = vec![];
        if self.slots[0].is_none() && self.slots[1].is_none() {
            for c in [Ctor::NewLocked, Ctor::NewRoLocked, Ctor::GenLocked, Ctor::GenRoLocked, Ctor::FromSliceLocked, Ctor::FromSliceRoLocked, Ctor::RawMlock] {
                v.push(Op::Create(c));
            }
            if A::fixed().is_some() {
                v.push(Op::Create(Ctor::StackMlock));
                v.push(Op::Create(Ctor::StackRo));
            }
            if with_raw {
                v.push(Op::Create(Ctor::Raw));
            }
            return v;
        }
        for s in 0..2u8 {
            let Some(h) = &self.slots[s as usize] else { continue };
            let (pm, lm) = h.kind();
            if lm == Lm::Raw {
                v.push(Op::Mlock(s));
                if A::fixed().is_none() {
                    for &n in resize_targets {
                        v.push(Op::Resize(s, n));
                    }
                }
                v.push(Op::Write(s, 3));
                if self.slots[1 - s as usize].is_none() {
                    v.push(Op::Clone(s));
                }
                v.push(Op::Drop(s));
                if with_raw {
                    v.push(Op::Zero(s));
                    v.push(Op::DropUnwind(s));
                }
                continue;
            }
            if lm == Lm::Unlocked {
                v.push(Op::Mlock(s));
            }
            v.push(Op::Munlock(s));
            v.push(Op::Ro(s));
            v.push(Op::Rw(s));
            if lm == Lm::Unlocked {
                v.push(Op::Na(s));
            }
            let other_free = self.slots[1 - s as usize].is_none();
            if other_free && pm != Pm::NA {
                let can = match lm {
                    Lm::Locked => A::fixed().is_none(),
                    _ => true,
                };
                if can {
                    v.push(Op::Clone(s));
                }
            }
            if pm == Pm::RW {
                if A::fixed().is_none() {
                    for &n in resize_targets {
                        v.push(Op::Resize(s, n));
                    }
                    if !with_raw {
                        v.push(Op::CopyFromOtherLen(s, 1));
                    }
                }
                v.push(Op::Write(s, 3));
            }
            v.push(Op::Drop(s));
            if with_raw {
                v.push(Op::Zero(s));
                v.push(Op::DropUnwind(s));
            }
        }
        if let (Some(a), Some(b)) = (&self.slots[0], &self.slots[1]) {
            let (ka, kb) = (a.kind(), b.kind());
            if ka == kb && ka.0 != Pm::NA && !(ka.1 == Lm::Locked && A::fixed().is_some()) {
                v.push(Op::CloneFrom(0));
                v.push(Op::CloneFrom(1));
            }
        }
        v
    }

    /// Apply one operation to the real objects and to the model. Result-returning API calls
    /// that return Err consume the handle (the API takes `self`).
    pub fn apply(&mut self, op: Op) -> Outcome {
        let base = self.base_len;
        let fill = self.fill;
        match op {
            Op::Create(c) => {
                let content = pattern(A::fixed().unwrap_or(base), 0x11);
                let r = guarded(AssertUnwindSafe(|| -> Result<Hd<A>, String> {
                    Ok(match c {
                        Ctor::NewLocked => Hd::LRW(A::new_locked().map_err(|e| e.to_string())?),
                        Ctor::NewRoLocked => Hd::LRO(A::new_readonly_locked().map_err(|e| e.to_string())?),
                        Ctor::GenLocked => Hd::LRW(A::gen_locked().map_err(|e| e.to_string())?),
                        Ctor::GenRoLocked => Hd::LRO(A::gen_readonly_locked().map_err(|e| e.to_string())?),
                        Ctor::FromSliceLocked => Hd::LRW(A::from_slice_locked(&content).map_err(|e| format!("{:?}", e))?),
                        Ctor::FromSliceRoLocked => Hd::LRO(A::from_slice_ro_locked(&content).map_err(|e| format!("{:?}", e))?),
                        Ctor::RawMlock => Hd::LRW(A::build(&content).mlock().map_err(|e| e.to_string())?),
                        Ctor::Raw => Hd::Raw(A::build(&content)),
                        Ctor::StackMlock => Hd::LRW(A::stack_mlock(&content).ok_or("not a fixed container")?.map_err(|e| e.to_string())?),
                        Ctor::StackRo => Hd::URO(A::stack_ro(&content).ok_or("not a fixed container")?.map_err(|e| e.to_string())?),
                    })
                }));
                match r {
                    Err(p) => Outcome::Panic(p),
                    Ok(Err(e)) => Outcome::Err(e),
                    Ok(Ok(h)) => {
                        // model content: what the constructor is documented to hold
                        let mc = match c {
                            Ctor::NewLocked | Ctor::NewRoLocked => Some(vec![0u8; A::fixed().unwrap_or(0)]),
                            Ctor::GenLocked | Ctor::GenRoLocked => h.slice().map(|s| s.to_vec()),
                            _ => Some(content),
                        };
                        self.slots[0] = Some(h);
                        self.sync_model(0, mc);
                        Outcome::Ok
                    }
                }
            }
            Op::Mlock(s) | Op::Munlock(s) | Op::Ro(s) | Op::Rw(s) | Op::Na(s) => {
                let s = s as usize;
                let Some(h) = self.slots[s].take() else { return Outcome::Skipped };
                let (_, lm) = h.kind();
                // applicability under the type system
                let applicable = match (op, lm) {
                    (Op::Mlock(_), Lm::Locked) => false,
                    (Op::Na(_), Lm::Locked) => false,
                    (Op::Munlock(_), Lm::Raw) | (Op::Ro(_), Lm::Raw) | (Op::Rw(_), Lm::Raw) | (Op::Na(_), Lm::Raw) => false,
                    _ => true,
                };
                if !applicable {
                    self.slots[s] = Some(h);
                    return Outcome::Skipped;
                }
                macro_rules! tr {
                    ($e:expr, $wrap:path) => {
                        $e.map($wrap).map_err(|e| e.to_string())
                    };
                }
                let prot_change = matches!(op, Op::Ro(_) | Op::Rw(_) | Op::Na(_));
                if prot_change {
                    mprot_op_begin();
                }
                let r = guarded(AssertUnwindSafe(move || -> Result<Hd<A>, String> {
                    match (op, h) {
                        (Op::Mlock(_), Hd::Raw(a)) => tr!(a.mlock(), Hd::LRW),
                        (Op::Mlock(_), Hd::URW(p)) => tr!(Lock::mlock(p), Hd::LRW),
                        (Op::Mlock(_), Hd::URO(p)) => tr!(Lock::mlock(p), Hd::LRO),
                        (Op::Mlock(_), Hd::UNA(p)) => tr!(Lock::mlock(p), Hd::LNA),
                        (Op::Munlock(_), Hd::LRW(p)) => tr!(p.munlock(), Hd::URW),
                        (Op::Munlock(_), Hd::LRO(p)) => tr!(p.munlock(), Hd::URO),
                        (Op::Munlock(_), Hd::LNA(p)) => tr!(p.munlock(), Hd::UNA),
                        (Op::Munlock(_), Hd::URW(p)) => tr!(p.munlock(), Hd::URW),
                        (Op::Munlock(_), Hd::URO(p)) => tr!(p.munlock(), Hd::URO),
                        (Op::Munlock(_), Hd::UNA(p)) => tr!(p.munlock(), Hd::UNA),
                        (Op::Ro(_), Hd::LRW(p)) => tr!(p.mprotect_readonly(), Hd::LRO),
                        (Op::Ro(_), Hd::LRO(p)) => tr!(p.mprotect_readonly(), Hd::LRO),
                        (Op::Ro(_), Hd::LNA(p)) => tr!(p.mprotect_readonly(), Hd::LRO),
                        (Op::Ro(_), Hd::URW(p)) => tr!(p.mprotect_readonly(), Hd::URO),
                        (Op::Ro(_), Hd::URO(p)) => tr!(p.mprotect_readonly(), Hd::URO),
                        (Op::Ro(_), Hd::UNA(p)) => tr!(p.mprotect_readonly(), Hd::URO),
                        (Op::Rw(_), Hd::LRW(p)) => tr!(p.mprotect_readwrite(), Hd::LRW),
                        (Op::Rw(_), Hd::LRO(p)) => tr!(p.mprotect_readwrite(), Hd::LRW),
                        (Op::Rw(_), Hd::LNA(p)) => tr!(p.mprotect_readwrite(), Hd::LRW),
                        (Op::Rw(_), Hd::URW(p)) => tr!(p.mprotect_readwrite(), Hd::URW),
                        (Op::Rw(_), Hd::URO(p)) => tr!(p.mprotect_readwrite(), Hd::URW),
                        (Op::Rw(_), Hd::UNA(p)) => tr!(p.mprotect_readwrite(), Hd::URW),
                        (Op::Na(_), Hd::URW(p)) => tr!(p.mprotect_noaccess(), Hd::UNA),
                        (Op::Na(_), Hd::URO(p)) => tr!(p.mprotect_noaccess(), Hd::UNA),
                        (Op::Na(_), Hd::UNA(p)) => tr!(p.mprotect_noaccess(), Hd::UNA),
                        _ => unreachable!(),
                    }
                }));
                if prot_change {
                    mprot_op_end();
                }
                match r {
                    Err(p) => {
                        self.model[s] = None;
                        Outcome::Panic(p)
                    }
                    Ok(Err(e)) => {
                        self.model[s] = None;
                        Outcome::Err(e)
                    }
                    Ok(Ok(h2)) => {
                        self.slots[s] = Some(h2);
                        self.sync_model(s, None);
                        Outcome::Ok
                    }
                }
            }
            Op::Clone(s) => {
                let s = s as usize;
                let t = 1 - s;
                if self.slots[t].is_some() {
                    return Outcome::Skipped;
                }
                let Some(h) = &self.slots[s] else { return Outcome::Skipped };
                let r = guarded(AssertUnwindSafe(|| -> Option<Hd<A>> {
                    match h {
                        Hd::Raw(a) => Some(Hd::Raw(a.clone())),
                        Hd::LRW(p) => A::clone_lrw(p).map(Hd::LRW),
                        Hd::LRO(p) => A::clone_lro(p).map(Hd::LRO),
                        Hd::URW(p) => Some(Hd::URW(p.clone())),
                        Hd::URO(p) => Some(Hd::URO(p.clone())),
                        _ => None,
                    }
                }));
                match r {
                    Err(p) => Outcome::Panic(p),
                    Ok(None) => Outcome::Skipped,
                    Ok(Some(h2)) => {
                        let content = self.model[s].as_ref().unwrap().content.clone();
                        self.slots[t] = Some(h2);
                        self.model[t] = None;
                        self.sync_model(t, Some(content));
                        Outcome::Ok
                    }
                }
            }
            Op::CopyFromOtherLen(s, delta) => {
                let s = s as usize;
                let Some(h) = self.slots[s].as_mut() else { return Outcome::Skipped };
                let cur = self.model[s].as_ref().map(|m| m.content.len()).unwrap_or(0) as i64;
                let n = (cur + delta as i64).max(0) as usize;
                let src = pattern(n, 0x55);
                let r = guarded(AssertUnwindSafe(|| match h {
                    Hd::Raw(a) => {
                        a.copy_from_slice(&src);
                        true
                    }
                    Hd::LRW(p) => {
                        p.copy_from_slice(&src);
                        true
                    }
                    Hd::URW(p) => {
                        p.copy_from_slice(&src);
                        true
                    }
                    _ => false,
                }));
                match r {
                    Err(p) => Outcome::Panic(p),
                    Ok(false) => Outcome::Skipped,
                    Ok(true) => {
                        // accepted: the container now holds the source
                        self.sync_model(s, Some(src));
                        Outcome::Ok
                    }
                }
            }
            Op::CloneFrom(d) => {
                let d = d as usize;
                let [a, b] = &mut self.slots;
                let (dst, src) = if d == 0 { (a, b) } else { (b, a) };
                let (Some(dst), Some(src)) = (dst.as_mut(), src.as_ref()) else { return Outcome::Skipped };
                let r = guarded(AssertUnwindSafe(|| match (dst, src) {
                    (Hd::Raw(x), Hd::Raw(y)) => {
                        x.clone_from(y);
                        true
                    }
                    (Hd::LRW(x), Hd::LRW(y)) => A::clone_from_lrw(x, y),
                    (Hd::LRO(x), Hd::LRO(y)) => A::clone_from_lro(x, y),
                    (Hd::URW(x), Hd::URW(y)) => {
                        x.clone_from(y);
                        true
                    }
                    (Hd::URO(x), Hd::URO(y)) => {
                        x.clone_from(y);
                        true
                    }
                    _ => false,
                }));
                match r {
                    Err(p) => Outcome::Panic(p),
                    Ok(false) => Outcome::Skipped,
                    Ok(true) => {
                        let content = self.model[1 - d].as_ref().unwrap().content.clone();
                        self.sync_model(d, Some(content));
                        Outcome::Ok
                    }
                }
            }
            Op::Resize(s, n) => {
                let s = s as usize;
                let Some(h) = self.slots[s].as_mut() else { return Outcome::Skipped };
                // while the container resizes, nothing holding its current content may go back
                // to the general allocator either (a temporary copy made on the way)
                let secret: Vec<u8> = self.model[s].as_ref().map(|m| m.content.clone()).unwrap_or_default();
                let armed = crate::c04::watch_arm(&secret);
                let r = guarded(AssertUnwindSafe(|| match h {
                    Hd::Raw(a) => A::resize_raw(a, n, fill),
                    Hd::LRW(p) => A::resize_lrw(p, n, fill),
                    Hd::URW(p) => A::resize_urw(p, n, fill),
                    _ => false,
                }));
                if armed {
                    let (hits, size) = crate::c04::watch_disarm();
                    if hits > 0 {
                        self.general_leaks.push(format!("while resizing to {} bytes, {} block(s) (last: {} bytes) holding a copy of the container's content went back to the general allocator unwiped", n, hits, size));
                    }
                }
                drop(secret);
                match r {
                    Err(p) => {
                        // a panicking resize leaves the handle as it was (API takes &mut self)
                        Outcome::Panic(p)
                    }
                    Ok(false) => Outcome::Skipped,
                    Ok(true) => {
                        let mut c = self.model[s].as_ref().unwrap().content.clone();
                        c.resize(n, fill);
                        self.sync_model(s, Some(c));
                        Outcome::Ok
                    }
                }
            }
            Op::Write(s, p) => {
                let s = s as usize;
                let Some(h) = self.slots[s].as_mut() else { return Outcome::Skipped };
                let Some(sl) = h.slice_mut() else { return Outcome::Skipped };
                let pat = pattern(sl.len(), p);
                sl.copy_from_slice(&pat);
                self.sync_model(s, Some(pat));
                Outcome::Ok
            }
            Op::Zero(s) => {
                let s = s as usize;
                let Some(h) = self.slots[s].as_mut() else { return Outcome::Skipped };
                match guarded(AssertUnwindSafe(|| h.zeroize())) {
                    Ok(()) => {
                        let n = self.model[s].as_ref().map(|m| m.content.len()).unwrap_or(0);
                        self.sync_model(s, Some(vec![0u8; n]));
                        Outcome::Ok
                    }
                    Err(p) => Outcome::Panic(p),
                }
            }
            Op::DropUnwind(s) => {
                let s = s as usize;
                let Some(h) = self.slots[s].take() else { return Outcome::Skipped };
                self.model[s] = None;
                // the owner panics; the handle is dropped by the unwinder
                let r = guarded(AssertUnwindSafe(move || {
                    let _owned = h;
                    if std::hint::black_box(true) {
                        panic!("owner of a protected region panics");
                    }
                }));
                match r {
                    Err(p) if p.contains("owner of a protected region panics") => Outcome::Ok,
                    Err(p) => Outcome::Panic(p),
                    Ok(()) => Outcome::Ok,
                }
            }
            Op::Drop(s) => {
                let s = s as usize;
                let Some(h) = self.slots[s].take() else { return Outcome::Skipped };
                self.model[s] = None;
                match guarded(AssertUnwindSafe(move || drop(h))) {
                    Ok(()) => Outcome::Ok,
                    Err(p) => Outcome::Panic(p),
                }
            }
        }
    }

    fn drop_all(&mut self) {
        for s in 0..2 {
            if let Some(h) = self.slots[s].take() {
                let _ = guarded(AssertUnwindSafe(move || drop(h)));
            }
            self.model[s] = None;
        }
    }
}

// ---------------------------------------------------------------------------------------
// allocator log (hook H2)

#[derive(Default)]
pub struct AllocLog {
    live: BTreeMap<usize, usize>,
    ever: Vec<(usize, usize)>,
    allocs: u64,
    releases: u64,
    dirty: Vec<(usize, usize, usize, String)>, // addr, size, nonzero, note
}

fn count_nonzero(addr: usize, size: usize) -> Result<usize, String> {
    if size == 0 {
        return Ok(0);
    }
    // read through process_vm_readv so that a still-protected page yields EFAULT, not a crash
    let mut buf = vec![0u8; size];
    let local = libc::iovec { iov_base: buf.as_mut_ptr() as *mut libc::c_void, iov_len: size };
    let remote = libc::iovec { iov_base: addr as *mut libc::c_void, iov_len: size };
    let n = unsafe { libc::process_vm_readv(libc::getpid(), &local, 1, &remote, 1, 0) };
    if n != size as isize {
        return Err(format!("released block not fully readable ({} of {} bytes)", n, size));
    }
    Ok(buf.iter().filter(|b| **b != 0).count())
}

pub fn install_observer(log: Rc<RefCell<AllocLog>>) {
    let l2 = log.clone();
    dryoc::protected::verif::set_alloc_observer(Some(Box::new(move |ev| {
        let mut l = l2.borrow_mut();
        match ev {
            dryoc::protected::verif::Event::Alloc { addr, size } => {
                l.allocs += 1;
                l.live.insert(addr, size);
                l.ever.push((addr, size));
            }
            dryoc::protected::verif::Event::Release { addr, size } => {
                l.releases += 1;
                // the block that goes back to the system allocator is the one that was handed
                // out: if the container shrank it in place, the tail beyond the size it now
                // reports is still part of the released allocation
                let handed_out = l.live.remove(&addr).unwrap_or(0);
                let size = size.max(handed_out);
                match count_nonzero(addr, size) {
                    Ok(0) => {}
                    Ok(n) => l.dirty.push((addr, size, n, String::new())),
                    Err(e) => l.dirty.push((addr, size, 0, e)),
                }
            }
        }
    })));
}

// ---------------------------------------------------------------------------------------
// invariants

fn pages_of(addr: usize, len: usize) -> Vec<usize> {
    if len == 0 {
        return vec![];
    }
    let first = addr / PAGE * PAGE;
    let last = (addr + len - 1) / PAGE * PAGE;
    (first..=last).step_by(PAGE).collect()
}

fn perms_for(pm: Pm) -> &'static [u8; 4] {
    match pm {
        Pm::RW => b"rw-p",
        Pm::RO => b"r--p",
        Pm::NA => b"---p",
    }
}

pub struct Viol {
    pub class: String,
    pub detail: String,
    pub len: usize,
}
fn viol(class: impl Into<String>, detail: impl Into<String>, len: usize) -> Viol {
    Viol { class: class.into(), detail: detail.into(), len }
}

/// C14 invariant on every live handle (kernel view == type state), without fork probes.
fn check_live<A: PmCont>(w: &World<A>, log: &AllocLog, base_lck: u64, out: &mut Vec<Viol>) {
    let vmas = parse_smaps();
    let mut expect_lck_pages = 0u64;
    let mut allow_lck_pages = 0u64;
    for s in 0..2 {
        let (Some(h), Some(m)) = (&w.slots[s], &w.model[s]) else { continue };
        let (pm, lm) = h.kind();
        let len = m.content.len();
        // contents (as soon as readable)
        if let Some(sl) = h.slice() {
            if sl != &m.content[..] {
                out.push(Viol { class: "contents-changed".into(), detail: format!("slot {} ({:?},{:?}) len {}: contents differ from the model after the transition", s, pm, lm, len), len: len });
            }
        }
        if lm == Lm::Raw || len == 0 || m.addr == 0 {
            continue;
        }
        let size = log.live.get(&m.addr).copied();
        for pg in pages_of(m.addr, len) {
            match page_info(&vmas, pg) {
                None => out.push(Viol { class: "page-unmapped".into(), detail: format!("data page {:#x} of a live handle is not mapped", pg), len: len }),
                Some((p, locked)) => {
                    if p != perms_for(pm) {
                        out.push(Viol {
                            class: format!("rights/{:?}", pm),
                            detail: format!("slot {} type-state ({:?},{:?}) len {}: page +{} has rights {} but the type advertises {}", s, pm, lm, len, (pg - m.addr / PAGE * PAGE) / PAGE, String::from_utf8_lossy(p), String::from_utf8_lossy(perms_for(pm))),
                            len,
                        });
                    }
                    let want = lm == Lm::Locked;
                    if locked != want {
                        out.push(Viol {
                            class: format!("lock/{}", if want { "missing" } else { "unexpected" }),
                            detail: format!("slot {} type-state ({:?},{:?}) len {}: page +{} locked={} but the type says locked={}", s, pm, lm, len, (pg - m.addr) / PAGE, locked, want),
                            len,
                        });
                    }
                }
            }
        }
        if lm == Lm::Locked {
            expect_lck_pages += pages_of(m.addr, len).len() as u64;
            // an implementation may lock the whole allocation (spare capacity) of a locked region
            allow_lck_pages += pages_of(m.addr, size.unwrap_or(len).max(len)).len() as u64;
        }
        // guard pages
        match page_info(&vmas, m.addr - PAGE) {
            Some((p, _)) if p == b"---p" => {}
            other => out.push(Viol { class: "guard/before".into(), detail: format!("page before the data is {:?}, expected ---p", other.map(|(p, _)| String::from_utf8_lossy(p).to_string())), len: len }),
        }
        if let Some(size) = size {
            let end = (m.addr + size + PAGE - 1) / PAGE * PAGE;
            let g0 = page_info(&vmas, end).map(|(p, _)| p == b"---p").unwrap_or(false);
            let g1 = page_info(&vmas, end + PAGE).map(|(p, _)| p == b"---p").unwrap_or(false);
            if !(g0 || g1) {
                out.push(Viol { class: "guard/after".into(), detail: format!("no inaccessible page within one page after the allocation end (alloc size {})", size), len: len });
            }
        } else {
            out.push(Viol { class: "alloc-log".into(), detail: format!("live handle address {:#x} not found among live allocations", m.addr), len: len });
        }
    }
    let lck = vm_lck_kb();
    // the data pages of locked handles must be locked (checked per page above); the total may
    // exceed that only by the spare-capacity pages of locked handles' own allocations
    if lck < base_lck + expect_lck_pages * (PAGE as u64 / 1024) || lck > base_lck + allow_lck_pages * (PAGE as u64 / 1024) {
        out.push(Viol { class: "vmlck".into(), detail: format!("VmLck is {} kB, model expects {} kB ({} locked pages over baseline {})", lck, base_lck + expect_lck_pages * 4, expect_lck_pages, base_lck), len: usize::MAX });
    }
}

/// Fork probes: forbidden accesses must fault, permitted ones must not.
fn check_probes<A: PmCont>(w: &World<A>, log: &AllocLog, out: &mut Vec<Viol>) -> u64 {
    let mut n = 0;
    for s in 0..2 {
        let (Some(h), Some(m)) = (&w.slots[s], &w.model[s]) else { continue };
        let (pm, lm) = h.kind();
        let len = m.content.len();
        if lm == Lm::Raw || len == 0 || m.addr == 0 {
            continue;
        }
        let mut pts: Vec<usize> = vec![];
        for pg in pages_of(m.addr, len) {
            let lo = pg.max(m.addr);
            let hi = (pg + PAGE - 1).min(m.addr + len - 1);
            pts.push(lo);
            if hi != lo {
                pts.push(hi);
            }
        }
        for &a in &pts {
            n += 1;
            match pm {
                Pm::RW => {
                    if probe_faults(a, true) {
                        out.push(Viol { class: "probe/rw-faults".into(), detail: format!("write to byte +{} of a read-write region faulted", a - m.addr), len: len });
                    }
                }
                Pm::RO => {
                    if !probe_faults(a, true) {
                        out.push(Viol { class: "probe/ro-writable".into(), detail: format!("write to byte +{} of a {}-byte read-only region did not fault", a - m.addr, len), len: len });
                    }
                    n += 1;
                    if probe_read_faults(a) {
                        out.push(Viol { class: "probe/ro-unreadable".into(), detail: format!("read of byte +{} of a read-only region faulted", a - m.addr), len: len });
                    }
                }
                Pm::NA => {
                    if !probe_read_faults(a) {
                        out.push(Viol { class: "probe/na-readable".into(), detail: format!("read of byte +{} of a {}-byte no-access region did not fault", a - m.addr, len), len: len });
                    }
                }
            }
        }
        n += 1;
        if !probe_read_faults(m.addr - 1) {
            out.push(Viol { class: "probe/guard-before".into(), detail: "read of the byte just before the data did not fault".into(), len: len });
        }
        if let Some(size) = log.live.get(&m.addr) {
            let end = (m.addr + size + PAGE - 1) / PAGE * PAGE;
            n += 2;
            if !(probe_read_faults(end) || probe_read_faults(end + PAGE)) {
                out.push(Viol { class: "probe/guard-after".into(), detail: "no faulting page within one page after the allocation end".into(), len: len });
            }
        }
    }
    n
}

/// After the last handle is gone: no residual locked pages, no pages with altered rights.
fn check_final(log: &AllocLog, base_lck: u64, out: &mut Vec<Viol>) {
    let lck = vm_lck_kb();
    if lck != base_lck {
        out.push(Viol { class: "residual/locked".into(), detail: format!("VmLck is {} kB after the last drop, baseline {} kB", lck, base_lck), len: usize::MAX });
    }
    let vmas = parse_maps();
    for &(addr, size) in &log.ever {
        let start = addr - PAGE;
        let end = (addr + size) / PAGE * PAGE + 2 * PAGE;
        let mut pg = start;
        while pg < end {
            if let Some((p, _)) = page_info(&vmas, pg) {
                if p != b"rw-p" {
                    out.push(Viol { class: "residual/rights".into(), detail: format!("page +{} of a released {}-byte allocation is still mapped with rights {}", (pg as isize - addr as isize) / PAGE as isize, size, String::from_utf8_lossy(p)), len: usize::MAX });
                    break;
                }
            }
            pg += PAGE;
        }
    }
    if !log.live.is_empty() {
        out.push(Viol { class: "residual/leak".into(), detail: format!("{} allocation(s) never released after the last drop", log.live.len()), len: usize::MAX });
    }
}

// ---------------------------------------------------------------------------------------
// the explorer

#[derive(Clone, Copy, PartialEq, Eq, Debug)]
pub enum Mode {
    Kernel,  // C14
    Release, // C15
    Fault,   // C19
}

pub struct Explorer {
    pub mode: Mode,
    pub depth: usize,
    pub base_len: usize,
    pub resize_targets: Vec<usize>,
    pub probe_depth: usize,
    pub nodes: u64,
    pub transitions: u64,
    pub executions: u64,
    pub probes: u64,
    pub canon: HashSet<u64>,
    pub probed: HashSet<u64>,
    pub outcomes: BTreeMap<String, u64>,
    pub fails: Vec<Value>,
    pub fail_sigs: HashSet<String>,
    pub samples: Vec<Value>,
    pub base_lck: u64,
    pub cname: String,
    pub curfile: Option<*mut u8>,
}

pub struct ExecResult {
    pub enabled: Vec<Op>,
    pub mlock_calls: u64,
}

impl Explorer {
    fn note_fail(&mut self, prop: &str, class: &str, detail: &str, ops: &[Op], k: i64, len: usize) {
        let lenclass = len_class(if len == usize::MAX { self.base_len } else { len });
        let sig = format!("{}/{}/{}/{}", prop, class, self.cname.split('<').next().unwrap_or(""), lenclass);
        *self.outcomes.entry(format!("VIOLATION:{}", class)).or_insert(0) += 1;
        if self.fail_sigs.insert(sig.clone()) && self.fails.len() < 50 {
            self.fails.push(json!({
                "signature": sig,
                "what": format!("{} len {} after {:?}{}: {}", self.cname, self.base_len, ops, if k > 0 { format!(" with mlock refused from call {}", k) } else { String::new() }, detail),
                "case": {"bin": "mcn", "container": self.cname, "base_len": self.base_len, "mode": format!("{:?}", self.mode), "mlockall": MLOCKALL.load(Ordering::SeqCst), "mprotfail": MPROT_LEG.load(Ordering::SeqCst), "mprotonce": MPROT_ONCE_LEG.load(Ordering::SeqCst), "rlimit0": RLIMIT0.load(Ordering::SeqCst), "ops": ops, "fail_from": k, "resize_targets": self.resize_targets},
            }));
        }
    }

    /// Execute one history on fresh real objects. Checks the step invariant after the last
    /// operation only (every proper prefix was checked when it was itself the last step),
    /// then drops everything and checks the final condition.
    pub fn execute<A: PmCont>(&mut self, ops: &[Op], fail_from: i64, check_all_steps: bool) -> ExecResult {
        self.executions += 1;
        if let Some(p) = self.curfile {
            let s = format!("{:?} k={}\n", ops, fail_from);
            let b = s.as_bytes();
            let n = b.len().min(1000);
            unsafe {
                std::ptr::copy_nonoverlapping(b.as_ptr(), p, n);
                *p.add(n) = 0;
            }
        }
        let log = Rc::new(RefCell::new(AllocLog::default()));
        install_observer(log.clone());
        if MPROT_ONCE_LEG.load(Ordering::SeqCst) {
            arm_mlock(0);
            arm_mprotect_once(fail_from);
        } else if MPROT_LEG.load(Ordering::SeqCst) {
            arm_mlock(0);
            arm_mprotect(fail_from);
        } else {
            arm_mlock(fail_from);
        }
        let mut w: World<A> = World::new(self.base_len);
        let mut viols: Vec<Viol> = vec![];
        let mut last_outcome = Outcome::Ok;
        let prop = match self.mode {
            Mode::Kernel => "C14",
            Mode::Release => "C15",
            Mode::Fault => "C19",
        };
        for (i, op) in ops.iter().enumerate() {
            let before_refused = MLOCK_REFUSED.load(Ordering::SeqCst);
            let oc = w.apply(*op);
            let refused_now = MLOCK_REFUSED.load(Ordering::SeqCst) > before_refused;
            let is_last = i + 1 == ops.len();
            if self.mode == Mode::Fault {
                // Result-returning API calls must not panic
                let result_returning = matches!(op, Op::Create(c) if *c != Ctor::Raw) || matches!(op, Op::Mlock(_) | Op::Munlock(_) | Op::Ro(_) | Op::Rw(_) | Op::Na(_));
                if let Outcome::Panic(p) = &oc {
                    if result_returning {
                        let ctor = if let Op::Create(c) = op { format!("panic/{:?}", c) } else { "panic".to_string() };
                        self.note_fail(prop, &ctor, &format!("a Result-returning call panicked instead of returning Err: {}", p), &ops[..=i], fail_from, usize::MAX);
                    }
                }
                if refused_now && result_returning && oc == Outcome::Ok {
                    // the call swallowed a refused lock and claims success: the type says Locked
                    // but the pages are not — reported by the kernel invariant below
                }
            }
            if is_last || check_all_steps {
                *self.outcomes.entry(format!("{}:{}", op_name(op), outcome_name(&oc))).or_insert(0) += 1;
            }
            if is_last {
                last_outcome = oc.clone();
            }
            if (is_last || check_all_steps) && self.mode != Mode::Release {
                let mut v = vec![];
                check_live(&w, &log.borrow(), self.base_lck, &mut v);
                // canonical state key for the probe schedule and the state count
                let key = h64(&(
                    w.model.iter().map(|m| m.as_ref().map(|m| (m.pm, m.lm, m.content.len()))).collect::<Vec<_>>(),
                    self.base_len,
                ));
                self.canon.insert(key);
                let pkey = h64(&(key, op_name(op)));
                if self.mode == Mode::Kernel && (ops.len() <= self.probe_depth || self.probed.insert(pkey)) {
                    self.probed.insert(pkey);
                    self.probes += check_probes(&w, &log.borrow(), &mut v);
                }
                for x in v {
                    self.note_fail(prop, &x.class, &x.detail, &ops[..=i], fail_from, x.len);
                }
            }
        }
        let enabled = w.enabled(&self.resize_targets, self.mode == Mode::Release);
        let mlock_calls = MLOCK_CALLS.load(Ordering::SeqCst);
        // end of history: drop everything (locks may be granted again for cleanup paths? no —
        // the refusal stays armed: a refused lock must not matter for unlock/wipe on drop)
        w.drop_all();
        dryoc::protected::verif::set_alloc_observer(None);
        arm_mlock(0);
        let mprot_calls = if MPROT_ONCE_LEG.load(Ordering::SeqCst) { MPROT_OP_ORD.load(Ordering::SeqCst) as u64 } else { MPROT_RW_CALLS.load(Ordering::SeqCst) };
        arm_mprotect(0);
        arm_mprotect_once(0);
        let l = log.borrow();
        if self.mode != Mode::Release {
            check_final(&l, self.base_lck, &mut viols);
        }
        if self.mode != Mode::Kernel {
            for g in &w.general_leaks {
                viols.push(Viol { class: "secret-copy-released".into(), detail: g.clone(), len: usize::MAX });
            }
            for (_, size, nz, note) in &l.dirty {
                if note.is_empty() {
                    viols.push(Viol { class: "unwiped-release".into(), detail: format!("a {}-byte allocation reached the system allocator with {} non-zero byte(s)", size, nz), len: usize::MAX });
                } else {
                    viols.push(Viol { class: "unreadable-release".into(), detail: note.clone(), len: usize::MAX });
                }
            }
            if l.allocs != l.releases {
                viols.push(Viol { class: "alloc-balance".into(), detail: format!("{} allocations but {} releases after the last drop", l.allocs, l.releases), len: usize::MAX });
            }
        }
        drop(l);
        let _ = last_outcome;
        for x in viols {
            self.note_fail(prop, &x.class, &x.detail, ops, fail_from, x.len);
        }
        // re-baseline so that one leak is reported once, at its source
        let lck = vm_lck_kb();
        if lck != self.base_lck {
            self.base_lck = lck;
        }
        let mlock_calls = if MPROT_LEG.load(Ordering::SeqCst) || MPROT_ONCE_LEG.load(Ordering::SeqCst) { mprot_calls } else { mlock_calls };
        ExecResult { enabled, mlock_calls }
    }

    pub fn explore<A: PmCont>(&mut self, prefix: &mut Vec<Op>) {
        // once a violation is on record the verdict of this unit is fixed (exit 1): a subject that
        // leaks a region per refusal makes every later kernel-view scan slower and slower, so the
        // rest of the space is abandoned after a grace period instead of being crawled through
        if !self.fails.is_empty() {
            let t0 = *EXPLORE_T0.get_or_init(std::time::Instant::now);
            if t0.elapsed().as_secs() >= 45 {
                *self.outcomes.entry("exploration-cut-short-after-violation".into()).or_insert(0) += 1;
                return;
            }
        }
        let res = self.execute::<A>(prefix, 0, false);
        self.nodes += 1;
        if !prefix.is_empty() {
            self.transitions += 1;
        }
        if (self.mode == Mode::Fault || (self.mode == Mode::Release && (MPROT_LEG.load(Ordering::SeqCst) || MPROT_ONCE_LEG.load(Ordering::SeqCst)))) && !prefix.is_empty() {
            for k in 1..=(res.mlock_calls as i64 + 1) {
                self.execute::<A>(prefix, k, true);
                self.transitions += prefix.len() as u64;
            }
        }
        if self.samples.len() < 2 && prefix.len() == self.depth {
            self.samples.push(json!({"container": self.cname, "base_len": self.base_len, "history": format!("{:?}", prefix)}));
        }
        if prefix.len() >= self.depth {
            return;
        }
        for op in res.enabled {
            prefix.push(op);
            self.explore::<A>(prefix);
            prefix.pop();
        }
    }
}

static EXPLORE_T0: std::sync::OnceLock<std::time::Instant> = std::sync::OnceLock::new();

fn len_class(n: usize) -> String {
    match n {
        0 => "len=0".into(),
        1 => "len=1".into(),
        _ if n % PAGE == 0 => "len=k*page".into(),
        _ if n % PAGE == 1 => "len=k*page+1".into(),
        _ if n < PAGE => "len<page".into(),
        _ => "len>page".into(),
    }
}

fn op_name(op: &Op) -> String {
    match op {
        Op::Create(c) => format!("Create({:?})", c),
        Op::Mlock(_) => "Mlock".into(),
        Op::Munlock(_) => "Munlock".into(),
        Op::Ro(_) => "Ro".into(),
        Op::Rw(_) => "Rw".into(),
        Op::Na(_) => "Na".into(),
        Op::Clone(_) => "Clone".into(),
        Op::Resize(_, _) => "Resize".into(),
        Op::Write(_, _) => "Write".into(),
        Op::Drop(_) => "Drop".into(),
        Op::Zero(_) => "Zero".into(),
        Op::DropUnwind(_) => "DropUnwind".into(),
        Op::CloneFrom(_) => "CloneFrom".into(),
        Op::CopyFromOtherLen(_, _) => "CopyFromOtherLen".into(),
    }
}
fn outcome_name(o: &Outcome) -> &'static str {
    match o {
        Outcome::Ok => "ok",
        Outcome::Err(_) => "err",
        Outcome::Panic(_) => "panic",
        Outcome::Skipped => "skipped",
    }
}

// ---------------------------------------------------------------------------------------
// C19: every Result-returning locked constructor outside the explorer's alphabet

type AnyBox = Box<dyn std::any::Any>;
type CtorFn = fn() -> Result<AnyBox, String>;

fn composite_ctors() -> Vec<(&'static str, CtorFn)> {
    use dryoc::keypair::KeyPair;
    use dryoc::precalc::PrecalcSecretKey;
    use dryoc::sign::SigningKeyPair;
    type LK = KeyPair<Locked<HeapByteArray<32>>, Locked<HeapByteArray<32>>>;
    type LKRO = KeyPair<LockedRO<HeapByteArray<32>>, LockedRO<HeapByteArray<32>>>;
    type LS = SigningKeyPair<Locked<HeapByteArray<32>>, Locked<HeapByteArray<64>>>;
    type LSRO = SigningKeyPair<LockedRO<HeapByteArray<32>>, LockedRO<HeapByteArray<64>>>;
    fn b<T: 'static>(r: Result<T, std::io::Error>) -> Result<AnyBox, String> {
        r.map(|x| Box::new(x) as AnyBox).map_err(|e| e.to_string())
    }
    vec![
        ("KeyPair::new_locked_keypair", || b(LK::new_locked_keypair())),
        ("KeyPair::gen_locked_keypair", || b(LK::gen_locked_keypair())),
        ("KeyPair::gen_readonly_locked_keypair", || b(LKRO::gen_readonly_locked_keypair())),
        ("KeyPair::precalculate_locked", || {
            let kp = LK::gen_locked_keypair().map_err(|e| e.to_string())?;
            let r = kp.precalculate_locked(&[9u8; 32]).map_err(|e| e.to_string())?;
            Ok(Box::new((kp, r)) as AnyBox)
        }),
        ("KeyPair::precalculate_readonly_locked", || {
            let kp = LKRO::gen_readonly_locked_keypair().map_err(|e| e.to_string())?;
            let r = kp.precalculate_readonly_locked(&[9u8; 32]).map_err(|e| e.to_string())?;
            Ok(Box::new((kp, r)) as AnyBox)
        }),
        ("PrecalcSecretKey::precalculate_locked", || b(PrecalcSecretKey::precalculate_locked(&[9u8; 32], &[7u8; 32]))),
        ("PrecalcSecretKey::precalculate_readonly_locked", || b(PrecalcSecretKey::precalculate_readonly_locked(&[9u8; 32], &[7u8; 32]))),
        ("SigningKeyPair::new_locked_keypair", || b(LS::new_locked_keypair())),
        ("SigningKeyPair::gen_locked_keypair", || b(LS::gen_locked_keypair())),
        ("SigningKeyPair::gen_readonly_locked_keypair", || b(LSRO::gen_readonly_locked_keypair())),
        ("StackByteArray::mlock", || b(StackByteArray::<32>::from(&[5u8; 32]).mlock())),
        ("StackByteArray::mprotect_readonly+mlock", || {
            let p = StackByteArray::<32>::from(&[5u8; 32]).mprotect_readonly().map_err(|e| e.to_string())?;
            b(Lock::mlock(p))
        }),
        ("HeapByteArray::new_readonly_locked", || b(HeapByteArray::<64>::new_readonly_locked())),
        ("HeapByteArray::gen_readonly_locked", || b(HeapByteArray::<64>::gen_readonly_locked())),
        ("HeapBytes::from_slice_into_readonly_locked(4097)", || HeapBytes::from_slice_into_readonly_locked(&[3u8; 4097]).map(|x| Box::new(x) as AnyBox).map_err(|e| format!("{:?}", e))),
        ("two regions: second lock refused", || {
            let a = HeapBytes::from_slice_into_locked(&[1u8; 100]).map_err(|e| format!("{:?}", e))?;
            let bb = HeapByteArray::<32>::gen_locked().map_err(|e| e.to_string())?;
            Ok(Box::new((a, bb)) as AnyBox)
        }),
    ]
}

fn run_ctor_family() -> Value {
    let mut outcomes: BTreeMap<String, u64> = BTreeMap::new();
    let mut fails: Vec<Value> = vec![];
    let mut executions = 0u64;
    let base = vm_lck_kb();
    for (name, f) in composite_ctors() {
        let mut k = 0i64;
        let mut calls_fault_free = 0u64;
        loop {
            executions += 1;
            let log = Rc::new(RefCell::new(AllocLog::default()));
            install_observer(log.clone());
            arm_mlock(k);
            let r = guarded(AssertUnwindSafe(f));
            let calls = MLOCK_CALLS.load(Ordering::SeqCst);
            let refused = MLOCK_REFUSED.load(Ordering::SeqCst);
            let oc = match &r {
                Err(_) => "panic",
                Ok(Ok(_)) => "ok",
                Ok(Err(_)) => "err",
            };
            *outcomes.entry(format!("ctor:{}{}", oc, if k == 0 { "(fault-free)" } else { "(lock refused)" })).or_insert(0) += 1;
            let mut viols: Vec<(String, String)> = vec![];
            if let Err(p) = &r {
                viols.push(("panic".into(), format!("panicked instead of returning Err: {}", p)));
            }
            if k > 0 && refused > 0 && oc == "ok" {
                viols.push(("refusal-swallowed".into(), "returned Ok although a lock request was refused".into()));
            }
            if k == 0 && oc != "ok" {
                viols.push(("fault-free-failure".into(), format!("failed without any fault: {:?}", r.as_ref().map(|x| x.as_ref().map(|_| ()).map_err(|e| e.clone())))));
            }
            drop(r);
            dryoc::protected::verif::set_alloc_observer(None);
            arm_mlock(0);
            let l = log.borrow();
            let mut v: Vec<Viol> = vec![];
            check_final(&l, base, &mut v);
            for x in v {
                viols.push((x.class, x.detail));
            }
            for (_, size, nz, note) in &l.dirty {
                viols.push(("unwiped-release".into(), if note.is_empty() { format!("a {}-byte allocation was released with {} non-zero bytes", size, nz) } else { note.clone() }));
            }
            if l.allocs != l.releases {
                viols.push(("alloc-balance".into(), format!("{} allocations, {} releases", l.allocs, l.releases)));
            }
            drop(l);
            for (class, d) in viols {
                *outcomes.entry(format!("VIOLATION:{}", class)).or_insert(0) += 1;
                fails.push(json!({"signature": format!("C19/ctor/{}/{}", class, name), "what": format!("{} with mlock refused from call {}: {}", name, k, d), "case": {"bin": "mcn", "mode": "Ctor", "ctor": name, "fail_from": k, "rlimit0": RLIMIT0.load(Ordering::SeqCst)}}));
            }
            if k == 0 {
                calls_fault_free = calls;
            }
            k += 1;
            if k as u64 > calls_fault_free + 1 {
                break;
            }
        }
    }
    json!({"container": "composite constructors", "base_len": 0, "nodes": composite_ctors().len(), "transitions": executions, "executions": executions, "probes": 0, "canonical_states": 0,
           "outcomes": outcomes, "fails": fails, "samples": [{"constructor": "KeyPair::gen_readonly_locked_keypair", "refusal_points": "k = 1..=(lock requests of the fault-free run)+1"}]})
}

// ---------------------------------------------------------------------------------------
// worker process: one (mode, container, base length, depth) unit

fn run_unit<A: PmCont>(mode: Mode, base_len: usize, depth: usize, probe_depth: usize, replay: Option<(Vec<Op>, i64)>) -> Value {
    let resize_targets: Vec<usize> = match mode {
        Mode::Release => vec![0, 1, base_len / 2, base_len.saturating_sub(1), base_len * 2, base_len + PAGE],
        // C14: an exact page multiple reached by growing (in-place growth and the guard-page
        // geometry disagree only there)
        Mode::Kernel => vec![0, 1, PAGE, PAGE + 1],
        _ => vec![0, 1, PAGE + 1],
    };
    let mut rt: Vec<usize> = vec![];
    for r in resize_targets {
        if !rt.contains(&r) {
            rt.push(r);
        }
    }
    let mut ex = Explorer {
        mode,
        depth,
        base_len,
        resize_targets: rt,
        probe_depth,
        nodes: 0,
        transitions: 0,
        executions: 0,
        probes: 0,
        canon: HashSet::new(),
        probed: HashSet::new(),
        outcomes: BTreeMap::new(),
        fails: vec![],
        fail_sigs: HashSet::new(),
        samples: vec![],
        base_lck: vm_lck_kb(),
        cname: A::cname(),
        curfile: None,
    };
    // warm up allocator / page-size lazy static so that the baseline is stable
    {
        let _ = A::build(&pattern(A::fixed().unwrap_or(base_len), 1));
    }
    ex.base_lck = vm_lck_kb();
    if let Some((ops, k)) = replay {
        ex.execute::<A>(&ops, k, true);
    } else {
        let mut prefix = vec![];
        ex.explore::<A>(&mut prefix);
    }
    json!({
        "container": ex.cname, "base_len": base_len, "nodes": ex.nodes, "transitions": ex.transitions,
        "executions": ex.executions, "probes": ex.probes, "canonical_states": ex.canon.len(),
        "outcomes": ex.outcomes, "fails": ex.fails, "samples": ex.samples,
    })
}

macro_rules! dispatch_fixed {
    ($n:expr, $mode:expr, $depth:expr, $pd:expr, $rep:expr, [$($N:literal),*]) => {
        match $n {
            $( $N => run_unit::<HeapByteArray<$N>>($mode, $N, $depth, $pd, $rep), )*
            other => panic!("no HeapByteArray instantiation for {}", other),
        }
    };
}

pub fn worker(args: &[String]) -> i32 {
    quiet_panics();
    // args: mode container len depth probe_depth
    let mode = match args[0].as_str() {
        "kernel" => Mode::Kernel,
        "release" | "release-mlockall" | "release-mprotfail" | "release-mprotonce" => Mode::Release,
        _ => Mode::Fault,
    };
    if args[0] == "release-mprotfail" {
        MPROT_LEG.store(true, Ordering::SeqCst);
    }
    if args[0] == "release-mprotonce" {
        MPROT_ONCE_LEG.store(true, Ordering::SeqCst);
    }
    if args[0] == "fault-rlimit0" {
        // environment variant: the soft RLIMIT_MEMLOCK is 0 (`ulimit -l 0`), the usual reason a
        // lock is refused in the first place; error paths that consult the limit run with it
        let mut rl = libc::rlimit { rlim_cur: 0, rlim_max: 0 };
        unsafe {
            libc::getrlimit(libc::RLIMIT_MEMLOCK, &mut rl);
            rl.rlim_cur = 0;
            libc::setrlimit(libc::RLIMIT_MEMLOCK, &rl);
        }
        RLIMIT0.store(true, Ordering::SeqCst);
    }
    if args[0] == "release-mlockall" {
        // environment variant: the whole process runs with every current and future page locked
        // (a service hardened with mlockall); what is released must still be zero
        let rc = unsafe { libc::mlockall(libc::MCL_CURRENT | libc::MCL_FUTURE) };
        if rc != 0 {
            println!("{}", json!({"nodes": 0, "transitions": 0, "executions": 0, "fails": [], "skipped": format!("mlockall refused: {}", std::io::Error::last_os_error())}));
            return 0;
        }
        MLOCKALL.store(true, Ordering::SeqCst);
    }
    let cont = args[1].as_str();
    let len: usize = args[2].parse().unwrap();
    let depth: usize = args[3].parse().unwrap();
    let pd: usize = args[4].parse().unwrap();
    let replay: Option<(Vec<Op>, i64)> = if args.len() > 5 {
        let v: Value = serde_json::from_str(&args[5]).unwrap();
        Some((serde_json::from_value(v["ops"].clone()).unwrap(), v["fail_from"].as_i64().unwrap_or(0)))
    } else {
        None
    };
    if cont == "ctors" {
        println!("{}", run_ctor_family());
        return 0;
    }
    let out = if cont == "HeapBytes" {
        run_unit::<HeapBytes>(mode, len, depth, pd, replay)
    } else {
        dispatch_fixed!(len, mode, depth, pd, replay, [1, 16, 32, 64, 4095, 4096, 4097, 8192, 8193])
    };
    println!("{}", out);
    0
}

// ---------------------------------------------------------------------------------------
// parent: spawn one worker process per unit (kernel state is per process), 16 in parallel

pub static MLOCKALL: std::sync::atomic::AtomicBool = std::sync::atomic::AtomicBool::new(false);
pub static RLIMIT0: std::sync::atomic::AtomicBool = std::sync::atomic::AtomicBool::new(false);

pub struct Unit {
    pub cont: String,
    pub len: usize,
}

fn spawn_units(mode: &str, units: &[Unit], depth: usize, pd: usize) -> Vec<Result<Value, String>> {
    use rayon::prelude::*;
    let exe = std::env::current_exe().unwrap();
    units
        .par_iter()
        .map(|u| {
            let out = std::process::Command::new(&exe)
                .args(["pmworker", mode, &u.cont, &u.len.to_string(), &depth.to_string(), &pd.to_string()])
                .output()
                .map_err(|e| e.to_string())?;
            if !out.status.success() {
                return Err(format!("worker for {} len {} died: {:?}; stderr tail: {}", u.cont, u.len, out.status, String::from_utf8_lossy(&out.stderr).lines().rev().take(5).collect::<Vec<_>>().join(" | ")));
            }
            let text = String::from_utf8_lossy(&out.stdout);
            let line = text.lines().rev().find(|l| l.starts_with('{')).ok_or("no JSON from worker")?;
            serde_json::from_str::<Value>(line).map_err(|e| e.to_string())
        })
        .collect()
}

fn absorb_units(ctx: &mut Ctx, prop: &str, results: Vec<Result<Value, String>>, units: &[Unit]) -> bool {
    let mut st = Stats::new();
    let mut canon = 0u64;
    let mut per_unit = vec![];
    let mut ok = true;
    for (r, u) in results.into_iter().zip(units) {
        match r {
            Err(e) => {
                // a worker that died is the subject crashing (abort / signal) — never silence it
                ok = false;
                st.fail(Fail {
                    check: format!("{}.pm", prop),
                    signature: format!("{}/worker-died/{}/{}", prop, u.cont.split('<').next().unwrap_or(""), len_class(u.len)),
                    what: e,
                    case: json!({"bin": "mcn", "container": u.cont, "base_len": u.len, "note": "worker process died; re-run the unit to reproduce"}),
                });
            }
            Ok(v) => {
                st.states += v["nodes"].as_u64().unwrap_or(0);
                st.transitions += v["transitions"].as_u64().unwrap_or(0);
                st.traces += v["executions"].as_u64().unwrap_or(0);
                st.evaluations += v["executions"].as_u64().unwrap_or(0);
                st.distinct += v["nodes"].as_u64().unwrap_or(0);
                st.bump("fork_probes", v["probes"].as_u64().unwrap_or(0));
                canon += v["canonical_states"].as_u64().unwrap_or(0);
                if let Some(o) = v["outcomes"].as_object() {
                    for (k, n) in o {
                        *st.outcomes.entry(k.clone()).or_insert(0) += n.as_u64().unwrap_or(0);
                    }
                }
                for f in v["fails"].as_array().cloned().unwrap_or_default() {
                    st.fail(Fail {
                        check: format!("{}.pm", prop),
                        signature: f["signature"].as_str().unwrap_or("?").to_string(),
                        what: f["what"].as_str().unwrap_or("").to_string(),
                        case: f["case"].clone(),
                    });
                }
                for s in v["samples"].as_array().cloned().unwrap_or_default() {
                    st.sample(s);
                }
                per_unit.push(json!({"container": v["container"], "base_len": v["base_len"], "histories": v["nodes"], "executions": v["executions"], "canonical_states": v["canonical_states"]}));
            }
        }
    }
    st.bump("canonical_states", canon);
    ctx.note("units", json!(per_unit));
    ctx.absorb("explorer", st);
    ok
}

fn units_for(lens_bytes: &[usize], lens_fixed: &[usize]) -> Vec<Unit> {
    let mut v = vec![];
    for &l in lens_bytes {
        v.push(Unit { cont: "HeapBytes".into(), len: l });
    }
    for &l in lens_fixed {
        v.push(Unit { cont: format!("HeapByteArray<{}>", l), len: l });
    }
    v
}

pub fn run_c14() -> i32 {
    let mut ctx = Ctx::new("C14", "model_checking");
    let depth = ctx.tier.pick(5usize, 6);
    let pd = ctx.tier.pick(3usize, 4);
    let units = units_for(&[0, 1, 16, 64, PAGE - 1, PAGE, PAGE + 1, 2 * PAGE, 2 * PAGE + 1], &[1, 16, 32, 64, 4095, 4096, 4097, 8192, 8193]);
    ctx.rule = format!("history-replay exploration: a state is the operation history that reaches it; every history of length <= {} over the operations the type system offers (7 constructors; mlock, munlock, mprotect_readonly/readwrite/noaccess, clone, resize to {{0,1,page+1}}, write, drop on up to two live handles) is executed on fresh real objects, one process per (container, length); after the last step of each history the kernel's view (/proc/self/smaps rights and `lo` flag, VmLck, guard pages) is compared with the type-state model, then everything is dropped and the final condition checked; fork probes (forbidden access must die by SIGSEGV, permitted must not) at every history of length <= {} and at the first visit of every (canonical state, operation) pair; non-trivial = every executed history (distinct by construction)", depth, pd);
    ctx.assume("Linux x86-64, 4 KiB pages; /proc/self/smaps, /proc/self/status and signal delivery are the kernel's truthful view");
    ctx.assume("at most two simultaneous handles; lengths from the stated alphabet");
    let res = spawn_units("kernel", &units, depth, pd);
    absorb_units(&mut ctx, "C14", res, &units);
    ctx.note("depth", json!(depth));
    ctx.require_outcome("Ro:ok");
    ctx.require_outcome("Na:ok");
    ctx.require_outcome("Mlock:ok");
    ctx.require_outcome("Clone:ok");
    ctx.finish()
}

pub fn run_c15() -> i32 {
    let mut ctx = Ctx::new("C15", "model_checking");
    let depth = ctx.tier.pick(5usize, 6);
    let units = units_for(&[1, 16, 64, PAGE - 1, PAGE, PAGE + 1, 3 * PAGE], &[1, 32, 64, 4096, 4097]);
    ctx.rule = format!("history-replay exploration with the allocator release observer (hook H2): every history of length <= {} over constructors (incl. the raw heap container), fill/write, resize up (x2, +1 page) and down (0, 1, len/2, len-1), clone, lock/unlock/protect transitions, explicit zeroize() of a live handle (followed by refills and resizes), drop, and drop during panic unwinding is executed on fresh real objects (7 HeapBytes lengths up to 3 pages, 5 fixed arrays; plus large regions 64 KiB..1 MiB+1 at depth 3/4); at every Release event the whole released allocation (spare capacity included) is read through process_vm_readv immediately before free() and must be all zero; alloc/release counts must balance after the last drop; non-trivial = every executed history", depth);
    ctx.assume("only the page-aligned allocator is observed (the property's scope); stack and Vec<u8> containers are outside the statement");
    let res = spawn_units("release", &units, depth, 0);
    absorb_units(&mut ctx, "C15", res, &units);
    // large regions: size thresholds in the allocator / libc (mmap threshold 128 KiB, huge sizes)
    let big = units_for(&[64 * 1024, 128 * 1024 - 1, 128 * 1024, 128 * 1024 + 1, 1024 * 1024 + 1], &[]);
    let bdepth = ctx.tier.pick(3usize, 4);
    let res = spawn_units("release", &big, bdepth, 0);
    let notes_units = ctx.notes.remove("units");
    absorb_units(&mut ctx, "C15", res, &big);
    if let Some(u) = notes_units {
        ctx.note("units_small", u);
    }
    ctx.note("large_region_depth", json!(bdepth));
    // environment variant: the same exploration in a process that called mlockall(MCL_CURRENT |
    // MCL_FUTURE) — release paths that lean on the kernel (madvise, munmap of locked pages) behave
    // differently there
    let env_units = units_for(&[1, PAGE + 1, 3 * PAGE], &[64, 4097]);
    let edepth = ctx.tier.pick(4usize, 5);
    let res = spawn_units("release-mlockall", &env_units, edepth, 0);
    let skipped: Vec<String> = res.iter().filter_map(|r| r.as_ref().ok().and_then(|v| v["skipped"].as_str().map(|s| s.to_string()))).collect();
    let keep = ctx.notes.remove("units");
    absorb_units(&mut ctx, "C15", res, &env_units);
    ctx.notes.remove("units");
    if let Some(u) = keep {
        ctx.note("units", u);
    }
    // environment variant: mprotect(PROT_READ|PROT_WRITE) is carried out but reported as refused
    // from the k-th request on, for every k (release paths that make wiping depend on that
    // call's verdict)
    let mp_units = units_for(&[1, 64, PAGE + 1], &[64]);
    let mdepth = ctx.tier.pick(3usize, 4);
    let res = spawn_units("release-mprotfail", &mp_units, mdepth, 0);
    let keep2 = ctx.notes.remove("units");
    absorb_units(&mut ctx, "C15", res, &mp_units);
    ctx.notes.remove("units");
    if let Some(u) = keep2 {
        ctx.note("units", u);
    }
    // environment variant: exactly one protection change is refused (not performed): the first
    // mprotect request of the t-th Ro/Rw/Na transition of the history, for every t
    let mo_units = units_for(&[1, PAGE + 1], &[64, 4097]);
    let modepth = ctx.tier.pick(3usize, 5);
    let res = spawn_units("release-mprotonce", &mo_units, modepth, 0);
    let keep3 = ctx.notes.remove("units");
    absorb_units(&mut ctx, "C15", res, &mo_units);
    ctx.notes.remove("units");
    if let Some(u) = keep3 {
        ctx.note("units", u);
    }
    ctx.note("one_refused_protection_change_environment", json!({"depth": modepth, "units": mo_units.iter().map(|u| format!("{} len {}", u.cont, u.len)).collect::<Vec<_>>(), "fault": "the first mprotect request inside the t-th mprotect_readonly / mprotect_readwrite / mprotect_noaccess transition is refused without being performed (-1/ENOMEM), for every t; all later requests are carried out"}));
    ctx.note("mprotect_reports_failure_environment", json!({"depth": mdepth, "units": mp_units.iter().map(|u| format!("{} len {}", u.cont, u.len)).collect::<Vec<_>>(), "fault": "k-th and later mprotect(PROT_READ|PROT_WRITE) requests are performed but return -1/EACCES, for every k"}));
    ctx.note("mlockall_environment", json!({"depth": edepth, "units": env_units.iter().map(|u| format!("{} len {}", u.cont, u.len)).collect::<Vec<_>>(), "skipped": skipped}));
    ctx.note("depth", json!(depth));
    ctx.require_outcome("Resize:ok");
    ctx.require_outcome("Drop:ok");
    ctx.finish()
}

pub fn run_c19() -> i32 {
    let mut ctx = Ctx::new("C19", "fault_enumeration");
    let depth = ctx.tier.pick(4usize, 5);
    let mut units = units_for(&[0, 1, 32, PAGE + 1], &[1, 32, 4097]);
    units.push(Unit { cont: "ctors".into(), len: 0 });
    ctx.rule = format!("fault enumeration over environment answers: for every operation history of length <= {} (same alphabet as C14) and every k from 1 to (number of mlock requests of the fault-free run)+1, the history is re-executed with the k-th and all later mlock calls refused (errno EAGAIN / ENOMEM / EPERM chosen by k mod 3; in-process interposer; a caller that retries a refused lock forever is stopped after 20 000 refusals and reported); Result-returning calls must return Err (never panic), surviving handles must satisfy the C14 kernel invariant after every step, and after dropping everything the C14 final condition and the C15 release condition must hold; plus 16 composite Result-returning constructors (KeyPair / SigningKeyPair / PrecalcSecretKey locked constructors, StackByteArray::mlock, read-only locked constructors, two-region sequences) x every k; non-trivial = every (history, k) execution", depth);
    ctx.assume("only mlock is refused; mprotect and allocation failures are not injected");
    let res = spawn_units("fault", &units, depth, 0);
    absorb_units(&mut ctx, "C19", res, &units);
    // environment variant: the same enumeration in a process whose soft RLIMIT_MEMLOCK is 0
    let rl_units = {
        let mut v = units_for(&[1, PAGE + 1], &[32, 4097]);
        v.push(Unit { cont: "ctors".into(), len: 0 });
        v
    };
    let rdepth = ctx.tier.pick(3usize, 4);
    let res = spawn_units("fault-rlimit0", &rl_units, rdepth, 0);
    let keep = ctx.notes.remove("units");
    absorb_units(&mut ctx, "C19", res, &rl_units);
    ctx.notes.remove("units");
    if let Some(u) = keep {
        ctx.note("units", u);
    }
    ctx.note("rlimit_memlock_zero_environment", json!({"depth": rdepth, "units": rl_units.iter().map(|u| format!("{} len {}", u.cont, u.len)).collect::<Vec<_>>()}));
    ctx.note("depth", json!(depth));
    ctx.finish()
}

pub fn replay(case: &Value) -> Option<String> {
    let exe = std::env::current_exe().unwrap();
    if case["mode"] == "Ctor" {
        let out = std::process::Command::new(&exe).args(["pmworker", if case["rlimit0"] == true { "fault-rlimit0" } else { "fault" }, "ctors", "0", "0", "0"]).output().ok()?;
        if !out.status.success() {
            return Some(format!("worker died: {:?}", out.status));
        }
        let text = String::from_utf8_lossy(&out.stdout);
        let line = text.lines().rev().find(|l| l.starts_with('{'))?;
        let v: Value = serde_json::from_str(line).ok()?;
        let want = case["ctor"].as_str().unwrap_or("");
        let hits: Vec<String> = v["fails"].as_array().cloned().unwrap_or_default().iter().filter(|f| f["case"]["ctor"] == want).map(|f| f["signature"].as_str().unwrap_or("").to_string()).collect();
        return if hits.is_empty() { None } else { Some(hits.join(", ")) };
    }
    let mode = match case["mode"].as_str().unwrap_or("Kernel") {
        "Kernel" => "kernel",
        "Release" => if case["mlockall"] == true { "release-mlockall" } else if case["mprotfail"] == true { "release-mprotfail" } else if case["mprotonce"] == true { "release-mprotonce" } else { "release" },
        _ => if case["rlimit0"] == true { "fault-rlimit0" } else { "fault" },
    };
    let arg = json!({"ops": case["ops"], "fail_from": case["fail_from"]}).to_string();
    let out = std::process::Command::new(&exe)
        .args(["pmworker", mode, case["container"].as_str().unwrap(), &case["base_len"].to_string(), "0", "99", &arg])
        .output()
        .ok()?;
    if !out.status.success() {
        return Some(format!("worker died: {:?}", out.status));
    }
    let text = String::from_utf8_lossy(&out.stdout);
    let line = text.lines().rev().find(|l| l.starts_with('{'))?;
    let v: Value = serde_json::from_str(line).ok()?;
    let fails = v["fails"].as_array().cloned().unwrap_or_default();
    if fails.is_empty() {
        None
    } else {
        Some(fails.iter().map(|f| f["signature"].as_str().unwrap_or("").to_string()).collect::<Vec<_>>().join(", "))
    }
}
