//! C16 — byte and serde encodings round-trip and enforce fixed lengths (E-prod).
//! Built in the nightly configuration so that heap / locked containers are included.

use crate::aead::{self, Fam, Keys};
use crate::core::*;
use crate::sodium;
use dryoc::dryocbox::DryocBox;
use dryoc::dryocsecretbox::DryocSecretBox;
use dryoc::kdf::Kdf;
use dryoc::keypair::KeyPair;
use dryoc::kx::Session;
use dryoc::pwhash::{Config, PwHash};
use dryoc::sign::{SignedMessage, SigningKeyPair};
use dryoc::types::*;
use serde::de::value::{BytesDeserializer, Error as VErr, SeqDeserializer};
use serde::de::DeserializeOwned;
use serde::Serialize;
use serde_json::json;
use std::panic::AssertUnwindSafe;

type SB<const N: usize> = StackByteArray<N>;

fn json_rt<T: Serialize + DeserializeOwned>(v: &T) -> Result<T, String> {
    let s = serde_json::to_string(v).map_err(|e| e.to_string())?;
    serde_json::from_str(&s).map_err(|e| e.to_string())
}
fn bin_rt<T: Serialize + DeserializeOwned>(v: &T) -> Result<T, String> {
    let s = bincode::serialize(v).map_err(|e| e.to_string())?;
    bincode::deserialize(&s).map_err(|e| e.to_string())
}

fn ser<T: Serialize>(x: &T) -> Vec<u8> {
    bincode::serialize(x).unwrap_or_default()
}
/// `clone()` reproduces the object and `clone_from()` turns any other object of the type into
/// it (compared through the serialised form, not through the type's own `==`)
fn clone_ok<T: Clone + Serialize>(a: &T, other: &T) -> bool {
    let c = a.clone();
    let mut d = other.clone();
    d.clone_from(a);
    ser(&c) == ser(a) && ser(&d) == ser(a) && ser(other) != ser(a)
}
/// the type's `==` agrees with equality of the serialised forms
fn eq_sound<T: PartialEq + Serialize>(a: &T, b: &T) -> bool {
    (a == b) == (ser(a) == ser(b)) && a == a && b == b
}

fn fail(st: &mut Stats, obj: &str, class: &str, what: String) {
    st.fail(Fail { check: "C16.codec".into(), signature: format!("C16/{}/{}", obj, class), what, case: json!({"note": "deterministic: re-run bin/check C16 to reproduce", "object": obj, "class": class}) });
}

/// every way of decoding `count` bytes into a fixed-length T; returns per-codec verdicts:
/// Ok(Some(bytes)) decoded, Ok(None) refused, Err(panic)
fn decode_fixed<T: DeserializeOwned + Bytes>(bytes: &[u8]) -> Vec<(&'static str, Result<Option<Vec<u8>>, String>)> {
    let mut out: Vec<(&'static str, Result<Option<Vec<u8>>, String>)> = vec![];
    let b = bytes.to_vec();
    let j = serde_json::to_string(&b).unwrap();
    out.push(("json-array", guarded(AssertUnwindSafe(|| serde_json::from_str::<T>(&j).ok().map(|t| t.as_slice().to_vec())))));
    let bc = bincode::serialize(&serde_bytes_like(&b)).unwrap();
    out.push(("bincode-bytes", guarded(AssertUnwindSafe(|| bincode::deserialize::<T>(&bc).ok().map(|t| t.as_slice().to_vec())))));
    out.push(("serde-BytesDeserializer", guarded(AssertUnwindSafe(|| T::deserialize(BytesDeserializer::<VErr>::new(&b)).ok().map(|t| t.as_slice().to_vec())))));
    out.push(("serde-SeqDeserializer(exact hint)", guarded(AssertUnwindSafe(|| T::deserialize(SeqDeserializer::<_, VErr>::new(b.clone().into_iter())).ok().map(|t| t.as_slice().to_vec())))));
    out.push(("serde-SeqDeserializer(no hint)", guarded(AssertUnwindSafe(|| T::deserialize(SeqDeserializer::<_, VErr>::new(b.clone().into_iter().filter(|_| true))).ok().map(|t| t.as_slice().to_vec())))));
    out
}

/// bincode encodes `serialize_bytes` as u64 length + bytes, which is also how it encodes Vec<u8>
fn serde_bytes_like(b: &[u8]) -> Vec<u8> {
    b.to_vec()
}

fn fixed_family<T: DeserializeOwned + Bytes, const N: usize>(st: &mut Stats, tname: &str) {
    for count in 0..=2 * N {
        let bytes: Vec<u8> = (0..count).map(|i| (i as u8).wrapping_mul(5).wrapping_add(1)).collect();
        for (codec, r) in decode_fixed::<T>(&bytes) {
            let (oc, bad): (&str, Option<String>) = match &r {
                Err(p) => ("panic", Some(format!("panicked: {}", p))),
                Ok(Some(v)) if count == N && v == &bytes => ("exact-length-decoded", None),
                Ok(Some(v)) => ("wrong-length-accepted", Some(format!("decoded {} element(s) into a {}-byte value {} ({})", count, N, short(v), if count < N { "padded" } else { "truncated" }))),
                Ok(None) if count == N => ("exact-length-refused", Some("an encoding of exactly the right length was refused".into())),
                Ok(None) => ("wrong-length-refused", None),
            };
            st.eval(&(tname, codec, count), true, oc);
            if let Some(b) = bad {
                let dir = if count < N { "short" } else if count > N { "long" } else { "exact" };
                fail(st, tname, &format!("{}/{}/{}", oc, codec, dir), format!("{} via {} with {} element(s): {}", tname, codec, count, b));
            }
        }
    }
}

fn try_from_family<const N: usize>(st: &mut Stats) {
    for count in 0..=2 * N {
        let bytes: Vec<u8> = vec![7u8; count];
        let r = guarded(AssertUnwindSafe(|| SB::<N>::try_from(&bytes[..]).ok().map(|t| t.to_vec())));
        let ok = match &r {
            Ok(Some(v)) => count == N && v == &bytes,
            Ok(None) => count != N,
            Err(_) => false,
        };
        st.eval(&("tryfrom", N, count), true, if ok { "TryFrom-length-enforced" } else { "TryFrom-wrong" });
        if !ok {
            fail(st, &format!("StackByteArray<{}>", N), "TryFrom", format!("TryFrom<&[u8]> with {} bytes: {:?}", count, r));
        }
    }
}

fn aead_mac(w: &[u8]) -> [u8; 16] {
    w[..16].try_into().unwrap()
}

pub fn run() -> i32 {
    sodium::init();
    quiet_panics();
    let mut ctx = Ctx::new("C16", "exploration");
    let seed = ctx.seed;
    let maxlen = ctx.tier.pick(300usize, 1100);
    ctx.rule = format!("full products: message-bearing objects (DryocSecretBox, DryocBox plain/sealed, SignedMessage) x every payload length 0..={} x containers (stack+Vec{}) x codecs (to_bytes/from_bytes, to_vec, into_vec, into_parts/from_parts, JSON, bincode): decoded == original, still decrypts/verifies, to_bytes == libsodium's combined layout; key objects (KeyPair, SigningKeyPair, kx::Session, Kdf, PwHash+Config, from_slices) x value alphabet x JSON/bincode; wrong-length family: every fixed-length container type x element counts 0..=2N x 5 decoders (JSON array, bincode bytes, serde BytesDeserializer, SeqDeserializer with exact and with absent size hint) and TryFrom<&[u8]>: count != N must be refused, never padded/truncated, never panic; non-trivial = cell executed", maxlen, if cfg!(feature = "nightly") { ", HeapBytes/HeapByteArray/Locked" } else { "" });
    ctx.assume("Vec<u8> used as a 'fixed-length' field type cannot enforce a length at decode time (it is not a fixed-length type); recorded as an observation, not alarmed");

    // message-bearing objects
    let units: Vec<usize> = (0..=maxlen).collect();
    let st = par_units(&units, |&len, st| {
        let ks = Keys::make(seed, 3, 2);
        let m = cval(seed, 2 + len % 2, len);
        let r = guarded(AssertUnwindSafe(|| -> Vec<(String, bool)> {
            let mut v: Vec<(String, bool)> = vec![];
            // secret box
            let wire = aead::ref_wire(Fam::Sb, &ks, &m);
            let b: DryocSecretBox<SB<16>, Vec<u8>> = DryocSecretBox::encrypt(&m, &ks.n, &ks.k);
            v.push(("secretbox/to_bytes==libsodium".into(), b.to_bytes::<Vec<u8>>() == wire && b.to_vec() == wire && b.clone().into_vec() == wire));
            let fb: DryocSecretBox<SB<16>, Vec<u8>> = DryocSecretBox::from_bytes(&wire).unwrap();
            v.push(("secretbox/from_bytes".into(), fb == b && fb.decrypt_to_vec(&ks.n, &ks.k).ok().as_deref() == Some(&m[..])));
            let (t, d) = b.clone().into_parts();
            let fp = DryocSecretBox::from_parts(t, d);
            v.push(("secretbox/parts".into(), fp == b));
            // the slice-copying constructors
            let wd: DryocSecretBox<SB<16>, Vec<u8>> = DryocSecretBox::with_data_and_mac(SB::<16>::from(&aead_mac(&wire)), &wire[16..]);
            v.push(("secretbox/with_data_and_mac".into(), wd == b && wd.to_vec() == wire));
            let w0: DryocSecretBox<SB<16>, Vec<u8>> = DryocSecretBox::with_data(&wire[16..]);
            let mut zero_tagged = vec![0u8; 16];
            zero_tagged.extend_from_slice(&wire[16..]);
            v.push(("secretbox/with_data".into(), w0.to_vec() == zero_tagged && w0.decrypt_to_vec(&ks.n, &ks.k).is_err()));
            for (c, rt) in [("json", json_rt(&b)), ("bincode", bin_rt(&b))] {
                v.push((format!("secretbox/{}", c), rt.as_ref().map(|x| x == &b && x.decrypt_to_vec(&ks.n, &ks.k).ok().as_deref() == Some(&m[..])).unwrap_or(false)));
                // the decoded object must still emit libsodium's layout through every emitter
                v.push((format!("secretbox/{}->layout", c), rt.as_ref().map(|x| x.to_vec() == wire && x.to_bytes::<Vec<u8>>() == wire && x.clone().into_vec() == wire).unwrap_or(false)));
                if let Ok(x) = rt {
                    v.push((format!("secretbox/{}->into_vec(no clone)", c), x.into_vec() == wire));
                }
            }
            // emitters must not depend on the spare capacity of the caller's buffer
            for spare in [0usize, 1, 15, 16, 17, 64] {
                let (t, d) = b.clone().into_parts();
                let mut roomy = Vec::with_capacity(d.len() + spare);
                roomy.extend_from_slice(&d);
                let fp = DryocSecretBox::from_parts(t, roomy);
                v.push((format!("secretbox/from_parts(spare capacity {})->layout", spare), fp.to_vec() == wire && fp.clone().into_vec() == wire && fp.into_vec() == wire));
            }
            let bv: DryocSecretBox<Vec<u8>, Vec<u8>> = DryocSecretBox::encrypt(&m, &ks.n, &ks.k);
            for (c, rt) in [("json", json_rt(&bv)), ("bincode", bin_rt(&bv))] {
                v.push((format!("secretbox[vec]/{}", c), rt.as_ref().map(|x| x == &bv && x.to_vec() == wire).unwrap_or(false)));
            }
            // box
            let wire = aead::ref_wire(Fam::Bx, &ks, &m);
            let b: dryoc::dryocbox::VecBox = DryocBox::encrypt_to_vecbox(&m, &SB::<24>::from(&ks.n), &SB::<32>::from(&ks.pk_b), &ks.sk_a).unwrap();
            v.push(("box/to_bytes==libsodium".into(), b.to_bytes::<Vec<u8>>() == wire && b.to_vec() == wire));
            let fb: dryoc::dryocbox::VecBox = DryocBox::from_bytes(&wire).unwrap();
            v.push(("box/from_bytes".into(), fb == b));
            let (t, d, e) = b.clone().into_parts();
            v.push(("box/parts".into(), DryocBox::from_parts(t, d, e) == b));
            for (c, rt) in [("json", json_rt(&b)), ("bincode", bin_rt(&b))] {
                v.push((format!("box/{}", c), rt.as_ref().map(|x| x == &b && x.decrypt_to_vec(&SB::<24>::from(&ks.n), &SB::<32>::from(&ks.pk_a), &ks.sk_b).ok().as_deref() == Some(&m[..])).unwrap_or(false)));
                v.push((format!("box/{}->layout", c), rt.as_ref().map(|x| x.to_vec() == wire && x.to_bytes::<Vec<u8>>() == wire).unwrap_or(false)));
            }
            for spare in [0usize, 16, 64] {
                let (t, d, e) = b.clone().into_parts();
                let mut roomy = Vec::with_capacity(d.len() + spare);
                roomy.extend_from_slice(&d);
                let fp = DryocBox::from_parts(t, roomy, e);
                v.push((format!("box/from_parts(spare capacity {})->layout", spare), fp.to_vec() == wire));
            }
            // sealed box
            let wire = aead::ref_wire(Fam::Seal, &ks, &m);
            let sbx: dryoc::dryocbox::VecBox = DryocBox::from_sealed_bytes(&wire).unwrap();
            let kp: KeyPair<SB<32>, SB<32>> = KeyPair::from_slices(&ks.pk_b, &ks.sk_b).unwrap();
            v.push(("sealedbox/to_bytes==libsodium".into(), sbx.to_vec() == wire && sbx.unseal_to_vec(&kp).ok().as_deref() == Some(&m[..])));
            for (c, rt) in [("json", json_rt(&sbx)), ("bincode", bin_rt(&sbx))] {
                v.push((format!("sealedbox/{}", c), rt.as_ref().map(|x| x == &sbx && x.to_vec() == wire && x.unseal_to_vec(&kp).ok().as_deref() == Some(&m[..])).unwrap_or(false)));
            }
            // signed message
            let (spk, ssk) = sodium::sign_seed_keypair(&ks.k);
            let skp: SigningKeyPair<SB<32>, SB<64>> = SigningKeyPair::from_slices(&spk, &ssk).unwrap();
            let sm: SignedMessage<SB<64>, Vec<u8>> = skp.sign(m.clone()).unwrap();
            let wire = sodium::sign_combined(&m, &ssk);
            v.push(("signed/to_bytes==libsodium".into(), sm.to_bytes::<Vec<u8>>() == wire && sm.to_vec() == wire));
            let fb: SignedMessage<SB<64>, Vec<u8>> = SignedMessage::from_bytes(&wire).unwrap();
            v.push(("signed/from_bytes".into(), fb == sm && fb.verify(&skp.public_key).is_ok()));
            let (s1, m1) = sm.clone().into_parts();
            v.push(("signed/parts".into(), SignedMessage::from_parts(s1, m1) == sm));
            for (c, rt) in [("json", json_rt(&sm)), ("bincode", bin_rt(&sm))] {
                v.push((format!("signed/{}", c), rt.as_ref().map(|x| x == &sm && x.verify(&skp.public_key).is_ok()).unwrap_or(false)));
                v.push((format!("signed/{}->layout", c), rt.as_ref().map(|x| x.to_vec() == wire && x.to_bytes::<Vec<u8>>() == wire).unwrap_or(false)));
            }
            v
        }));
        match r {
            Err(p) => {
                st.eval(&("msgobj", len), true, "panic");
                fail(st, "message-objects", "panic", format!("payload length {}: {}", len, p));
            }
            Ok(v) => {
                for (name, ok) in v {
                    st.eval(&(&name, len), true, if ok { "roundtrip-ok" } else { "roundtrip-bad" });
                    if !ok {
                        fail(st, &name, "roundtrip", format!("{} at payload length {} does not round-trip / match libsodium's layout", name, len));
                    }
                }
            }
        }
        if len == 17 {
            st.sample(json!({"payload_len": 17, "objects": ["DryocSecretBox", "DryocBox", "sealed DryocBox", "SignedMessage"], "codecs": ["to_bytes/from_bytes", "to_vec", "into_vec", "into_parts/from_parts", "json", "bincode"]}));
        }
    });
    ctx.absorb("message-objects", st);

    // key objects
    let units: Vec<usize> = (0..5).collect();
    let st = par_units(&units, |&ki, st| {
        let r = guarded(AssertUnwindSafe(|| -> Vec<(String, bool)> {
            let mut v: Vec<(String, bool)> = vec![];
            let s: [u8; 32] = karr(seed ^ 0x16, ki);
            let kp: KeyPair<SB<32>, SB<32>> = KeyPair::from_seed(&s);
            let same = |a: &KeyPair<SB<32>, SB<32>>, b: &KeyPair<SB<32>, SB<32>>| a.public_key == b.public_key && a.secret_key == b.secret_key;
            for (c, rt) in [("json", json_rt(&kp)), ("bincode", bin_rt(&kp))] {
                v.push((format!("KeyPair/{}", c), rt.as_ref().map(|x| same(x, &kp)).unwrap_or(false)));
            }
            let fs: KeyPair<SB<32>, SB<32>> = KeyPair::from_slices(kp.public_key.as_slice(), kp.secret_key.as_slice()).unwrap();
            v.push(("KeyPair/from_slices".into(), same(&fs, &kp)));
            for n in [0usize, 31, 33, 64] {
                v.push((format!("KeyPair/from_slices-wrong-len-{}", n), KeyPair::<SB<32>, SB<32>>::from_slices(&vec![1u8; n], kp.secret_key.as_slice()).is_err() && KeyPair::<SB<32>, SB<32>>::from_slices(kp.public_key.as_slice(), &vec![1u8; n]).is_err()));
            }
            let kv: KeyPair<Vec<u8>, Vec<u8>> = KeyPair::from_seed(&s);
            for (c, rt) in [("json", json_rt(&kv)), ("bincode", bin_rt(&kv))] {
                v.push((format!("KeyPair[vec]/{}", c), rt.as_ref().map(|x| x.public_key == kv.public_key && x.secret_key == kv.secret_key).unwrap_or(false)));
            }
            let skp: SigningKeyPair<SB<32>, SB<64>> = SigningKeyPair::from_seed(&s);
            for (c, rt) in [("json", json_rt(&skp)), ("bincode", bin_rt(&skp))] {
                v.push((format!("SigningKeyPair/{}", c), rt.as_ref().map(|x| x == &skp).unwrap_or(false)));
            }
            for n in [0usize, 31, 63, 65] {
                v.push((format!("SigningKeyPair/from_slices-wrong-len-{}", n), SigningKeyPair::<SB<32>, SB<64>>::from_slices(&vec![1u8; n], skp.secret_key.as_slice()).is_err() && SigningKeyPair::<SB<32>, SB<64>>::from_slices(skp.public_key.as_slice(), &vec![1u8; n]).is_err()));
            }
            // kx session
            let kp2: KeyPair<SB<32>, SB<32>> = KeyPair::from_seed(&[ki as u8 + 1; 32]);
            let sess: Session<SB<32>> = Session::new_client(&kp, &kp2.public_key).unwrap();
            for (c, rt) in [("json", json_rt(&sess)), ("bincode", bin_rt(&sess))] {
                v.push((format!("Session/{}", c), rt.as_ref().map(|x| x.rx_as_slice() == sess.rx_as_slice() && x.tx_as_slice() == sess.tx_as_slice()).unwrap_or(false)));
            }
            // every byte view of a session names the same two keys (and the right one of the two)
            {
                let want = crate::sodium::kx_client(kp.public_key.as_array(), kp.secret_key.as_array(), kp2.public_key.as_array());
                let views = sess.rx_as_array()[..] == *sess.rx_as_slice() && sess.tx_as_array()[..] == *sess.tx_as_slice() && Some((*sess.rx_as_array(), *sess.tx_as_array())) == want && sess.rx_as_slice() != sess.tx_as_slice();
                let (prx, ptx) = sess.clone().into_parts();
                let parts = Some((*prx.as_array(), *ptx.as_array())) == want;
                let sess_v: Session<Vec<u8>> = Session::new_client(&kp, &kp2.public_key).unwrap();
                let (vrx, vtx) = sess_v.clone().into_parts();
                let vec_views = sess_v.rx_as_slice() == sess.rx_as_slice() && sess_v.tx_as_slice() == sess.tx_as_slice() && vrx == sess.rx_as_slice() && vtx == sess.tx_as_slice();
                v.push(("Session/views-agree".into(), views && parts && vec_views));
            }
            // kdf
            let kdf: Kdf<SB<32>, SB<8>> = Kdf::from_parts(s.into(), karr::<8>(seed, ki).into());
            for (c, rt) in [("json", json_rt(&kdf)), ("bincode", bin_rt(&kdf))] {
                v.push((format!("Kdf/{}", c), rt.as_ref().map(|x| x.derive_subkey_to_vec(7).ok() == kdf.derive_subkey_to_vec(7).ok() && x.clone().into_parts() == kdf.clone().into_parts()).unwrap_or(false)));
            }
            // pwhash
            let ph: PwHash<Vec<u8>, Vec<u8>> = PwHash::hash_with_salt(&b"pw".to_vec(), kval(seed, ki, 16 + ki), Config::interactive().with_opslimit(1).with_memlimit(8192).with_salt_length(16 + ki).with_hash_length(32 + ki)).unwrap();
            for (c, rt) in [("json", json_rt(&ph)), ("bincode", bin_rt(&ph))] {
                v.push((format!("PwHash/{}", c), rt.as_ref().map(|x| x.to_string() == ph.to_string() && x.verify(&b"pw".to_vec()).is_ok() && x.verify(&b"pW".to_vec()).is_err()).unwrap_or(false)));
            }
            let (h, sa, cfg) = ph.clone().into_parts();
            v.push(("PwHash/parts".into(), PwHash::from_parts(h, sa, cfg).to_string() == ph.to_string()));
            let fsx: PwHash<Vec<u8>, Vec<u8>> = PwHash::from_string(&ph.to_string()).unwrap();
            v.push(("PwHash/string".into(), fsx.to_string() == ph.to_string() && fsx.verify(&b"pw".to_vec()).is_ok()));
            // the decoded object is the same object: hash, salt and every Config field
            v.push(("PwHash/string->same-object".into(), ser(&fsx) == ser(&ph) && format!("{:?}", fsx.clone().into_parts().2) == format!("{:?}", ph.clone().into_parts().2)));
            // Clone / clone_from / PartialEq of every object kind: a second object of the same type
            // that differs in exactly one field each
            {
                let s2: [u8; 32] = karr(seed ^ 0x17, (ki + 1) % 5);
                let kdf_ctx: Kdf<SB<32>, SB<8>> = Kdf::from_parts(s.into(), [0x5au8; 8].into());
                let kdf_key: Kdf<SB<32>, SB<8>> = Kdf::from_parts(s2.into(), karr::<8>(seed, ki).into());
                v.push(("Kdf/clone+clone_from".into(), clone_ok(&kdf, &kdf_ctx) && clone_ok(&kdf, &kdf_key) && clone_ok(&kdf_ctx, &kdf)));
                v.push(("Kdf/derive-after-clone_from".into(), {
                    let mut d = kdf_ctx.clone();
                    d.clone_from(&kdf);
                    d.derive_subkey_to_vec(9).ok() == kdf.derive_subkey_to_vec(9).ok()
                }));
                let kvk: Kdf<Vec<u8>, Vec<u8>> = Kdf::from_parts(s.to_vec(), vec![1u8; 8]);
                let kvk2: Kdf<Vec<u8>, Vec<u8>> = Kdf::from_parts(s.to_vec(), vec![2u8; 8]);
                v.push(("Kdf[vec]/clone+clone_from".into(), clone_ok(&kvk, &kvk2) && clone_ok(&kvk2, &kvk)));
                let kpo: KeyPair<SB<32>, SB<32>> = KeyPair::from_seed(&s2);
                let kp_mix: KeyPair<SB<32>, SB<32>> = KeyPair { public_key: kp.public_key.clone(), secret_key: kpo.secret_key.clone() };
                v.push(("KeyPair/clone+clone_from".into(), clone_ok(&kp, &kpo) && clone_ok(&kp, &kp_mix)));
                v.push(("KeyPair/eq".into(), eq_sound(&kp, &kpo) && eq_sound(&kp, &kp_mix) && eq_sound(&kp, &kp.clone())));
                let skpo: SigningKeyPair<SB<32>, SB<64>> = SigningKeyPair::from_seed(&s2);
                let skp_mix: SigningKeyPair<SB<32>, SB<64>> = SigningKeyPair { public_key: skp.public_key.clone(), secret_key: skpo.secret_key.clone() };
                v.push(("SigningKeyPair/clone+clone_from".into(), clone_ok(&skp, &skpo) && clone_ok(&skp, &skp_mix)));
                v.push(("SigningKeyPair/eq".into(), eq_sound(&skp, &skpo) && eq_sound(&skp, &skp_mix) && eq_sound(&skp, &skp.clone())));
                let sess2: Session<SB<32>> = Session::new_server(&kp, &kp2.public_key).unwrap();
                v.push(("Session/clone+clone_from".into(), clone_ok(&sess, &sess2)));
                let ph2: PwHash<Vec<u8>, Vec<u8>> = PwHash::from_parts(ph.clone().into_parts().0, vec![3u8; 16 + ki], ph.clone().into_parts().2);
                v.push(("PwHash/clone+clone_from".into(), clone_ok(&ph, &ph2)));
                // messages: same signature / other message, other signature / same message
                let sm: dryoc::sign::SignedMessage<SB<64>, Vec<u8>> = skp.sign(b"message one".to_vec()).unwrap();
                let sm_o: dryoc::sign::SignedMessage<SB<64>, Vec<u8>> = skp.sign(b"message two".to_vec()).unwrap();
                let sm_mix = dryoc::sign::SignedMessage::<SB<64>, Vec<u8>>::from_parts(sm.clone().into_parts().0, b"message two".to_vec());
                let sm_mix2 = dryoc::sign::SignedMessage::<SB<64>, Vec<u8>>::from_parts(sm_o.clone().into_parts().0, b"message one".to_vec());
                v.push(("SignedMessage/clone+clone_from".into(), clone_ok(&sm, &sm_o) && clone_ok(&sm, &sm_mix)));
                let sm_prefix = dryoc::sign::SignedMessage::<SB<64>, Vec<u8>>::from_parts(sm.clone().into_parts().0, b"message on".to_vec());
                let sm_empty = dryoc::sign::SignedMessage::<SB<64>, Vec<u8>>::from_parts(sm.clone().into_parts().0, vec![]);
                let sm_longer = dryoc::sign::SignedMessage::<SB<64>, Vec<u8>>::from_parts(sm.clone().into_parts().0, b"message one!".to_vec());
                v.push(("SignedMessage/eq".into(), eq_sound(&sm, &sm_o) && eq_sound(&sm, &sm_mix) && eq_sound(&sm, &sm_mix2) && eq_sound(&sm, &sm.clone()) && eq_sound(&sm, &sm_prefix) && eq_sound(&sm_prefix, &sm) && eq_sound(&sm, &sm_empty) && eq_sound(&sm_empty, &sm) && eq_sound(&sm, &sm_longer)));
                let ks = Keys::make(seed, 3, 2);
                let b1: DryocSecretBox<SB<16>, Vec<u8>> = DryocSecretBox::encrypt(&b"payload one".to_vec(), &ks.n, &ks.k);
                let b2: DryocSecretBox<SB<16>, Vec<u8>> = DryocSecretBox::encrypt(&b"payload two".to_vec(), &ks.n, &ks.k);
                let b_mix = DryocSecretBox::<SB<16>, Vec<u8>>::from_parts(b1.clone().into_parts().0, b2.clone().into_parts().1);
                v.push(("DryocSecretBox/clone+clone_from".into(), clone_ok(&b1, &b2) && clone_ok(&b1, &b_mix)));
                let b_prefix = DryocSecretBox::<SB<16>, Vec<u8>>::from_parts(b1.clone().into_parts().0, b1.clone().into_parts().1[..5].to_vec());
                let b_empty = DryocSecretBox::<SB<16>, Vec<u8>>::from_parts(b1.clone().into_parts().0, vec![]);
                v.push(("DryocSecretBox/eq".into(), eq_sound(&b1, &b2) && eq_sound(&b1, &b_mix) && eq_sound(&b1, &b1.clone()) && eq_sound(&b1, &b_prefix) && eq_sound(&b_prefix, &b1) && eq_sound(&b1, &b_empty) && eq_sound(&b_empty, &b1)));
                let x1: DryocBox<SB<32>, SB<16>, Vec<u8>> = DryocBox::encrypt(&b"payload one".to_vec(), &SB::<24>::from(&ks.n), &SB::<32>::from(&ks.pk_b), &SB::<32>::from(&ks.sk_a)).unwrap();
                let x2: DryocBox<SB<32>, SB<16>, Vec<u8>> = DryocBox::encrypt(&b"payload two".to_vec(), &SB::<24>::from(&ks.n), &SB::<32>::from(&ks.pk_b), &SB::<32>::from(&ks.sk_a)).unwrap();
                v.push(("DryocBox/clone+clone_from".into(), clone_ok(&x1, &x2)));
                v.push(("DryocBox/eq".into(), eq_sound(&x1, &x2) && eq_sound(&x1, &x1.clone())));
                // a sealed box and the same box without its ephemeral public key are different objects
                let sealed: DryocBox<SB<32>, SB<16>, Vec<u8>> = DryocBox::seal(&b"sealed payload".to_vec(), &SB::<32>::from(&ks.pk_b)).unwrap();
                let (st_, sd_, _epk) = sealed.clone().into_parts();
                let stripped: DryocBox<SB<32>, SB<16>, Vec<u8>> = DryocBox::from_parts(st_.clone(), sd_.clone(), None);
                let other_epk: DryocBox<SB<32>, SB<16>, Vec<u8>> = DryocBox::from_parts(st_, sd_, Some(SB::<32>::from(&ks.pk_a)));
                v.push(("DryocBox[sealed]/eq".into(), eq_sound(&sealed, &stripped) && eq_sound(&stripped, &sealed) && eq_sound(&sealed, &other_epk) && eq_sound(&sealed, &sealed.clone())));
                v.push(("DryocBox[sealed]/clone+clone_from".into(), clone_ok(&sealed, &stripped) && clone_ok(&stripped, &sealed)));
            }
            // stack arrays
            macro_rules! arr {
                ($n:literal) => {{
                    let a: SB<$n> = karr::<$n>(seed, ki).into();
                    for (c, rt) in [("json", json_rt(&a)), ("bincode", bin_rt(&a))] {
                        v.push((format!("StackByteArray<{}>/{}", $n, c), rt.as_ref().map(|x| x == &a).unwrap_or(false)));
                    }
                }};
            }
            arr!(8);
            arr!(16);
            arr!(24);
            arr!(32);
            arr!(64);
            v
        }));
        match r {
            Err(p) => {
                st.eval(&("keyobj", ki), true, "panic");
                fail(st, "key-objects", "panic", format!("key alphabet member {}: {}", K_NAMES[ki], p));
            }
            Ok(v) => {
                for (name, ok) in v {
                    st.eval(&(&name, ki), true, if ok { "roundtrip-ok" } else { "roundtrip-bad" });
                    if !ok {
                        fail(st, &name, "roundtrip", format!("{} (key {}) does not round-trip", name, K_NAMES[ki]));
                    }
                }
            }
        }
    });
    ctx.absorb("key-objects", st);
    // password-hash objects over every accepted salt length x hash lengths around the
    // variable-length-hash boundaries, and every preset / builder-made Config on its own
    {
        let sls: Vec<usize> = (8..=64).collect();
        let st = par_units(&sls, |&sl, st| {
            for hl in [16usize, 17, 32, 33, 64, 65, 128] {
                let r = guarded(AssertUnwindSafe(|| -> Vec<(String, bool)> {
                    let mut v = vec![];
                    let cfg = Config::interactive().with_opslimit(1).with_memlimit(8192).with_salt_length(sl).with_hash_length(hl);
                    let ph: PwHash<Vec<u8>, Vec<u8>> = PwHash::hash_with_salt(&b"pw".to_vec(), kval(seed, 3, sl), cfg.clone()).unwrap();
                    for (c, rt) in [("json", json_rt(&ph)), ("bincode", bin_rt(&ph))] {
                        v.push((format!("PwHash/{}", c), rt.as_ref().map(|x| x.to_string() == ph.to_string() && x.clone().into_parts().0 == ph.clone().into_parts().0 && x.verify(&b"pw".to_vec()).is_ok() && x.verify(&b"pW".to_vec()).is_err()).unwrap_or(false)));
                    }
                    for (c, rt) in [("json", json_rt(&cfg)), ("bincode", bin_rt(&cfg))] {
                        v.push((format!("Config/{}", c), rt.as_ref().map(|x| format!("{:?}", x) == format!("{:?}", cfg)).unwrap_or(false)));
                    }
                    let (h, sa, c2) = ph.clone().into_parts();
                    let fp = PwHash::from_parts(h, sa, c2);
                    v.push(("PwHash/parts".into(), fp.to_string() == ph.to_string() && fp.verify(&b"pw".to_vec()).is_ok()));
                    v
                }));
                match r {
                    Err(p) => {
                        st.eval(&("pwhash-obj", sl, hl), true, "panic");
                        fail(st, "pwhash-objects", "panic", format!("salt length {} hash length {}: {}", sl, hl, p));
                    }
                    Ok(v) => {
                        for (name, ok) in v {
                            st.eval(&(&name, sl, hl), true, if ok { "roundtrip-ok" } else { "roundtrip-bad" });
                            if !ok {
                                fail(st, &name, "roundtrip", format!("{} with salt length {} and hash length {} does not round-trip / verify", name, sl, hl));
                            }
                        }
                    }
                }
            }
        });
        ctx.absorb("pwhash-objects", st);
        let mut st = Stats::new();
        for (name, cfg) in [("interactive", Config::interactive()), ("default", Config::default()), ("moderate", Config::moderate()), ("sensitive", Config::sensitive())] {
            for (c, rt) in [("json", json_rt(&cfg)), ("bincode", bin_rt(&cfg))] {
                let ok = rt.as_ref().map(|x| format!("{:?}", x) == format!("{:?}", cfg)).unwrap_or(false);
                st.eval(&("config-preset", name, c), true, if ok { "roundtrip-ok" } else { "roundtrip-bad" });
                if !ok {
                    fail(&mut st, &format!("Config::{}/{}", name, c), "roundtrip", format!("Config::{}() does not round-trip through {}", name, c));
                }
            }
        }
        ctx.absorb("config-presets", st);
    }
    // the zero-initialised constructors every decoder and generator starts from: a
    // fixed-length container has exactly N zero bytes, a resizable one starts empty
    {
        use dryoc::types::{NewByteArray, NewBytes};
        let mut st = Stats::new();
        macro_rules! fixed {
            ($($n:literal),*) => {$(
                let cells: Vec<(&str, Vec<u8>)> = vec![
                    ("StackByteArray", <SB<$n> as NewByteArray<$n>>::new_byte_array().as_slice().to_vec()),
                    ("[u8; N]", <[u8; $n] as NewByteArray<$n>>::new_byte_array().to_vec()),
                    ("Vec<u8>", <Vec<u8> as NewByteArray<$n>>::new_byte_array()),
                ];
                for (name, got) in cells {
                    let ok = got == vec![0u8; $n];
                    st.eval(&("new_byte_array", name, $n), true, if ok { "constructor-length-ok" } else { "constructor-length-bad" });
                    if !ok {
                        fail(&mut st, &format!("{}::new_byte_array<{}>", name, $n), "length", format!("{}::new_byte_array::<{}>() returned {} bytes ({})", name, $n, got.len(), short(&got)));
                    }
                }
            )*};
        }
        fixed!(1, 8, 16, 24, 32, 33, 64, 65);
        // value-preserving conversions between the container kinds
        macro_rules! conv {
            ($($n:literal),*) => {$(
                {
                    let arr: [u8; $n] = std::array::from_fn(|i| (i as u8).wrapping_mul(37).wrapping_add(11));
                    // each conversion under its own guard: a panic is that conversion's failure
                    let g = |f: &dyn Fn() -> Vec<u8>| guarded(AssertUnwindSafe(f)).unwrap_or_else(|p| format!("panic: {}", p).into_bytes());
                    let mut cells: Vec<(&str, Vec<u8>)> = vec![
                        ("StackByteArray::from(&[u8; N])", g(&|| SB::<$n>::from(&arr).as_slice().to_vec())),
                        ("StackByteArray::from([u8; N])", g(&|| SB::<$n>::from(arr).as_slice().to_vec())),
                        ("StackByteArray::try_from(&[u8])", g(&|| SB::<$n>::try_from(&arr[..]).map(|x| x.as_slice().to_vec()).unwrap_or_default())),
                    ];
                    #[cfg(feature = "nightly")]
                    {
                        use dryoc::protected::{HeapByteArray, HeapBytes};
                        cells.push(("HeapByteArray::from(&[u8; N])", g(&|| HeapByteArray::<$n>::from(&arr).as_slice().to_vec())));
                        cells.push(("HeapByteArray::from([u8; N])", g(&|| HeapByteArray::<$n>::from(arr).as_slice().to_vec())));
                        cells.push(("HeapByteArray::from(StackByteArray)", g(&|| HeapByteArray::<$n>::from(SB::<$n>::from(&arr)).as_slice().to_vec())));
                        cells.push(("HeapByteArray::try_from(&[u8])", g(&|| HeapByteArray::<$n>::try_from(&arr[..]).map(|x| x.as_slice().to_vec()).unwrap_or_default())));
                        cells.push(("HeapBytes::from(&[u8])", g(&|| HeapBytes::from(&arr[..]).as_slice().to_vec())));
                    }
                    for (name, got) in cells {
                        let ok = got == arr.to_vec();
                        st.eval(&("conversion", name, $n), true, if ok { "constructor-length-ok" } else { "constructor-length-bad" });
                        if !ok {
                            fail(&mut st, &format!("{}<{}>", name, $n), "conversion", format!("{} of a {}-byte value gives {}", name, $n, short(&got)));
                        }
                    }
                }
            )*};
        }
        conv!(1, 8, 16, 24, 32, 33, 64, 65);
        let e = <Vec<u8> as NewBytes>::new_bytes();
        st.eval(&("new_bytes", "Vec<u8>"), true, if e.is_empty() { "constructor-length-ok" } else { "constructor-length-bad" });
        if !e.is_empty() {
            fail(&mut st, "Vec<u8>::new_bytes", "length", format!("Vec::new_bytes() returned {} bytes", e.len()));
        }
        ctx.absorb("constructors", st);
    }

    // wrong-length family
    let mut st = Stats::new();
    fixed_family::<SB<8>, 8>(&mut st, "StackByteArray<8>");
    fixed_family::<SB<16>, 16>(&mut st, "StackByteArray<16>");
    fixed_family::<SB<24>, 24>(&mut st, "StackByteArray<24>");
    fixed_family::<SB<32>, 32>(&mut st, "StackByteArray<32>");
    fixed_family::<SB<64>, 64>(&mut st, "StackByteArray<64>");
    try_from_family::<8>(&mut st);
    try_from_family::<16>(&mut st);
    try_from_family::<24>(&mut st);
    try_from_family::<32>(&mut st);
    try_from_family::<64>(&mut st);
    // a fixed-length field inside a struct
    for count in 0..=64usize {
        let pk: Vec<u8> = vec![9u8; count];
        let j = json!({"public_key": pk, "secret_key": vec![1u8; 32]}).to_string();
        let r = guarded(AssertUnwindSafe(|| serde_json::from_str::<KeyPair<SB<32>, SB<32>>>(&j).is_ok()));
        let ok = r == Ok(count == 32);
        st.eval(&("kp-field", count), true, if ok { if count == 32 { "exact-length-decoded" } else { "wrong-length-refused" } } else { "wrong-length-accepted" });
        if !ok {
            fail(&mut st, "KeyPair.public_key", &format!("wrong-length-accepted/json-array/{}", if count < 32 { "short" } else { "long" }), format!("KeyPair JSON with a {}-element public_key was accepted: {:?}", count, r));
        }
    }
    #[cfg(feature = "nightly")]
    nightly::wrong_length(&mut st);
    st.sample(json!({"type": "StackByteArray<32>", "element_counts": "0..=64", "decoders": ["json-array", "bincode-bytes", "serde-BytesDeserializer", "serde-SeqDeserializer(exact hint)", "serde-SeqDeserializer(no hint)", "TryFrom<&[u8]>"]}));
    ctx.absorb("wrong-length", st);

    #[cfg(feature = "nightly")]
    {
        let units: Vec<usize> = (0..=maxlen).collect();
        let st = par_units(&units, |&len, st| nightly::containers(st, seed, len));
        ctx.absorb("heap-locked-containers", st);
    }
    ctx.require_outcome("roundtrip-ok");
    ctx.require_outcome("wrong-length-refused");
    ctx.require_outcome("exact-length-decoded");
    ctx.finish()
}

#[cfg(feature = "nightly")]
mod nightly {
    use super::*;
    use dryoc::protected::*;

    pub fn wrong_length(st: &mut Stats) {
        fixed_family::<Locked<HeapByteArray<16>>, 16>(st, "Locked<HeapByteArray<16>>");
        fixed_family::<Locked<HeapByteArray<32>>, 32>(st, "Locked<HeapByteArray<32>>");
        for count in 0..=64usize {
            let bytes = vec![3u8; count];
            let r = guarded(AssertUnwindSafe(|| HeapByteArray::<32>::try_from(&bytes[..]).ok().map(|t| t.as_slice().to_vec())));
            let ok = matches!(&r, Ok(Some(v)) if count == 32 && v == &bytes) || matches!(&r, Ok(None) if count != 32);
            st.eval(&("heap-tryfrom", count), true, if ok { "TryFrom-length-enforced" } else { "TryFrom-wrong" });
            if !ok {
                fail(st, "HeapByteArray<32>", "TryFrom", format!("TryFrom<&[u8]> with {} bytes: {:?}", count, r));
            }
        }
    }

    fn var_rt<T: Serialize + DeserializeOwned + Bytes>(st: &mut Stats, tname: &str, v: &T, len: usize) {
        let want = v.as_slice().to_vec();
        for (codec, r) in [
            ("json", guarded(AssertUnwindSafe(|| json_rt(v).map(|x| x.as_slice().to_vec())))),
            ("bincode", guarded(AssertUnwindSafe(|| bin_rt(v).map(|x| x.as_slice().to_vec())))),
            ("serde-SeqDeserializer(exact hint)", guarded(AssertUnwindSafe(|| T::deserialize(SeqDeserializer::<_, VErr>::new(want.clone().into_iter())).map(|x| x.as_slice().to_vec()).map_err(|e| e.to_string())))),
            ("serde-SeqDeserializer(no hint)", guarded(AssertUnwindSafe(|| T::deserialize(SeqDeserializer::<_, VErr>::new(want.clone().into_iter().filter(|_| true))).map(|x| x.as_slice().to_vec()).map_err(|e| e.to_string())))),
            ("serde-BytesDeserializer", guarded(AssertUnwindSafe(|| T::deserialize(BytesDeserializer::<VErr>::new(&want)).map(|x| x.as_slice().to_vec()).map_err(|e| e.to_string())))),
        ] {
            let ok = matches!(&r, Ok(Ok(x)) if x == &want);
            st.eval(&(tname, codec, len), true, if ok { "roundtrip-ok" } else { "roundtrip-bad" });
            if !ok {
                let class = match &r {
                    Err(_) => "panic",
                    Ok(Err(_)) => "refused",
                    _ => "differs",
                };
                let lc = if len == 0 { "len=0" } else if len == 1 { "len=1" } else { "len>1" };
                fail(st, tname, &format!("{}/{}/{}", class, codec, lc), format!("{} of {} bytes via {}: {:?}", tname, len, codec, r.as_ref().map(|x| x.as_ref().map(|b| short(b)))));
            }
        }
    }

    pub fn containers(st: &mut Stats, seed: u64, len: usize) {
        let m = cval(seed, 3, len);
        // variable-length heap / locked containers
        let hb = guarded(AssertUnwindSafe(|| {
            let mut h = HeapBytes::default();
            h.resize(len, 0);
            h.as_mut_slice().copy_from_slice(&m);
            h
        }));
        if let Ok(h) = hb {
            var_rt(st, "HeapBytes", &h, len);
        }
        if let Ok(l) = HeapBytes::from_slice_into_locked(&m) {
            var_rt(st, "Locked<HeapBytes>", &l, len);
        }
        // From<&[u8]> for HeapBytes (used by every from_bytes parser with heap data)
        let r = guarded(AssertUnwindSafe(|| HeapBytes::from(&m[..]).as_slice().to_vec()));
        let ok = r.as_ref().map(|x| x == &m).unwrap_or(false);
        st.eval(&("heapbytes-from", len), true, if ok { "roundtrip-ok" } else { "roundtrip-bad" });
        if !ok {
            fail(st, "HeapBytes", if r.is_err() { "From<&[u8]>/panic" } else { "From<&[u8]>/differs" }, format!("HeapBytes::from(&[u8]) with {} bytes: {:?}", len, r.map(|x| short(&x))));
        }
        // objects with heap / locked containers
        let ks = Keys::make(seed, 3, 2);
        let r = guarded(AssertUnwindSafe(|| -> Vec<(String, bool)> {
            let mut v = vec![];
            let wire = aead::ref_wire(Fam::Sb, &ks, &m);
            let b: DryocSecretBox<HeapByteArray<16>, HeapBytes> = DryocSecretBox::encrypt(&m, &ks.n, &ks.k);
            v.push(("secretbox[heap]/to_bytes==libsodium".into(), b.to_vec() == wire && b.to_bytes::<HeapBytes>().as_slice() == &wire[..]));
            let lb: dryoc::dryocsecretbox::protected::LockedBox = DryocSecretBox::encrypt(&m, &ks.n, &ks.k);
            v.push(("secretbox[locked]/to_bytes==libsodium".into(), lb.to_vec() == wire && lb.decrypt::<Locked<HeapBytes>, _, _>(&ks.n, &ks.k).map(|x| x.as_slice() == &m[..]).unwrap_or(false)));
            let fb: Result<DryocSecretBox<HeapByteArray<16>, HeapBytes>, _> = DryocSecretBox::from_bytes(&wire);
            v.push(("secretbox[heap]/from_bytes".into(), fb.map(|x| x.to_vec() == wire).unwrap_or(false)));
            let wire = aead::ref_wire(Fam::Bx, &ks, &m);
            let bb: DryocBox<HeapByteArray<32>, HeapByteArray<16>, HeapBytes> = DryocBox::encrypt(&m, &ks.n, &ks.pk_b, &ks.sk_a).unwrap();
            v.push(("box[heap]/to_bytes==libsodium".into(), bb.to_vec() == wire));
            let lbb: dryoc::dryocbox::protected::LockedBox = DryocBox::encrypt(&m, &ks.n, &ks.pk_b, &ks.sk_a).unwrap();
            v.push(("box[locked]/to_bytes==libsodium".into(), lbb.to_vec() == wire && lbb.decrypt::<_, _, _, Locked<HeapBytes>>(&ks.n, &ks.pk_a, &ks.sk_b).map(|x| x.as_slice() == &m[..]).unwrap_or(false)));
            v
        }));
        match r {
            Err(p) => {
                st.eval(&("heapobj", len), true, "panic");
                fail(st, "heap-objects", if len == 0 { "panic/len=0" } else { "panic/len>0" }, format!("payload length {}: {}", len, p));
            }
            Ok(v) => {
                for (name, ok) in v {
                    st.eval(&(&name, len), true, if ok { "roundtrip-ok" } else { "roundtrip-bad" });
                    if !ok {
                        fail(st, &name, "roundtrip", format!("{} at payload length {}", name, len));
                    }
                }
            }
        }
        if len == 5 {
            st.sample(json!({"payload_len": 5, "containers": ["HeapBytes", "Locked<HeapBytes>", "HeapByteArray<N>", "Locked<HeapByteArray<N>>"], "codecs": ["json", "bincode", "SeqDeserializer(exact/no hint)", "BytesDeserializer", "From<&[u8]>"]}));
        }
    }
}
