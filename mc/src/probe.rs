//! C18 — transcript emitter: the same exhaustively enumerated corpus is computed by this
//! binary in every build configuration (stable default, nightly, nightly+simd_backend);
//! conf/c18.py compares the transcripts section by section.

use crate::aead::{self, Keys};
use crate::c05;
use crate::c08;
use crate::core::*;
use crate::sodium;
use dryoc::classic::crypto_auth::crypto_auth;
use dryoc::classic::crypto_core::{crypto_scalarmult, crypto_scalarmult_base};
use dryoc::classic::crypto_generichash::crypto_generichash;
use dryoc::classic::crypto_hash::crypto_hash_sha512;
use dryoc::classic::crypto_kdf::crypto_kdf_derive_from_key;
use dryoc::classic::crypto_kx::*;
use dryoc::classic::crypto_pwhash::{crypto_pwhash, PasswordHashAlgorithm};
use dryoc::classic::crypto_sign::*;
use serde_json::{json, Value};

type Emit<'a> = &'a mut dyn FnMut(String, Vec<u8>);

fn sections(tier: Tier, seed: u64) -> Vec<(&'static str, Box<dyn Fn(Emit)>)> {
    let gh_max = tier.pick(700usize, 1300);
    let max = tier.pick(600usize, 1100);
    let mut v: Vec<(&'static str, Box<dyn Fn(Emit)>)> = vec![];
    v.push(("blake2b-grid", Box::new(move |e| {
        for outlen in 16..=64usize {
            for keylen in std::iter::once(0usize).chain(16..=64) {
                let key = if keylen == 0 { None } else { Some(kval(seed ^ 0xb2, 2 + (keylen + outlen) % 3, keylen)) };
                for len in 0..=gh_max {
                    if (outlen + keylen + len) % 3 != 0 && !(len % 64 <= 1 || len % 128 == 127) {
                        continue;
                    }
                    let m = cval(seed, 2 + (len + outlen) % 2, len);
                    let mut o = vec![0u8; outlen];
                    crypto_generichash(&mut o, &m, key.as_deref()).unwrap();
                    e(format!("o{}k{}l{}", outlen, keylen, len), o);
                }
            }
        }
    })));
    v.push(("sha512-hmac", Box::new(move |e| {
        for len in 0..=max {
            let m = cval(seed, 3, len);
            let mut d = [0u8; 64];
            crypto_hash_sha512(&mut d, &m);
            e(format!("sha512/{}", len), d.to_vec());
            let mut mac = [0u8; 32];
            crypto_auth(&mut mac, &m, &karr(seed ^ 7, 3));
            e(format!("hmac/{}", len), mac.to_vec());
        }
    })));
    v.push(("chunkings", Box::new(move |e| {
        let p = c08::Params::new(seed);
        let ifaces = [c08::IFACES[1], c08::IFACES[5], c08::IFACES[7], c08::IFACES[8], c08::IFACES[12], c08::IFACES[14]];
        for i in ifaces {
            let is_sign = matches!(i, c08::Iface::SignClassic);
            let n2 = if is_sign { 64 } else { 300 };
            for n in 0..=n2 {
                let msg: Vec<u8> = (0..n).map(|x| (x % 251) as u8 ^ 0x5a).collect();
                for a in 0..=n {
                    let r = c08::incremental(i, &p, &msg, &[a]).unwrap_or_else(|p| p.into_bytes());
                    e(format!("{:?}/{}/{}", i, n, a), r);
                }
                if n <= if is_sign { 16 } else { 64 } {
                    for a in 0..=n {
                        for b in a..=n {
                            let r = c08::incremental(i, &p, &msg, &[a, b]).unwrap_or_else(|p| p.into_bytes());
                            e(format!("{:?}/{}/{}/{}", i, n, a, b), r);
                        }
                    }
                }
            }
        }
    })));
    // caller-shaped arguments of the classic generic hash: the output buffer handed to final /
    // one-shot need not have the length given to init (libsodium writes what final is asked for);
    // verdict and bytes must not depend on the backend
    v.push(("generichash-mismatched-lengths", Box::new(move |e| {
        use dryoc::classic::crypto_generichash::*;
        let key: [u8; 32] = karr(seed ^ 0x77, 3);
        for keyed in [false, true] {
            for mlen in [0usize, 1, 127, 128, 129, 300] {
                let msg = cval(seed, 3, mlen);
                for a in [16usize, 20, 32, 48, 64] {
                    for b in [1usize, 15, 16, 20, 32, 48, 63, 64] {
                        let r = guarded(std::panic::AssertUnwindSafe(|| {
                            let mut st = crypto_generichash_init(if keyed { Some(&key[..]) } else { None }, a).map_err(|_| "init-err".to_string())?;
                            crypto_generichash_update(&mut st, &msg);
                            let mut out = vec![0xC3u8; b];
                            crypto_generichash_final(st, &mut out).map_err(|_| "final-err".to_string())?;
                            Ok::<Vec<u8>, String>(out)
                        }));
                        let rec = match r {
                            Ok(Ok(o)) => o,
                            Ok(Err(x)) => x.into_bytes(),
                            Err(_) => b"panic".to_vec(),
                        };
                        e(format!("{}/{}/{}/{}", keyed, mlen, a, b), rec);
                    }
                }
            }
        }
    })));
    v.push(("argon2", Box::new(move |e| {
        let pwd = cval(seed, 3, 8);
        let salt = kval(seed ^ 9, 3, 16);
        for typ in [1, 2] {
            let alg = || if typ == 1 { PasswordHashAlgorithm::Argon2i13 } else { PasswordHashAlgorithm::Argon2id13 };
            for outlen in (16..=tier.pick(300usize, 1100)).step_by(1) {
                let mut o = vec![0u8; outlen];
                crypto_pwhash(&mut o, &pwd, &salt, 1, 8192, alg()).unwrap();
                e(format!("G1/{}/{}", typ, outlen), o);
            }
            for m in 8..=tier.pick(64usize, 129) {
                for t in 1..=3u64 {
                    let mut o = vec![0u8; 32];
                    crypto_pwhash(&mut o, &pwd, &salt, t, m * 1024, alg()).unwrap();
                    e(format!("G2/{}/{}/{}", typ, m, t), o);
                }
            }
            for pl in [0usize, 1, 63, 64, 65, 128, 300] {
                for sl in [8usize, 16, 17, 64] {
                    let mut o = vec![0u8; 32];
                    crypto_pwhash(&mut o, &cval(seed, 2, pl), &kval(seed, 3, sl), 1, 8192, alg()).unwrap();
                    e(format!("G3/{}/{}/{}", typ, pl, sl), o);
                }
            }
        }
    })));
    v.push(("kdf", Box::new(move |e| {
        for ki in 0..5 {
            let key: [u8; 32] = karr(seed ^ 0x12, ki);
            for len in 16..=64usize {
                for id in [0u64, 1, 255, 1 << 32, u64::MAX] {
                    for c in [[0u8; 8], *b"hello123"] {
                        let mut o = vec![0u8; len];
                        crypto_kdf_derive_from_key(&mut o, id, &c, &key).unwrap();
                        e(format!("{}/{}/{}/{}", ki, len, id, hx(&c)), o);
                    }
                }
            }
        }
    })));
    v.push(("curve25519", Box::new(move |e| {
        let ss = c05::scalars(seed, Tier::Quick);
        let ps = c05::points(seed, Tier::Quick);
        for (si, n) in ss.iter().enumerate() {
            let mut q = [0u8; 32];
            crypto_scalarmult_base(&mut q, n);
            e(format!("base/{}", si), q.to_vec());
            if si % 8 == 0 {
                for (pi, p) in ps.iter().enumerate() {
                    let mut q = [0u8; 32];
                    crypto_scalarmult(&mut q, n, p);
                    e(format!("mult/{}/{}", si, pi), q.to_vec());
                }
            }
        }
        for a in 0..8u64 {
            for b in 0..8u64 {
                let ska: [u8; 32] = prand(seed, "probe-sk", a, 32).try_into().unwrap();
                let skb: [u8; 32] = prand(seed, "probe-sk", b + 100, 32).try_into().unwrap();
                let (mut pka, mut pkb) = ([0u8; 32], [0u8; 32]);
                crypto_scalarmult_base(&mut pka, &ska);
                crypto_scalarmult_base(&mut pkb, &skb);
                let (mut rx, mut tx) = ([0u8; 32], [0u8; 32]);
                crypto_kx_client_session_keys(&mut rx, &mut tx, &pka, &ska, &pkb).unwrap();
                e(format!("kx/{}/{}", a, b), [rx, tx].concat());
            }
        }
    })));
    v.push(("ed25519", Box::new(move |e| {
        for si in 0..5usize {
            let (pk, sk) = crypto_sign_seed_keypair(&karr(seed ^ 0x5ee, si));
            e(format!("kp/{}", si), [&pk[..], &sk[..]].concat());
            for len in 0..=tier.pick(130usize, 300) {
                let m = cval(seed, 3, len);
                let mut sig = [0u8; 64];
                crypto_sign_detached(&mut sig, &m, &sk).unwrap();
                e(format!("pure/{}/{}", si, len), sig.to_vec());
                let mut st = crypto_sign_init();
                crypto_sign_update(&mut st, &m);
                let mut psig = [0u8; 64];
                crypto_sign_final_create(st, &mut psig, &sk).unwrap();
                e(format!("ph/{}/{}", si, len), psig.to_vec());
            }
        }
    })));
    v.push(("large-inputs", Box::new(move |e| {
        let p = c08::Params::new(seed);
        let sizes: [usize; 8] = [4096, 8191, 8192, 8193, 16384, 16385, 65536, 65537];
        for &n in &sizes {
            let m = cval(seed, 3, n);
            for (outlen, key) in [(32usize, None), (64, None), (32, Some(&p.key32[..])), (64, Some(&p.key32[..16]))] {
                let mut o = vec![0u8; outlen];
                crypto_generichash(&mut o, &m, key).unwrap();
                e(format!("gh/{}/{}/{}", n, outlen, key.map(|k| k.len()).unwrap_or(0)), o);
            }
            let mut d = [0u8; 64];
            crypto_hash_sha512(&mut d, &m);
            e(format!("sha512/{}", n), d.to_vec());
        }
        // streaming with large pieces: all 3-piece sequences over the large alphabet
        let alpha: [usize; 7] = [0, 1, 128, 8191, 8192, 8193, 16385];
        for i in [c08::IFACES[1], c08::IFACES[4], c08::IFACES[6], c08::IFACES[7], c08::IFACES[8], c08::IFACES[12]] {
            for a in alpha {
                for b in alpha {
                    for c in alpha {
                        let n = a + b + c;
                        let msg: Vec<u8> = (0..n).map(|x| (x % 251) as u8 ^ 0x5a).collect();
                        let r = c08::incremental(i, &p, &msg, &[a, a + b]).unwrap_or_else(|p| p.into_bytes());
                        e(format!("{:?}/{}/{}/{}", i, a, b, c), r);
                    }
                }
            }
        }
    })));
    v.push(("boxes", Box::new(move |e| {
        let ks = Keys::make(seed, 3, 2);
        for len in 0..=130usize {
            let m = cval(seed, 2, len);
            for enc in aead::ENC.iter() {
                e(format!("{}/{}", enc.0, len), (enc.2)(&ks, &m));
            }
        }
    })));
    v
}

/// container leg (nightly builds only): the same operations through stack, Vec, heap and
/// locked containers must yield identical bytes
#[cfg(feature = "nightly")]
fn container_leg(seed: u64) -> (u64, Vec<String>) {
    use dryoc::dryocbox::DryocBox;
    use dryoc::dryocsecretbox::DryocSecretBox;
    use dryoc::generichash::GenericHash;
    use dryoc::kdf::Kdf;
    use dryoc::protected::*;
    use dryoc::types::*;
    let mut n = 0u64;
    let mut bad = vec![];
    let ks = Keys::make(seed, 3, 2);
    for len in 0..=130usize {
        let m = cval(seed, 3, len);
        let mut check = |name: &str, outs: Vec<Vec<u8>>| {
            n += outs.len() as u64;
            if outs.iter().any(|o| o != &outs[0]) {
                bad.push(format!("{} at len {}: containers disagree", name, len));
            }
        };
        let hm = {
            let mut h = HeapBytes::default();
            h.resize(len, 0);
            h.as_mut_slice().copy_from_slice(&m);
            h
        };
        let lm = HeapBytes::from_slice_into_locked(&m).unwrap();
        let hk = HeapByteArray::<32>::from(&ks.k);
        let lk = HeapByteArray::<32>::from_slice_into_locked(&ks.k).unwrap();
        let lkro = HeapByteArray::<32>::from_slice_into_readonly_locked(&ks.k).unwrap();
        let sb1: DryocSecretBox<StackByteArray<16>, Vec<u8>> = DryocSecretBox::encrypt(&m, &ks.n, &ks.k);
        let sb2: DryocSecretBox<Vec<u8>, Vec<u8>> = DryocSecretBox::encrypt(&m.to_vec(), &ks.n.to_vec(), &ks.k.to_vec());
        let sb3: DryocSecretBox<HeapByteArray<16>, HeapBytes> = DryocSecretBox::encrypt(&hm, &HeapByteArray::<24>::from(&ks.n), &hk);
        let sb4: dryoc::dryocsecretbox::protected::LockedBox = DryocSecretBox::encrypt(&lm, &ks.n, &lk);
        let sb5: dryoc::dryocsecretbox::protected::LockedBox = DryocSecretBox::encrypt(&lm, &ks.n, &lkro);
        check("DryocSecretBox::encrypt", vec![sb1.to_vec(), sb2.to_vec(), sb3.to_vec(), sb4.to_vec(), sb5.to_vec()]);
        let d1: Vec<u8> = sb1.decrypt(&ks.n, &ks.k).unwrap();
        let d3: HeapBytes = sb3.decrypt(&ks.n, &hk).unwrap();
        let d4: Locked<HeapBytes> = sb4.decrypt(&ks.n, &lk).unwrap();
        check("DryocSecretBox::decrypt", vec![d1, d3.as_slice().to_vec(), d4.as_slice().to_vec(), m.clone()]);
        let b1: dryoc::dryocbox::VecBox = DryocBox::encrypt_to_vecbox(&m, &StackByteArray::<24>::from(&ks.n), &StackByteArray::<32>::from(&ks.pk_b), &ks.sk_a).unwrap();
        let b3: DryocBox<HeapByteArray<32>, HeapByteArray<16>, HeapBytes> = DryocBox::encrypt(&hm, &ks.n, &HeapByteArray::<32>::from(&ks.pk_b), &HeapByteArray::<32>::from(&ks.sk_a)).unwrap();
        let b4: dryoc::dryocbox::protected::LockedBox = DryocBox::encrypt(&lm, &ks.n, &ks.pk_b, &HeapByteArray::<32>::from_slice_into_locked(&ks.sk_a).unwrap()).unwrap();
        check("DryocBox::encrypt", vec![b1.to_vec(), b3.to_vec(), b4.to_vec()]);
        let g1: Vec<u8> = GenericHash::<32, 32>::hash_to_vec(&m, Some(&ks.k)).unwrap();
        let g3: HeapByteArray<32> = GenericHash::<32, 32>::hash(&hm, Some(&hk)).unwrap();
        let g4: Locked<HeapByteArray<32>> = GenericHash::<32, 32>::hash(&lm, Some(&lk)).unwrap();
        check("GenericHash::hash", vec![g1, g3.as_slice().to_vec(), g4.as_slice().to_vec()]);
        // secret stream through every container kind (object API)
        {
            use dryoc::dryocstream::{DryocStream, Pull, Push, Tag};
            let st0 = dryoc::classic::crypto_secretstream_xchacha20poly1305::State::verif_from_parts(ks.k, [1, 0, 0, 0, 5, 5, 5, 5, 5, 5, 5, 5]);
            let tag = [Tag::MESSAGE, Tag::PUSH, Tag::REKEY, Tag::FINAL][len % 4];
            let adv = if len % 3 == 0 { None } else { Some(m[..len.min(7)].to_vec()) };
            let mut p1: DryocStream<Push> = DryocStream::verif_from_state(st0.clone());
            let c1: Vec<u8> = p1.push(&m, adv.as_ref(), tag).unwrap();
            let mut p3: DryocStream<Push> = DryocStream::verif_from_state(st0.clone());
            let adh = adv.as_ref().map(|a| {
                let mut h = HeapBytes::default();
                h.resize(a.len(), 0);
                h.as_mut_slice().copy_from_slice(a);
                h
            });
            let c3: HeapBytes = p3.push(&hm, adh.as_ref(), tag).unwrap();
            let mut p4: DryocStream<Push> = DryocStream::verif_from_state(st0.clone());
            let adl = adv.as_ref().map(|a| HeapBytes::from_slice_into_locked(a).unwrap());
            let c4: Locked<HeapBytes> = p4.push(&lm, adl.as_ref(), tag).unwrap();
            check("DryocStream::push", vec![c1.clone(), c3.as_slice().to_vec(), c4.as_slice().to_vec()]);
            check("DryocStream::push state", vec![p1.verif_state().verif_parts().0.to_vec(), p3.verif_state().verif_parts().0.to_vec(), p4.verif_state().verif_parts().0.to_vec()]);
            let mut q1: DryocStream<Pull> = DryocStream::verif_from_state(st0.clone());
            let (m1, t1): (Vec<u8>, Tag) = q1.pull(&c1, adv.as_ref()).unwrap();
            let mut q3: DryocStream<Pull> = DryocStream::verif_from_state(st0.clone());
            let (m3, t3): (HeapBytes, Tag) = q3.pull(&c3, adh.as_ref()).unwrap();
            let mut q4: DryocStream<Pull> = DryocStream::verif_from_state(st0.clone());
            let (m4, t4): (Locked<HeapBytes>, Tag) = q4.pull(&c4, adl.as_ref()).unwrap();
            check("DryocStream::pull", vec![m1, m3.as_slice().to_vec(), m4.as_slice().to_vec(), m.clone()]);
            check("DryocStream::pull tag", vec![vec![t1.bits()], vec![t3.bits()], vec![t4.bits()], vec![tag.bits()]]);
        }
        // signatures, MACs, SHA-512 through heap / locked containers
        {
            use dryoc::auth::Auth;
            use dryoc::onetimeauth::OnetimeAuth;
            use dryoc::sha512::Sha512;
            use dryoc::sign::{SignedMessage, SigningKeyPair};
            let (spk, ssk) = sodium::sign_seed_keypair(&ks.k);
            let k1: SigningKeyPair<StackByteArray<32>, StackByteArray<64>> = SigningKeyPair::from_slices(&spk, &ssk).unwrap();
            let k3: SigningKeyPair<HeapByteArray<32>, HeapByteArray<64>> = SigningKeyPair::from_slices(&spk, &ssk).unwrap();
            let s1: SignedMessage<StackByteArray<64>, Vec<u8>> = k1.sign(m.clone()).unwrap();
            let s3: SignedMessage<HeapByteArray<64>, HeapBytes> = k3.sign(hm.clone()).unwrap();
            let s4: dryoc::sign::protected::LockedSignedMessage = k3.sign(HeapBytes::from_slice_into_locked(&m).unwrap()).unwrap();
            check("SigningKeyPair::sign", vec![s1.to_vec(), s3.to_vec(), s4.to_vec()]);
            let vok = s3.verify(&k3.public_key).is_ok() && s4.verify(&k1.public_key).is_ok();
            check("SignedMessage::verify(heap containers accept a genuine signature)", vec![vec![vok as u8], vec![1u8]]);
            let a1: Vec<u8> = Auth::compute_to_vec(ks.k, &m);
            let a3: HeapByteArray<32> = Auth::compute(HeapByteArray::<32>::from(&ks.k), &hm);
            let a4: Locked<HeapByteArray<32>> = Auth::compute(HeapByteArray::<32>::from_slice_into_locked(&ks.k).unwrap(), &lm);
            check("Auth::compute", vec![a1, a3.as_slice().to_vec(), a4.as_slice().to_vec()]);
            let o1: Vec<u8> = OnetimeAuth::compute_to_vec(ks.k, &m);
            let o3: HeapByteArray<16> = OnetimeAuth::compute(HeapByteArray::<32>::from(&ks.k), &hm);
            let o4: Locked<HeapByteArray<16>> = OnetimeAuth::compute(HeapByteArray::<32>::from_slice_into_locked(&ks.k).unwrap(), &lm);
            check("OnetimeAuth::compute", vec![o1, o3.as_slice().to_vec(), o4.as_slice().to_vec()]);
            let h1 = Sha512::compute_to_vec(&m);
            let h3: HeapByteArray<64> = Sha512::compute(&hm);
            let h4: Locked<HeapByteArray<64>> = Sha512::compute(&lm);
            check("Sha512::compute", vec![h1, h3.as_slice().to_vec(), h4.as_slice().to_vec()]);
        }
        if len < 8 {
            // key exchange and password hashing through heap / locked containers
            use dryoc::keypair::KeyPair;
            use dryoc::kx::Session;
            use dryoc::pwhash::{Config, PwHash};
            let kc: KeyPair<StackByteArray<32>, StackByteArray<32>> = KeyPair::from_seed(&[len as u8; 32]);
            let ksv: KeyPair<StackByteArray<32>, StackByteArray<32>> = KeyPair::from_seed(&[len as u8 + 100; 32]);
            let kch: KeyPair<HeapByteArray<32>, HeapByteArray<32>> = KeyPair::from_slices(kc.public_key.as_slice(), kc.secret_key.as_slice()).unwrap();
            let x1: Session<StackByteArray<32>> = Session::new_client(&kc, &ksv.public_key).unwrap();
            let x3: Session<HeapByteArray<32>> = Session::new_client(&kch, &HeapByteArray::<32>::from(ksv.public_key.as_array())).unwrap();
            let x4: dryoc::kx::protected::LockedSession = Session::new_client(&kch, &HeapByteArray::<32>::from(ksv.public_key.as_array())).unwrap();
            check("Session::new_client", vec![[x1.rx_as_slice(), x1.tx_as_slice()].concat(), [x3.rx_as_slice(), x3.tx_as_slice()].concat(), [x4.rx_as_slice(), x4.tx_as_slice()].concat()]);
            let cfg = Config::interactive().with_opslimit(1).with_memlimit(8192 + 1024 * len);
            let salt = vec![len as u8 + 1; 16];
            let w1: PwHash<Vec<u8>, Vec<u8>> = PwHash::hash_with_salt(&m, salt.clone(), cfg.clone()).unwrap();
            let w3: PwHash<HeapBytes, HeapBytes> = PwHash::hash_with_salt(&hm, {
                let mut h = HeapBytes::default();
                h.resize(16, 0);
                h.as_mut_slice().copy_from_slice(&salt);
                h
            }, cfg.clone()).unwrap();
            let w4: dryoc::pwhash::protected::LockedPwHash = PwHash::hash_with_salt(&lm, HeapBytes::from_slice_into_locked(&salt).unwrap(), cfg.clone()).unwrap();
            check("PwHash::hash_with_salt", vec![w1.to_string().into_bytes(), w3.to_string().into_bytes(), w4.to_string().into_bytes()]);
        }
        if len < 8 {
            let k1: Kdf<StackByteArray<32>, StackByteArray<8>> = Kdf::from_parts(ks.k.into(), [len as u8; 8].into());
            let k3: Kdf<HeapByteArray<32>, HeapByteArray<8>> = Kdf::from_parts(HeapByteArray::<32>::from(&ks.k), HeapByteArray::<8>::from(&[len as u8; 8]));
            let k4: dryoc::kdf::protected::LockedKdf = Kdf::from_parts(HeapByteArray::<32>::from_slice_into_locked(&ks.k).unwrap(), HeapByteArray::<8>::from_slice_into_locked(&[len as u8; 8]).unwrap());
            let s1 = k1.derive_subkey_to_vec(len as u64).unwrap();
            let s3: HeapByteArray<32> = k3.derive_subkey(len as u64).unwrap();
            let s4: Locked<HeapByteArray<32>> = k4.derive_subkey(len as u64).unwrap();
            check("Kdf::derive_subkey", vec![s1, s3.as_slice().to_vec(), s4.as_slice().to_vec()]);
        }
    }
    // precomputed box keys: stack vs locked vs read-only locked constructors, for honest and for
    // arbitrary (twist / small-order-component / non-canonical) third-party public keys
    {
        use dryoc::keypair::KeyPair;
        use dryoc::precalc::PrecalcSecretKey;
        let pts = c05::points(seed, Tier::Quick);
        let sks: Vec<[u8; 32]> = (0..4).map(|i| karr(seed ^ 0x9c, i + 1)).collect();
        for (pi, pk) in pts.iter().enumerate() {
            if pi % 5 != 0 && pi > 40 {
                continue;
            }
            for sk in &sks {
                let classic = dryoc::classic::crypto_box::crypto_box_beforenm(pk, sk);
                let a = PrecalcSecretKey::precalculate(pk, sk);
                let b = PrecalcSecretKey::precalculate_locked(pk, sk).unwrap();
                let c = PrecalcSecretKey::precalculate_readonly_locked(pk, sk).unwrap();
                let lkp: KeyPair<Locked<HeapByteArray<32>>, Locked<HeapByteArray<32>>> = KeyPair { public_key: HeapByteArray::<32>::from_slice_into_locked(&sodium::scalarmult_base(sk)).unwrap(), secret_key: HeapByteArray::<32>::from_slice_into_locked(sk).unwrap() };
                let d = lkp.precalculate_locked(pk).unwrap();
                let outs = vec![classic.to_vec(), a.as_slice().to_vec(), b.as_slice().to_vec(), c.as_slice().to_vec(), d.as_slice().to_vec()];
                n += outs.len() as u64;
                if outs.iter().any(|o| o != &outs[0]) {
                    bad.push(format!("PrecalcSecretKey::precalculate at public key {}: stack / locked / read-only-locked constructors disagree", hx(pk)));
                }
            }
        }
        // the public type aliases of every module: a fixed-length alias (stack or heap, and so its
        // locked form) must have the length libsodium defines for that quantity — a wrong alias
        // silently changes what length-inferring functions compute
        {
            use libsodium_sys as so;
            fn alen<T: Default + Bytes>() -> usize {
                T::default().len()
            }
            macro_rules! al {
                ($($t:ty => $e:expr),* $(,)?) => {$(
                    n += 1;
                    let got = alen::<$t>();
                    if got != $e as usize {
                        bad.push(format!("type alias {} has {} bytes, libsodium defines {}", stringify!($t), got, $e as usize));
                    }
                )*};
            }
            al!(
                dryoc::auth::Key => so::crypto_auth_KEYBYTES, dryoc::auth::Mac => so::crypto_auth_BYTES,
                dryoc::auth::protected::Key => so::crypto_auth_KEYBYTES, dryoc::auth::protected::Mac => so::crypto_auth_BYTES,
                dryoc::onetimeauth::Key => so::crypto_onetimeauth_KEYBYTES, dryoc::onetimeauth::Mac => so::crypto_onetimeauth_BYTES,
                dryoc::onetimeauth::protected::Key => so::crypto_onetimeauth_KEYBYTES, dryoc::onetimeauth::protected::Mac => so::crypto_onetimeauth_BYTES,
                dryoc::generichash::Hash => so::crypto_generichash_BYTES, dryoc::generichash::Key => so::crypto_generichash_KEYBYTES,
                dryoc::generichash::protected::Hash => so::crypto_generichash_BYTES, dryoc::generichash::protected::Key => so::crypto_generichash_KEYBYTES,
                dryoc::sha512::Digest => so::crypto_hash_sha512_BYTES,
                dryoc::dryocbox::PublicKey => so::crypto_box_PUBLICKEYBYTES, dryoc::dryocbox::SecretKey => so::crypto_box_SECRETKEYBYTES,
                dryoc::dryocbox::Nonce => so::crypto_box_NONCEBYTES, dryoc::dryocbox::Mac => so::crypto_box_MACBYTES,
                dryoc::dryocbox::protected::PublicKey => so::crypto_box_PUBLICKEYBYTES, dryoc::dryocbox::protected::SecretKey => so::crypto_box_SECRETKEYBYTES,
                dryoc::dryocbox::protected::Nonce => so::crypto_box_NONCEBYTES, dryoc::dryocbox::protected::Mac => so::crypto_box_MACBYTES,
                dryoc::keypair::PublicKey => so::crypto_box_PUBLICKEYBYTES, dryoc::keypair::SecretKey => so::crypto_box_SECRETKEYBYTES,
                dryoc::dryocsecretbox::Key => so::crypto_secretbox_KEYBYTES, dryoc::dryocsecretbox::Nonce => so::crypto_secretbox_NONCEBYTES, dryoc::dryocsecretbox::Mac => so::crypto_secretbox_MACBYTES,
                dryoc::dryocsecretbox::protected::Key => so::crypto_secretbox_KEYBYTES, dryoc::dryocsecretbox::protected::Nonce => so::crypto_secretbox_NONCEBYTES, dryoc::dryocsecretbox::protected::Mac => so::crypto_secretbox_MACBYTES,
                dryoc::sign::PublicKey => so::crypto_sign_PUBLICKEYBYTES, dryoc::sign::SecretKey => so::crypto_sign_SECRETKEYBYTES, dryoc::sign::Signature => so::crypto_sign_BYTES,
                dryoc::sign::protected::PublicKey => so::crypto_sign_PUBLICKEYBYTES, dryoc::sign::protected::SecretKey => so::crypto_sign_SECRETKEYBYTES, dryoc::sign::protected::Signature => so::crypto_sign_BYTES,
                dryoc::kx::SessionKey => so::crypto_kx_SESSIONKEYBYTES, dryoc::kx::PublicKey => so::crypto_kx_PUBLICKEYBYTES, dryoc::kx::SecretKey => so::crypto_kx_SECRETKEYBYTES,
                dryoc::kx::protected::SessionKey => so::crypto_kx_SESSIONKEYBYTES, dryoc::kx::protected::PublicKey => so::crypto_kx_PUBLICKEYBYTES, dryoc::kx::protected::SecretKey => so::crypto_kx_SECRETKEYBYTES,
                dryoc::kdf::Key => so::crypto_kdf_KEYBYTES, dryoc::kdf::Context => so::crypto_kdf_CONTEXTBYTES,
                dryoc::kdf::protected::Key => so::crypto_kdf_KEYBYTES, dryoc::kdf::protected::Context => so::crypto_kdf_CONTEXTBYTES,
                dryoc::dryocstream::Key => so::crypto_secretstream_xchacha20poly1305_KEYBYTES, dryoc::dryocstream::Header => so::crypto_secretstream_xchacha20poly1305_HEADERBYTES, dryoc::dryocstream::Nonce => 12,
                dryoc::dryocstream::protected::Key => so::crypto_secretstream_xchacha20poly1305_KEYBYTES, dryoc::dryocstream::protected::Header => so::crypto_secretstream_xchacha20poly1305_HEADERBYTES, dryoc::dryocstream::protected::Nonce => 12,
            );
        }
        // every finalising form of the incremental generic hash, for several digest lengths:
        // stack, Vec (finalize and finalize_to_vec) and heap outputs must be identical
        for len in [0usize, 1, 127, 128, 129, 300] {
            let m = cval(seed, 3, len);
            macro_rules! fin {
                ($o:literal) => {{
                    let mk = || {
                        let mut h = GenericHash::<32, $o>::new(Some(&ks.k)).unwrap();
                        h.update(&m);
                        h
                    };
                    let a: StackByteArray<$o> = mk().finalize().unwrap();
                    let b: Vec<u8> = mk().finalize().unwrap();
                    let c: Vec<u8> = mk().finalize_to_vec().unwrap();
                    let d: HeapByteArray<$o> = mk().finalize().unwrap();
                    let e: Vec<u8> = GenericHash::<32, $o>::hash_to_vec(&m, Some(&ks.k)).unwrap();
                    n += 5;
                    if !(a.as_slice() == &b[..] && b == c && d.as_slice() == &b[..] && b == e) {
                        bad.push(format!("GenericHash<32,{}> finalising forms at len {}: stack / Vec / finalize_to_vec / heap / hash_to_vec disagree", $o, len));
                    }
                }};
            }
            fin!(16);
            fin!(20);
            fin!(32);
            fin!(48);
            fin!(64);
        }
        // the same serialised bytes decoded into Vec, HeapBytes and Locked<HeapBytes> (JSON: no
        // size hint, element sequence; bincode: byte string) must give identical bytes
        for len in (0..=130usize).chain([255, 256, 257, 1024, 4096, 4097]) {
            let m = cval(seed, 3, len);
            let js = serde_json::to_string(&m).unwrap();
            let bc = bincode::serialize(&m).unwrap();
            let a: Result<Vec<u8>, _> = serde_json::from_str(&js);
            let b: Result<HeapBytes, _> = serde_json::from_str(&js);
            let c: Result<Locked<HeapBytes>, _> = serde_json::from_str(&js);
            let d: Result<HeapBytes, _> = bincode::deserialize(&bc);
            let e: Result<Locked<HeapBytes>, _> = bincode::deserialize(&bc);
            n += 5;
            let same = a.as_ref().ok() == Some(&m)
                && b.as_ref().map(|x| x.as_slice() == &m[..]).unwrap_or(false)
                && c.as_ref().map(|x| x.as_slice() == &m[..]).unwrap_or(false)
                && d.as_ref().map(|x| x.as_slice() == &m[..]).unwrap_or(false)
                && e.as_ref().map(|x| x.as_slice() == &m[..]).unwrap_or(false);
            if !same {
                bad.push(format!("decoding {} serialised bytes: Vec / HeapBytes / Locked<HeapBytes> (JSON, bincode) disagree", len));
            }
        }
        // the resizable containers themselves: the same fill / resize sequence through Vec,
        // HeapBytes and Locked<HeapBytes> must leave identical bytes (all ordered pairs of 17
        // lengths, all ordered triples of 7)
        {
            let lens = [0usize, 1, 2, 3, 5, 8, 15, 16, 17, 31, 32, 33, 64, 100, 4095, 4096, 4097];
            let small = [0usize, 1, 3, 8, 17, 64, 100];
            let mut seqs: Vec<Vec<usize>> = vec![];
            for &a in &lens {
                for &b in &lens {
                    seqs.push(vec![a, b]);
                }
            }
            for &a in &small {
                for &b in &small {
                    for &c in &small {
                        seqs.push(vec![a, b, c]);
                    }
                }
            }
            for sq in seqs {
                let init = cval(seed, 3, sq[0]);
                let mut v: Vec<u8> = init.clone();
                let mut h = HeapBytes::from(&init[..]);
                let mut l = HeapBytes::from_slice_into_locked(&init).unwrap();
                for (i, &t) in sq[1..].iter().enumerate() {
                    let fill = 0xE0u8 + i as u8;
                    v.resize(t, fill);
                    h.resize(t, fill);
                    l.resize(t, fill);
                }
                n += 3;
                if v != h.as_slice() || v != l.as_slice() {
                    bad.push(format!("resize sequence {:?}: Vec / HeapBytes / Locked<HeapBytes> disagree", sq));
                }
            }
        }
        // and a box made with a locked precomputed key equals the classic one
        for len in [0usize, 1, 17, 100] {
            let m = cval(seed, 3, len);
            let lk = PrecalcSecretKey::precalculate_locked(&ks.pk_b, &ks.sk_a).unwrap();
            let b1: dryoc::dryocbox::VecBox = DryocBox::precalc_encrypt_to_vecbox(&m, &StackByteArray::<24>::from(&ks.n), &lk).unwrap();
            let want = aead::ref_wire(aead::Fam::Bx, &ks, &m);
            n += 1;
            if b1.to_vec() != want {
                bad.push(format!("DryocBox::precalc_encrypt with a locked precomputed key at len {}: differs from libsodium", len));
            }
        }
    }
    (n, bad)
}
#[cfg(not(feature = "nightly"))]
fn container_leg(_seed: u64) -> (u64, Vec<String>) {
    (0, vec![])
}

pub fn run(args: &[String]) -> i32 {
    sodium::init();
    quiet_panics();
    let tier = match std::env::var("VERIF_TIER").as_deref() {
        Ok("thorough") => Tier::Thorough,
        _ => Tier::Quick,
    };
    let seed = std::env::var("VERIF_SEED").ok().and_then(|s| s.parse().ok()).unwrap_or(0u64);
    let dump: Option<&String> = args.first();
    let mut out = serde_json::Map::new();
    for (name, f) in sections(tier, seed) {
        if let Some(d) = dump {
            if d != name {
                continue;
            }
            f(&mut |id, o| println!("{}\t{}", id, hx(&o)));
            return 0;
        }
        // running digest: SHA-512 over (id || 0 || output || previous digest), by libsodium
        let mut acc = [0u8; 64];
        let mut count = 0u64;
        let mut buf: Vec<u8> = Vec::with_capacity(1 << 16);
        f(&mut |id, o| {
            count += 1;
            buf.extend_from_slice(id.as_bytes());
            buf.push(0);
            buf.extend_from_slice(&(o.len() as u32).to_le_bytes());
            buf.extend_from_slice(&o);
            if buf.len() > (1 << 15) {
                buf.extend_from_slice(&acc);
                acc = sodium::sha512(&buf);
                buf.clear();
            }
        });
        buf.extend_from_slice(&acc);
        acc = sodium::sha512(&buf);
        out.insert(name.to_string(), json!({"cases": count, "digest": hx(&acc)}));
    }
    let (n, bad) = container_leg(seed);
    let cfg = if cfg!(feature = "simd") { "nightly+simd_backend" } else if cfg!(feature = "nightly") { "nightly" } else { "stable-default" };
    println!("{}", Value::Object({
        let mut m = serde_json::Map::new();
        m.insert("configuration".into(), json!(cfg));
        m.insert("sections".into(), Value::Object(out));
        m.insert("container_cases".into(), json!(n));
        m.insert("container_mismatches".into(), json!(bad));
        m
    }));
    0
}
