//! C13 — seeded key generation and Ed25519->X25519 conversion match libsodium (E-prod).

use crate::core::*;
use crate::sodium;
use dryoc::classic::crypto_box::{crypto_box_seed_keypair, crypto_box_seed_keypair_inplace};
use dryoc::classic::crypto_kx::crypto_kx_seed_keypair;
use dryoc::classic::crypto_pwhash::PasswordHashAlgorithm;
use dryoc::classic::crypto_sign::crypto_sign_seed_keypair;
use dryoc::classic::crypto_sign_ed25519::{crypto_sign_ed25519_pk_to_curve25519, crypto_sign_ed25519_sk_to_curve25519};
use dryoc::keypair::KeyPair;
use dryoc::pwhash::{Config, PwHash};
use dryoc::sign::SigningKeyPair;
use dryoc::types::*;
use serde_json::{json, Value};
use std::panic::AssertUnwindSafe;

type SB<const N: usize> = StackByteArray<N>;

fn fail(st: &mut Stats, what_: &str, class: &str, what: String, case: Value) {
    st.fail(Fail { check: "C13.keys".into(), signature: format!("C13/{}/{}", what_, class), what, case });
}

fn box_seed_ok(seed: &[u8]) -> Result<bool, String> {
    guarded(AssertUnwindSafe(|| {
        // construction: sk = SHA-512(seed)[..32], pk = sk * B, evaluated with libsodium primitives
        let h = sodium::sha512(seed);
        let sk: [u8; 32] = h[..32].try_into().unwrap();
        let pk = sodium::scalarmult_base(&sk);
        let (dpk, dsk) = crypto_box_seed_keypair(seed);
        let (mut ipk, mut isk) = ([0xC3u8; 32], [0xC3u8; 32]);
        crypto_box_seed_keypair_inplace(&mut ipk, &mut isk, seed);
        let kp: KeyPair<SB<32>, SB<32>> = KeyPair::from_seed(&seed.to_vec());
        let kv: KeyPair<Vec<u8>, Vec<u8>> = KeyPair::from_seed(&seed.to_vec());
        let mut ok = dpk == pk && dsk == sk && ipk == pk && isk == sk && kp.public_key.as_slice() == &pk[..] && kp.secret_key.as_slice() == &sk[..] && kv.public_key == pk && kv.secret_key == sk;
        if seed.len() == 32 {
            let (spk, ssk) = sodium::box_seed_keypair(seed.try_into().unwrap());
            ok &= spk == pk && ssk == sk;
        }
        ok
    }))
}

pub fn replay(case: &Value) -> Option<String> {
    match case["kind"].as_str()? {
        "box-seed" => match box_seed_ok(&unhx(&case["seed"])) {
            Ok(true) => None,
            Ok(false) => Some("seeded box key pair differs from libsodium's construction".into()),
            Err(p) => Some(format!("panic: {}", p)),
        },
        _ => Some("re-run the check to reproduce".into()),
    }
}

pub fn run() -> i32 {
    sodium::init();
    quiet_panics();
    let mut ctx = Ctx::new("C13", "exploration");
    let seed = ctx.seed;
    let nseeds = ctx.tier.pick(256u64, 4096);
    ctx.rule = format!("full products: crypto_box_seed_keypair[_inplace] / KeyPair::from_seed (stack and Vec containers) for every seed length 0..=300 (1100 thorough) x 4 content classes against the construction SHA-512(seed)[..32] -> base-point multiplication evaluated with libsodium primitives (and libsodium's own crypto_box_seed_keypair for 32-byte seeds); crypto_kx_seed_keypair, crypto_sign_seed_keypair, SigningKeyPair::from_seed/from_secret_key for the 5-member value alphabet + {} seeded seeds; KeyPair::from_secret_key for secrets incl. unclamped patterns; PwHash::derive_keypair at minimal cost x 4 passwords x both algorithms x 5 Config hash/salt-length settings; Ed25519->X25519 conversion of every generated signing pair and of a family of 2^16 (thorough 2^20) honest pairs from counter seeds: both halves == libsodium and base(x_sk) == x_pk; non-trivial = case executed in both implementations", nseeds);
    ctx.assume("dishonest Ed25519 public keys (small-order / non-canonical) are outside this property's quantifier; libsodium refuses them and dryoc does not — recorded as an observation, never alarmed");

    // box seeds of every length
    let units: Vec<usize> = (0..=ctx.tier.pick(300usize, 1100)).collect();
    let st = par_units(&units, |&len, st| {
        for ci in 0..4 {
            let s = cval(seed, ci, len);
            let r = box_seed_ok(&s);
            st.eval(&("box-seed", len, ci), true, if r == Ok(true) { "box-seed==libsodium" } else { "box-seed-differs" });
            if r != Ok(true) {
                fail(st, "box-seed", if r.is_err() { "panic" } else { "differs" }, format!("seed length {} content {}: {:?}", len, C_NAMES[ci], r), json!({"kind": "box-seed", "seed": hx(&s)}));
            }
        }
        if len == 33 {
            st.sample(json!({"what": "crypto_box_seed_keypair / KeyPair::from_seed", "seed_len": 33, "contents": C_NAMES}));
        }
    });
    ctx.absorb("box-seeds", st);

    // 32-byte seeds: kx, sign, conversions, from_secret_key
    let mut seeds: Vec<[u8; 32]> = (0..5).map(|i| karr(seed ^ 0x13, i)).collect();
    for i in 0..nseeds {
        seeds.push(prand(seed, "c13-seed", i, 32).try_into().unwrap());
    }
    // unclamped secret-key patterns
    let mut pat = [0u8; 32];
    pat[0] = 0x07;
    seeds.push(pat);
    pat[31] = 0x80;
    seeds.push(pat);
    pat[31] = 0x3f;
    seeds.push(pat);
    seeds.push([0xffu8; 32]);
    let st = par_units(&seeds, |s, st| {
        let r = guarded(AssertUnwindSafe(|| -> Vec<(&'static str, bool)> {
            let mut v = vec![];
            // kx
            let (kpk, ksk) = crypto_kx_seed_keypair(s).unwrap();
            v.push(("kx-seed", (kpk, ksk) == sodium::kx_seed_keypair(s)));
            // sign
            let (spk, ssk) = crypto_sign_seed_keypair(s);
            let (wpk, wsk) = sodium::sign_seed_keypair(s);
            // in-place form into buffers that already hold something (incl. the seed itself)
            let mut ipk = [0x3cu8; 32];
            let mut isk = [0xc3u8; 64];
            isk[..32].copy_from_slice(s);
            dryoc::classic::crypto_sign::crypto_sign_seed_keypair_inplace(&mut ipk, &mut isk, s);
            v.push(("sign-seed-inplace", ipk == wpk && isk == wsk));
            let (mut kipk, mut kisk) = ([0x3cu8; 32], [0xc3u8; 32]);
            kisk.copy_from_slice(s);
            let _ = dryoc::classic::crypto_box::crypto_box_seed_keypair_inplace(&mut kipk, &mut kisk, s);
            v.push(("box-seed-inplace-prefilled", (kipk, kisk) == sodium::box_seed_keypair(s)));
            let o: SigningKeyPair<SB<32>, SB<64>> = SigningKeyPair::from_seed(s);
            let o2: SigningKeyPair<SB<32>, SB<64>> = SigningKeyPair::from_secret_key(SB::<64>::from(&wsk));
            let o3: SigningKeyPair<Vec<u8>, Vec<u8>> = SigningKeyPair::from_seed(&s.to_vec());
            v.push(("sign-seed", spk == wpk && ssk == wsk && o.public_key.as_slice() == &wpk[..] && o.secret_key.as_slice() == &wsk[..] && o2 == o && o3.public_key == wpk && o3.secret_key == wsk));
            // a secret key whose public half is stale / missing: the pair that comes back must be
            // the one libsodium's construction defines for the seed half (pk = base point multiple,
            // sk = seed || pk), i.e. a pair whose signatures verify under its own public key
            for (what, tail) in [("zero public half", [0u8; 32]), ("stale public half", sodium::sign_seed_keypair(&[0x42u8; 32]).0), ("inverted public half", { let mut t = wpk; t.iter_mut().for_each(|b| *b = !*b); t })] {
                let mut bad = wsk;
                bad[32..].copy_from_slice(&tail);
                let o4: SigningKeyPair<SB<32>, SB<64>> = SigningKeyPair::from_secret_key(SB::<64>::from(&bad));
                let o5: SigningKeyPair<Vec<u8>, Vec<u8>> = SigningKeyPair::from_secret_key(bad.to_vec());
                let msg = b"signed with a recomputed pair";
                let sm: dryoc::sign::SignedMessage<SB<64>, Vec<u8>> = o4.sign(msg.to_vec()).unwrap();
                let (sg, _) = sm.into_parts();
                let sg: [u8; 64] = sg.as_slice().try_into().unwrap();
                let pk4: [u8; 32] = o4.public_key.as_slice().try_into().unwrap();
                let ok = pk4 == wpk && o5.public_key == wpk && o4.secret_key.as_slice()[..32] == s[..] && sodium::sign_verify_detached(&sg, msg, &pk4);
                let _ = what;
                v.push(("sign-from-inconsistent-secret-key", ok));
            }
            // public key from secret key
            let k: KeyPair<SB<32>, SB<32>> = KeyPair::from_secret_key(SB::<32>::from(s));
            let kv: KeyPair<Vec<u8>, Vec<u8>> = KeyPair::from_secret_key(s.to_vec());
            let wb = sodium::scalarmult_base(s);
            v.push(("from-secret-key", k.public_key.as_slice() == &wb[..] && k.secret_key.as_slice() == &s[..] && kv.public_key == wb));
            // ed25519 -> x25519
            let mut xpk = [0xC3u8; 32];
            let mut xsk = [0xC3u8; 32];
            let rpk = crypto_sign_ed25519_pk_to_curve25519(&mut xpk, &spk);
            crypto_sign_ed25519_sk_to_curve25519(&mut xsk, &ssk);
            let wxpk = sodium::ed_pk_to_curve(&wpk);
            let wxsk = sodium::ed_sk_to_curve(&wsk);
            v.push(("ed-to-x", rpk.is_ok() && Some(xpk) == wxpk && xsk == wxsk && sodium::scalarmult_base(&xsk) == xpk));
            v
        }));
        match r {
            Err(p) => {
                st.eval(&("seed32", s), true, "panic");
                fail(st, "seed32", "panic", format!("seed {}: {}", hx(s), p), json!({"kind": "seed32", "seed": hx(s)}));
            }
            Ok(v) => {
                for (name, ok) in v {
                    st.eval(&(name, s), true, &format!("{}{}", name, if ok { "==libsodium" } else { "-differs" }));
                    if !ok {
                        fail(st, name, "differs", format!("{} for seed/secret {} differs from libsodium", name, hx(s)), json!({"kind": "seed32", "seed": hx(s)}));
                    }
                }
            }
        }
    });
    ctx.absorb("seed32", st);

    // Ed25519 -> X25519 conversion over a large family of honestly generated pairs (counter
    // seeds): enough keys that every byte position of the public key takes every value, so an
    // encoding-dependent refusal or mis-decoding of honest keys shows up
    {
        let nkeys: u32 = ctx.tier.pick(1u32 << 16, 1u32 << 20);
        let chunks: Vec<u32> = (0..nkeys / 1024).collect();
        let cover = std::sync::Mutex::new(vec![[false; 256]; 32]);
        let st = par_units(&chunks, |&c, st| {
            let mut seen = vec![[false; 256]; 32];
            for i in 0..1024u32 {
                let n = c * 1024 + i;
                let mut sd = [0u8; 32];
                sd[..4].copy_from_slice(&n.to_le_bytes());
                sd[4..12].copy_from_slice(&seed.to_le_bytes());
                let (wpk, wsk) = sodium::sign_seed_keypair(&sd);
                for (p, b) in wpk.iter().enumerate() {
                    seen[p][*b as usize] = true;
                }
                let r = guarded(AssertUnwindSafe(|| {
                    let mut xpk = [0xC3u8; 32];
                    let mut xsk = [0xC3u8; 32];
                    let rpk = crypto_sign_ed25519_pk_to_curve25519(&mut xpk, &wpk);
                    crypto_sign_ed25519_sk_to_curve25519(&mut xsk, &wsk);
                    rpk.is_ok() && Some(xpk) == sodium::ed_pk_to_curve(&wpk) && xsk == sodium::ed_sk_to_curve(&wsk) && sodium::scalarmult_base(&xsk) == xpk
                }));
                let ok = r == Ok(true);
                st.eval(&("ed-to-x-honest", n), true, if ok { "ed-to-x==libsodium" } else { "ed-to-x-differs" });
                if !ok {
                    fail(st, "ed-to-x", "honest-key", format!("honest Ed25519 pair of seed {} (public key {}): conversion refused or differs from libsodium: {:?}", hx(&sd), hx(&wpk), r), json!({"kind": "seed32", "seed": hx(&sd)}));
                }
            }
            let mut g = cover.lock().unwrap();
            for p in 0..32 {
                for b in 0..256 {
                    g[p][b] |= seen[p][b];
                }
            }
        });
        let g = cover.lock().unwrap();
        let missing: usize = (0..32).map(|p| (0..256).filter(|&b| !g[p][b] && !(p == 31 && false)).count()).sum();
        ctx.note("honest_key_family", json!({"keys": nkeys, "public_key_byte_values_never_seen": missing, "note": "(byte position, value) pairs of the public key never taken by any key of the family; byte 31 carries the sign bit so all 256 values occur there too"}));
        ctx.absorb("ed-to-x-honest-family", st);
    }

    // password-derived key pairs
    let mut st = Stats::new();
    for (pi, pw) in [b"".to_vec(), b"p".to_vec(), cval(seed, 3, 16), cval(seed, 2, 100)].iter().enumerate() {
        for typ in [1, 2] {
            let salt = kval(seed ^ 0x44, 3, 16);
            let (_, want_sk, enc) = sodium::argon2_raw(3, 8, pw, &salt, 32, typ, true);
            let want_pk = sodium::scalarmult_base(want_sk.as_slice().try_into().unwrap());
            let r = guarded(AssertUnwindSafe(|| {
                // an Argon2i Config is only reachable through from_string(..).into_parts()
                let cfg: Config = if typ == 2 { Config::interactive().with_opslimit(3).with_memlimit(8192) } else { PwHash::<Vec<u8>, Vec<u8>>::from_string(&enc).unwrap().into_parts().2 };
                // the key pair is defined by the 32-byte hash whatever hash/salt length the
                // Config carries for password-hash objects
                for (hl, sl) in [(16usize, 16usize), (33, 8), (64, 64), (128, 16)] {
                    let c2 = cfg.clone().with_hash_length(hl).with_salt_length(sl);
                    let kp2: KeyPair<SB<32>, SB<32>> = PwHash::<Vec<u8>, Vec<u8>>::derive_keypair(&pw.clone(), salt.clone(), c2).unwrap();
                    if kp2.secret_key.as_slice() != &want_sk[..] || kp2.public_key.as_slice() != &want_pk[..] {
                        return false;
                    }
                }
                let _ = PasswordHashAlgorithm::Argon2i13;
                let kp: KeyPair<SB<32>, SB<32>> = PwHash::<Vec<u8>, Vec<u8>>::derive_keypair(&pw.clone(), salt.clone(), cfg).unwrap();
                kp.secret_key.as_slice() == &want_sk[..] && kp.public_key.as_slice() == &want_pk[..]
            }));
            let ok = r == Ok(true);
            st.eval(&("pw-kp", pi, typ), true, if ok { "derive_keypair==libsodium" } else { "derive_keypair-differs" });
            if !ok {
                fail(&mut st, "derive_keypair", "differs", format!("PwHash::derive_keypair(pw#{}, type {}) differs from crypto_pwhash -> base multiplication: {:?}", pi, typ, r), json!({"kind": "pw"}));
            }
        }
    }
    // cost parameters that are not round: memory limits with a sub-KiB residue, of every residue
    // of the KiB count mod 4, and pass counts 1..=4 (Argon2id; libsodium floors to whole KiB)
    for mem in [8192usize, 8193, 8704, 9215, 9216, 10000, 10240, 11264, 12 * 1024 + 1, 16383, 16384, 65536 + 513] {
        for ops in [1u64, 2, 3, 4] {
            let pw = b"residue".to_vec();
            let salt = kval(seed ^ 0x44, 2, 16);
            let (_, want_sk, _) = sodium::argon2_raw(ops as u32, (mem / 1024) as u32, &pw, &salt, 32, 2, false);
            let want_pk = sodium::scalarmult_base(want_sk.as_slice().try_into().unwrap());
            let r = guarded(AssertUnwindSafe(|| {
                let cfg = Config::interactive().with_opslimit(ops).with_memlimit(mem);
                let kp: KeyPair<SB<32>, SB<32>> = PwHash::<Vec<u8>, Vec<u8>>::derive_keypair(&pw, salt.clone(), cfg).unwrap();
                kp.secret_key.as_slice() == &want_sk[..] && kp.public_key.as_slice() == &want_pk[..]
            }));
            let ok = r == Ok(true);
            st.eval(&("pw-kp-cost", mem, ops), true, if ok { "derive_keypair==libsodium" } else { "derive_keypair-differs" });
            if !ok {
                fail(&mut st, "derive_keypair", "differs/cost", format!("PwHash::derive_keypair(memlimit {}, opslimit {}) differs from crypto_pwhash -> base multiplication: {:?}", mem, ops, r), json!({"kind": "pw"}));
            }
        }
    }
    // the named presets, with libsodium's own constants as the reference costs (sensitive is
    // 1 GiB x 4 passes: about 5 s in each implementation)
    {
        let mut presets: Vec<(&str, Config, usize, usize)> = unsafe {
            vec![
                ("interactive", Config::interactive(), libsodium_sys::crypto_pwhash_opslimit_interactive(), libsodium_sys::crypto_pwhash_memlimit_interactive()),
                ("default", Config::default(), libsodium_sys::crypto_pwhash_opslimit_interactive(), libsodium_sys::crypto_pwhash_memlimit_interactive()),
                ("moderate", Config::moderate(), libsodium_sys::crypto_pwhash_opslimit_moderate(), libsodium_sys::crypto_pwhash_memlimit_moderate()),
            ]
        };
        presets.push(("sensitive", Config::sensitive(), unsafe { libsodium_sys::crypto_pwhash_opslimit_sensitive() }, unsafe { libsodium_sys::crypto_pwhash_memlimit_sensitive() }));
        for (name, cfg, ops, mem) in presets {
            let pw = b"preset".to_vec();
            let salt = kval(seed ^ 0x45, 2, 16);
            let (_, want_sk, _) = sodium::argon2_raw(ops as u32, (mem / 1024) as u32, &pw, &salt, 32, 2, false);
            let want_pk = sodium::scalarmult_base(want_sk.as_slice().try_into().unwrap());
            let r = guarded(AssertUnwindSafe(|| {
                let kp: KeyPair<SB<32>, SB<32>> = PwHash::<Vec<u8>, Vec<u8>>::derive_keypair(&pw, salt.clone(), cfg).unwrap();
                kp.secret_key.as_slice() == &want_sk[..] && kp.public_key.as_slice() == &want_pk[..]
            }));
            let ok = r == Ok(true);
            st.eval(&("pw-kp-preset", name), true, if ok { "derive_keypair==libsodium" } else { "derive_keypair-differs" });
            if !ok {
                fail(&mut st, "derive_keypair", "differs/preset", format!("PwHash::derive_keypair under Config::{}() differs from libsodium's crypto_pwhash at its {} limits -> base multiplication: {:?}", name, name, r), json!({"kind": "pw"}));
            }
        }
    }
    // memory limits below the minimum must be refused here as everywhere else
    for mem in [0usize, 1024, 7169, 8191] {
        let r = guarded(AssertUnwindSafe(|| PwHash::<Vec<u8>, Vec<u8>>::derive_keypair::<_, SB<32>, SB<32>>(&b"x".to_vec(), vec![1u8; 16], Config::interactive().with_opslimit(1).with_memlimit(mem)).is_ok()));
        let ok = r == Ok(false);
        st.eval(&("pw-kp-reject", mem), true, if ok { "derive_keypair-rejects-out-of-range" } else { "derive_keypair-accepts-out-of-range" });
        if !ok {
            fail(&mut st, "derive_keypair", "accepts-out-of-range", format!("PwHash::derive_keypair accepted memlimit {}: {:?}", mem, r), json!({"kind": "pw"}));
        }
    }
    st.sample(json!({"what": "PwHash::derive_keypair", "passwords": 4, "algorithms": ["argon2i (config via from_string().into_parts())", "argon2id"], "cost": "t=3, m=8 KiB"}));
    ctx.absorb("password-derived", st);
    {
        let mut t: Vec<crate::purity::Entry> = vec![];
        let s1: [u8; 32] = karr(seed ^ 0x13, 2);
        let s2: [u8; 32] = karr(seed ^ 0x13, 3);
        for (nm, s) in [("box_seed_keypair(s1)", s1), ("box_seed_keypair(s2)", s2)] {
            t.push((nm, Box::new(move || {
                let (a, b) = crypto_box_seed_keypair(&s);
                [a, b].concat()
            })));
        }
        t.push(("box_seed_keypair(40-byte seed)", Box::new(move || {
            let (a, b) = crypto_box_seed_keypair(&[s1.as_slice(), &s2[..8]].concat());
            [a, b].concat()
        })));
        for (nm, s) in [("kx_seed_keypair(s1)", s1), ("kx_seed_keypair(s2)", s2)] {
            t.push((nm, Box::new(move || {
                let (a, b) = crypto_kx_seed_keypair(&s).unwrap();
                [a, b].concat()
            })));
        }
        for (nm, s) in [("sign_seed_keypair(s1)", s1), ("sign_seed_keypair(s2)", s2), ("sign_seed_keypair(zero)", [0u8; 32])] {
            t.push((nm, Box::new(move || {
                let (a, b) = crypto_sign_seed_keypair(&s);
                [&a[..], &b[..]].concat()
            })));
        }
        for (nm, s) in [("ed_to_x(s1)", s1), ("ed_to_x(s2)", s2)] {
            t.push((nm, Box::new(move || {
                let (pk, sk) = sodium::sign_seed_keypair(&s);
                let (mut xp, mut xs) = ([0xC3u8; 32], [0xC3u8; 32]);
                let _ = crypto_sign_ed25519_pk_to_curve25519(&mut xp, &pk);
                crypto_sign_ed25519_sk_to_curve25519(&mut xs, &sk);
                [xp, xs].concat()
            })));
        }
        t.push(("KeyPair::from_secret_key(s1)", Box::new(move || {
            let k: KeyPair<SB<32>, SB<32>> = KeyPair::from_secret_key(SB::<32>::from(&s1));
            k.public_key.to_vec()
        })));
        crate::purity::triples(&mut ctx, "C13", "C13.keys", t);
    }
    ctx.require_outcome("box-seed==libsodium");
    ctx.require_outcome("ed-to-x==libsodium");
    ctx.finish()
}
