//! Call-sequence oracle shared by the pure-function properties: every ordered triple of calls over a
//! table of (function, input) entries is executed on one fresh thread, and every result must equal
//! the result the same entry gives in isolation (its own fresh thread). Exposes state carried from
//! one call to the next (caches, pools, reused scratch buffers, lazily initialised tables).

use crate::core::*;
use serde_json::json;

pub type Entry = (&'static str, Box<dyn Fn() -> Vec<u8> + Sync + Send>);

pub fn triples(ctx: &mut Ctx, prop: &str, check: &str, entries: Vec<Entry>) {
    let isolated: Vec<Result<Vec<u8>, String>> = entries
        .iter()
        .map(|e| std::thread::scope(|s| s.spawn(|| guarded(std::panic::AssertUnwindSafe(|| (e.1)()))).join().unwrap()))
        .collect();
    let n = entries.len();
    let units: Vec<usize> = (0..n).collect();
    let st = par_units(&units, |&a, st| {
        for b in 0..n {
            for c in 0..n {
                let seq = [a, b, c];
                let r: Option<(usize, String)> = std::thread::scope(|s| {
                    s.spawn(|| {
                        for (i, &k) in seq.iter().enumerate() {
                            let got = guarded(std::panic::AssertUnwindSafe(|| (entries[k].1)()));
                            if got != isolated[k] {
                                return Some((i, format!("{:?} instead of {:?}", got.as_ref().map(|x| short(x)), isolated[k].as_ref().map(|x| short(x)))));
                            }
                        }
                        None
                    })
                    .join()
                    .unwrap()
                });
                st.eval(&("seq", a, b, c), true, if r.is_none() { "call-sequence-consistent" } else { "call-sequence-inconsistent" });
                if let Some((i, d)) = r {
                    st.fail(Fail {
                        check: check.to_string(),
                        signature: format!("{}/call-sequence/{}", prop, entries[seq[i]].0),
                        what: format!("after the calls {:?} on one thread, call {} ({}) returned {}", seq[..i].iter().map(|k| entries[*k].0).collect::<Vec<_>>(), i + 1, entries[seq[i]].0, d),
                        case: json!({"kind": "call-sequence", "sequence": seq.iter().map(|k| entries[*k].0).collect::<Vec<_>>(), "note": "re-run the check to reproduce"}),
                    });
                }
            }
        }
        if a == 0 {
            st.sample(json!({"call_sequence_table": entries.iter().map(|e| e.0).collect::<Vec<_>>(), "sequences": "all ordered triples, each on a fresh thread, compared with the isolated result"}));
        }
    });
    ctx.absorb("call-sequences", st);
}
