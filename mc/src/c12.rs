//! C12 — key derivation matches libsodium for every subkey length, id and context (E-prod).

use crate::core::*;
use crate::sodium;
use dryoc::classic::crypto_kdf::*;
use dryoc::kdf::Kdf;
use dryoc::types::*;
use serde_json::{json, Value};
use std::io::Write;
use std::panic::AssertUnwindSafe;

fn ids(seed: u64) -> Vec<u64> {
    let mut v = vec![0, 1, 2, 255, 256, (1 << 32) - 1, 1 << 32, 1 << 63, u64::MAX, u64::from_le_bytes(prand(seed, "c12-id", 0, 8).try_into().unwrap()), 0x0102030405060708, 0x0807060504030201];
    for i in 0..8 {
        v.push(0xa5u64 << (8 * i)); // one non-zero byte at each position
    }
    for b in 0..64 {
        v.push(1u64 << b); // every single-bit id
    }
    v.sort();
    v.dedup();
    v
}
fn ctxs(seed: u64) -> Vec<[u8; 8]> {
    vec![[0u8; 8], [0xff; 8], *b"hello123", prand(seed, "c12-ctx", 0, 8).try_into().unwrap(), [1, 0, 0, 0, 2, 0, 0, 0], *b"ab\0cdefg", [0, 0, 0, 0, 0, 0, 0, 1], [b'v', b'1', 0, 0, 0, 0, 0, 2]]
}

fn derive(len: usize, id: u64, ctx: &[u8; 8], key: &[u8; 32]) -> Result<Option<Vec<u8>>, String> {
    guarded(AssertUnwindSafe(|| {
        let mut out = vec![0xC3u8; len];
        crypto_kdf_derive_from_key(&mut out, id, ctx, key).ok().map(|_| out)
    }))
}

pub fn replay(case: &Value) -> Option<String> {
    let len = case["len"].as_u64()? as usize;
    let id = case["id"].as_u64()?;
    let ctx: [u8; 8] = unhx(&case["ctx"]).try_into().ok()?;
    let key: [u8; 32] = unhx(&case["key"]).try_into().ok()?;
    let want = sodium::kdf_derive(len, id, &ctx, &key);
    match derive(len, id, &ctx, &key) {
        Err(p) => Some(format!("panic: {}", p)),
        Ok(got) if got == want => None,
        Ok(got) => Some(format!("dryoc {:?} != libsodium {:?}", got.map(|g| hx(&g)), want.map(|g| hx(&g)))),
    }
}

pub fn run() -> i32 {
    sodium::init();
    quiet_panics();
    let mut ctx = Ctx::new("C12", "exploration");
    let seed = ctx.seed;
    let ids = ids(seed);
    let cs = ctxs(seed);
    ctx.rule = "every length 65..=1100 and 2^k +- 64 (k <= 20) must be rejected; full product: subkey length every 0..=80 x ~80 subkey ids (0,1,2,255,256,2^32-1,2^32,2^63,2^64-1, seeded, two byte-order patterns, one non-zero byte at each of the 8 positions, every single-bit id) x 8 contexts (incl. interior and leading zero bytes) x 5 master keys; lengths 16..=64 must equal libsodium byte for byte, all other lengths must return Err (no panic); within each master key all outputs for distinct (id, context, length) must be pairwise distinct and no shorter output may be a prefix of a longer one; the 32-byte column also through Kdf::derive_subkey / derive_subkey_to_vec / from_parts; every accepted cell is dumped for the independent Python BLAKE2b reference; non-trivial = cell executed in dryoc and libsodium".into();
    ctx.assume("reference 1 libsodium crypto_kdf_derive_from_key; reference 2 Python hashlib.blake2b(digest_size=len, key, salt=id||0, person=ctx||0) over the dumped corpus");
    let corpus_path = format!("{}/logs/c12_corpus.jsonl", VERIF_ROOT);
    let _ = std::fs::create_dir_all(format!("{}/logs", VERIF_ROOT));
    let corpus = std::sync::Mutex::new(std::io::BufWriter::new(std::fs::File::create(&corpus_path).expect("corpus")));
    // derivation after other BLAKE2b activity on the same thread (state that should be fresh per
    // call: scratch buffers, memoised parameters): every sequence of <= 2 "disturbances" from the
    // menu below, then derivations of three lengths, must still equal libsodium
    {
        use dryoc::classic::crypto_generichash::*;
        let menu: Vec<(&str, fn())> = vec![
            ("abandon an un-finalised classic generichash state", || {
                let mut st = crypto_generichash_init(None, 32).unwrap();
                crypto_generichash_update(&mut st, &[0xabu8; 77]);
                drop(st);
            }),
            ("abandon an un-finalised keyed state after a full block", || {
                let mut st = crypto_generichash_init(Some(&[7u8; 32][..]), 64).unwrap();
                crypto_generichash_update(&mut st, &[0xcdu8; 128]);
                crypto_generichash_update(&mut st, &[0xceu8; 5]);
                drop(st);
            }),
            ("final into a 65-byte output (refused)", || {
                let mut st = crypto_generichash_init(None, 64).unwrap();
                crypto_generichash_update(&mut st, b"abc");
                let mut o = vec![0u8; 65];
                let _ = crypto_generichash_final(st, &mut o);
            }),
            ("init with an over-long key (refused)", || {
                let _ = crypto_generichash_init(Some(&[1u8; 65][..]), 32).map(drop);
            }),
            ("abandon an object-API hasher", || {
                let mut h = dryoc::generichash::GenericHash::<32, 32>::new_with_defaults::<dryoc::generichash::Key>(None).unwrap();
                h.update(&[0x11u8; 200]);
                drop(h);
            }),
            ("a complete one-shot hash", || {
                let mut o = [0u8; 32];
                crypto_generichash(&mut o, &[0x22u8; 300], None).unwrap();
            }),
            ("a derivation of another length", || {
                let mut o = [0u8; 64];
                let _ = crypto_kdf_derive_from_key(&mut o, 9, b"othersub", &[3u8; 32]);
            }),
        ];
        let mut seqs: Vec<Vec<usize>> = vec![];
        for a in 0..menu.len() {
            seqs.push(vec![a]);
            for b in 0..menu.len() {
                seqs.push(vec![a, b]);
            }
        }
        let key: [u8; 32] = karr(seed ^ 0x12, 5);
        let mut st = Stats::new();
        for sq in &seqs {
            // one fresh thread per sequence: what one sequence leaves behind cannot mask another
            let sq2 = sq.clone();
            let menu2: Vec<fn()> = menu.iter().map(|m| m.1).collect();
            let res = std::thread::spawn(move || {
                guarded(AssertUnwindSafe(|| {
                    for &i in &sq2 {
                        menu2[i]();
                    }
                    let mut out = vec![];
                    for len in [16usize, 32, 64] {
                        out.push((len, derive(len, 5, b"aftersth", &key), sodium::kdf_derive(len, 5, b"aftersth", &key)));
                    }
                    // and a second round (the first derivation may itself have repaired the state)
                    out.push((33, derive(33, 6, b"aftersth", &key), sodium::kdf_derive(33, 6, b"aftersth", &key)));
                    out
                }))
            })
            .join()
            .unwrap_or(Err("thread died".into()));
            let names: Vec<&str> = sq.iter().map(|&i| menu[i].0).collect();
            let bad = match &res {
                Err(p) => Some(format!("panicked: {}", p)),
                Ok(v) => v.iter().find(|(_, got, want)| got.as_ref().ok() != Some(want)).map(|(len, got, want)| format!("subkey of {} bytes: dryoc {:?}, libsodium {:?}", len, got.as_ref().map(|g| g.as_ref().map(|x| hx(x))), want.as_ref().map(|x| hx(x)))),
            };
            st.eval(&("after", sq), true, if bad.is_none() { "kdf-after-activity==libsodium" } else { "kdf-after-activity-differs" });
            if let Some(b) = bad {
                st.fail(Fail { check: "C12.harness".into(), signature: "C12/derive/differs-after-other-activity".into(), what: format!("after [{}] on the same thread: {}", names.join("; "), b), case: json!({"note": "deterministic: re-run bin/check C12", "sequence": names}) });
            }
        }
        ctx.absorb("after-other-blake2b-activity", st);
    }
    // lengths far outside the range (a length carried through a narrow integer comes back into
    // range): every length 65..=1100 and the powers of two +- 64 up to 2^20
    {
        let mut lens: Vec<usize> = (65..=1100).collect();
        for k in 11..=20 {
            for d in 0..=64usize {
                lens.push((1usize << k) + d);
                lens.push((1usize << k) - d);
            }
        }
        let key: [u8; 32] = karr(seed ^ 0x12, 3);
        let st = par_units(&lens, |&len, st| {
            for id in [0u64, 7] {
                let got = derive(len, id, b"lencheck", &key);
                let ok = got == Ok(None);
                st.eval(&("far-length", len, id), true, if ok { "kdf-rejects-length" } else { "kdf-length-not-rejected" });
                if !ok {
                    st.fail(Fail { check: "C12.kdf".into(), signature: "C12/derive/length-not-rejected/far".into(), what: format!("subkey length {} (id {}): {:?}", len, id, got.map(|g| g.map(|x| short(&x)))), case: json!({"len": len, "id": id, "ctx": hx(b"lencheck"), "key": hx(&key)}) });
                }
            }
        });
        ctx.absorb("far-lengths", st);
    }
    let units: Vec<usize> = (0..5).collect();
    let st = par_units(&units, |&ki, st| {
        let key: [u8; 32] = karr(seed ^ 0x12, ki);
        let mut outputs: Vec<(Vec<u8>, (usize, u64, usize))> = vec![];
        for len in 0..=80usize {
            for &id in &ids {
                for (ci, c) in cs.iter().enumerate() {
                    let want = sodium::kdf_derive(len, id, c, &key);
                    let got = derive(len, id, c, &key);
                    let in_range = (16..=64).contains(&len);
                    let ok = match &got {
                        Err(_) => false,
                        Ok(g) => g == &want && g.is_some() == in_range,
                    };
                    st.eval(&(ki, len, id, ci), true, if !ok { "kdf-differs" } else if in_range { "kdf==libsodium" } else { "kdf-rejects-length" });
                    if !ok {
                        st.fail(Fail {
                            check: "C12.kdf".into(),
                            signature: format!("C12/derive/{}", if got.is_err() { "panic".to_string() } else if in_range { format!("differs/len{}32", if len == 32 { "==" } else { "!=" }) } else { "length-not-rejected".into() }),
                            what: format!("subkey len {} id {} ctx {} key {}: dryoc {:?} libsodium {:?}", len, id, hx(c), K_NAMES[ki], got.as_ref().map(|g| g.as_ref().map(|x| hx(x))), want.as_ref().map(|x| hx(x))),
                            case: json!({"len": len, "id": id, "ctx": hx(c), "key": hx(&key)}),
                        });
                    }
                    if let Ok(Some(g)) = &got {
                        outputs.push((g.clone(), (len, id, ci)));
                    }
                    // the Python reference recomputes every 5th cell (and every 32-byte one)
                    if let (Ok(Some(g)), true) = (&got, len == 32 || (len + ci + (id % 7) as usize) % 5 == 0) {
                        let mut f = corpus.lock().unwrap();
                        let _ = writeln!(f, "{}", json!({"p": "kdf", "len": len, "id": id, "ctx": hx(c), "key": hx(&key), "out": hx(g)}));
                    }
                    // object API: the 32-byte column
                    if len == 32 {
                        let k = Kdf::<StackByteArray<32>, StackByteArray<8>>::from_parts(key.into(), (*c).into());
                        let a: Result<StackByteArray<32>, _> = k.derive_subkey(id);
                        let b = k.derive_subkey_to_vec(id);
                        let kv = Kdf::<Vec<u8>, Vec<u8>>::from_parts(key.to_vec(), c.to_vec());
                        let cvec: Result<Vec<u8>, _> = kv.derive_subkey(id);
                        let (pk, pc) = k.clone().into_parts();
                        // an object overwritten through Clone::clone_from derives what its source derives
                        let mut over = Kdf::<StackByteArray<32>, StackByteArray<8>>::from_parts([0x77u8; 32].into(), [0x33u8; 8].into());
                        over.clone_from(&k);
                        let mut overv = Kdf::<Vec<u8>, Vec<u8>>::from_parts(vec![0x77u8; 32], vec![0x33u8; 8]);
                        overv.clone_from(&kv);
                        let cf_ok = over.derive_subkey_to_vec(id).ok() == want && overv.derive_subkey_to_vec(id).ok() == want && k.clone().derive_subkey_to_vec(id).ok() == want;
                        let okobj = cf_ok && a.map(|x| x.to_vec()).ok() == want && b.ok() == want && cvec.ok() == want && pk.as_slice() == &key[..] && pc.as_slice() == &c[..];
                        // Vec containers longer than the fixed lengths: the object API and the classic
                        // function are handed the very same containers; the object API may refuse
                        // them, but it must not silently derive something else than the classic call
                        if ci < 2 && (id < 4 || id == u64::MAX) {
                            for extra in [1usize, 8, 32] {
                                let mut kl = key.to_vec();
                                kl.extend(std::iter::repeat(0xA7u8).take(extra));
                                let mut cl = c.to_vec();
                                cl.extend(std::iter::repeat(0x5Bu8).take(extra));
                                let (kl2, cl2) = (kl.clone(), cl.clone());
                                let obj = guarded(AssertUnwindSafe(move || Kdf::<Vec<u8>, Vec<u8>>::from_parts(kl2, cl2).derive_subkey_to_vec(id).ok()));
                                let cls = guarded(AssertUnwindSafe(move || {
                                    let mut out = [0xC3u8; 32];
                                    crypto_kdf_derive_from_key(&mut out, id, dryoc::types::ByteArray::<8>::as_array(&cl), dryoc::types::ByteArray::<32>::as_array(&kl)).ok().map(|_| out.to_vec())
                                }));
                                let consistent = match (&obj, &cls) {
                                    (Ok(Some(a)), Ok(Some(b))) => a == b,
                                    _ => true, // a refusal (Err or panic) on either side is not a divergence
                                };
                                st.eval(&("obj-oversize", ki, id, ci, extra), true, if consistent { "Kdf-object-consistent(oversize containers)" } else { "Kdf-object-diverges(oversize containers)" });
                                if !consistent {
                                    st.fail(Fail { check: "C12.kdf".into(), signature: "C12/object/diverges-from-classic/oversize-container".into(), what: format!("Kdf<Vec, Vec> holding a {}-byte key and a {}-byte context container: derive_subkey(id {}) silently differs from crypto_kdf_derive_from_key on the same containers", 32 + extra, 8 + extra, id), case: json!({"len": 32, "id": id, "ctx": hx(c), "key": hx(&key)}) });
                                }
                            }
                        }
                        st.eval(&("obj", ki, id, ci), true, if okobj { "Kdf-object==libsodium" } else { "Kdf-object-differs" });
                        if !okobj {
                            st.fail(Fail { check: "C12.kdf".into(), signature: "C12/object/differs".into(), what: format!("Kdf::derive_subkey id {} differs from libsodium", id), case: json!({"len": 32, "id": id, "ctx": hx(c), "key": hx(&key)}) });
                        }
                    }
                }
            }
        }
        // separation
        let mut sorted: Vec<&(Vec<u8>, (usize, u64, usize))> = outputs.iter().collect();
        sorted.sort();
        let mut clash = None;
        for w in sorted.windows(2) {
            if w[1].0.starts_with(&w[0].0) {
                clash = Some((w[0].1, w[1].1));
                break;
            }
        }
        st.eval(&("sep", ki), true, if clash.is_none() { "subkeys-pairwise-distinct-no-prefix" } else { "subkeys-collide" });
        if let Some((a, b)) = clash {
            st.fail(Fail { check: "C12.kdf".into(), signature: "C12/separation/prefix-or-equal".into(), what: format!("subkey for (len,id,ctx#)={:?} is equal to or a prefix of the subkey for {:?}", a, b), case: json!({"len": a.0, "id": a.1, "ctx": hx(&cs[a.2]), "key": hx(&key)}) });
        }
        if ki == 2 {
            st.sample(json!({"master_key": K_NAMES[ki], "lengths": "0..=80", "ids": ids, "contexts": cs.iter().map(|c| hx(c)).collect::<Vec<_>>()}));
        }
    });
    corpus.into_inner().unwrap().flush().unwrap();
    ctx.note("second_reference_corpus", json!(corpus_path));
    ctx.absorb("kdf", st);
    {
        let mut t: Vec<crate::purity::Entry> = vec![];
        let names = ["kdf#0", "kdf#1", "kdf#2", "kdf#3", "kdf#4", "kdf#5", "kdf#6", "kdf#7"];
        for (i, (len, id, ci, ki)) in [(16usize, 0u64, 0usize, 0usize), (32, 0, 0, 0), (32, 1, 0, 0), (32, 0, 2, 0), (32, 0, 0, 3), (64, u64::MAX, 1, 2), (33, 1 << 40, 4, 3), (17, 7, 2, 1)].into_iter().enumerate() {
            let c = cs[ci];
            let key: [u8; 32] = karr(seed ^ 0x12, ki);
            t.push((names[i], Box::new(move || derive(len, id, &c, &key).ok().flatten().unwrap_or_default())));
        }
        crate::purity::triples(&mut ctx, "C12", "C12.kdf", t);
    }
    ctx.require_outcome("kdf==libsodium");
    ctx.require_outcome("kdf-rejects-length");
    ctx.finish()
}
