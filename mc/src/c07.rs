//! C07 — hash, MAC and core primitives equal their specifications (E-prod against libsodium;
//! the second, independent reference runs over a dumped corpus in ref/spec_check.py).

use crate::core::*;
use crate::sodium;
use dryoc::auth::Auth;
use dryoc::classic::crypto_auth::*;
use dryoc::classic::crypto_core::*;
use dryoc::classic::crypto_generichash::*;
use dryoc::classic::crypto_hash::*;
use dryoc::classic::crypto_onetimeauth::*;
use dryoc::classic::crypto_shorthash::*;
use dryoc::generichash::GenericHash;
use dryoc::onetimeauth::OnetimeAuth;
use dryoc::sha512::Sha512;
use dryoc::types::*;
use serde_json::{json, Value};
use std::io::Write;
use std::panic::AssertUnwindSafe;

fn fail(st: &mut Stats, prim: &str, class: &str, what: String, case: Value) {
    st.fail(Fail { check: "C07.prim".into(), signature: format!("C07/{}/{}", prim, class), what, case });
}

// ---- BLAKE2b -------------------------------------------------------------------------

pub fn dry_generichash(outlen: usize, m: &[u8], key: Option<&[u8]>) -> Result<Vec<u8>, String> {
    guarded(AssertUnwindSafe(|| {
        let mut a = vec![0xC3u8; outlen];
        crypto_generichash(&mut a, m, key).map_err(|e| format!("{:?}", e))?;
        let mut st = crypto_generichash_init(key, outlen).map_err(|e| format!("{:?}", e))?;
        crypto_generichash_update(&mut st, m);
        let mut b = vec![0xC3u8; outlen];
        crypto_generichash_final(st, &mut b).map_err(|e| format!("{:?}", e))?;
        if a != b {
            return Err("one-shot and init/update/final disagree".to_string());
        }
        Ok(a)
    }))
    .and_then(|r| r)
}

macro_rules! gh_object {
    ($k:literal, $o:literal, $m:expr, $key:expr) => {{
        let key: Option<Vec<u8>> = $key.map(|k: &[u8]| k.to_vec());
        let a: Vec<u8> = GenericHash::<$k, $o>::hash_to_vec(&$m.to_vec(), key.as_ref()).unwrap();
        let mut h = GenericHash::<$k, $o>::new(key.as_ref()).unwrap();
        h.update($m);
        let b: StackByteArray<$o> = h.finalize().unwrap();
        let mut same = a == b.as_slice();
        {
            // every finalising convenience of the incremental object, for this instantiation
            let mut h2 = GenericHash::<$k, $o>::new(key.as_ref()).unwrap();
            h2.update($m);
            let v: Vec<u8> = h2.finalize_to_vec().unwrap();
            let mut h3 = GenericHash::<$k, $o>::new(key.as_ref()).unwrap();
            h3.update($m);
            let w: Vec<u8> = h3.finalize().unwrap();
            same &= a == v && a == w;
        }
        if $k == 32 && $o == 32 {
            // the *_with_defaults conveniences exist for the default lengths only
            let k32: Option<[u8; 32]> = key.as_ref().map(|k| k.as_slice().try_into().unwrap());
            let c: StackByteArray<32> = GenericHash::hash_with_defaults(&$m.to_vec(), k32.as_ref()).unwrap();
            let d: Vec<u8> = GenericHash::hash_with_defaults_to_vec(&$m.to_vec(), k32.as_ref()).unwrap();
            let mut h = GenericHash::new_with_defaults(k32.as_ref()).unwrap();
            h.update($m);
            let e: Vec<u8> = h.finalize_to_vec().unwrap();
            same &= a == c.as_slice() && a == d && a == e;
        }
        if !same {
            vec![]
        } else {
            a
        }
    }};
}

/// GenericHash<K,O> for the const-generic instantiations compiled in
fn gh_object(keylen: usize, outlen: usize, m: &[u8], key: Option<&[u8]>) -> Option<Vec<u8>> {
    macro_rules! row {
        ($o:literal) => {
            match keylen {
                16 => Some(gh_object!(16, $o, m, key)),
                32 => Some(gh_object!(32, $o, m, key)),
                64 => Some(gh_object!(64, $o, m, key)),
                _ => None,
            }
        };
    }
    match outlen {
        16 => row!(16),
        20 => row!(20),
        24 => row!(24),
        32 => row!(32),
        33 => row!(33),
        48 => row!(48),
        63 => row!(63),
        64 => row!(64),
        _ => None,
    }
}

pub fn replay(case: &Value) -> Option<String> {
    let m = unhx(&case["msg"]);
    match case["prim"].as_str().unwrap_or("") {
        "generichash" => {
            let outlen = case["outlen"].as_u64().unwrap() as usize;
            let key = if case["key"].is_null() { None } else { Some(unhx(&case["key"])) };
            let want = sodium::generichash(outlen, &m, key.as_deref());
            match dry_generichash(outlen, &m, key.as_deref()) {
                Ok(g) if g == want => None,
                Ok(g) => Some(format!("dryoc {} != libsodium {}", hx(&g), hx(&want))),
                Err(e) => Some(e),
            }
        }
        "onetimeauth" => {
            let k: [u8; 32] = unhx(&case["key"]).try_into().unwrap();
            let mut mac = [0xC3u8; 16];
            crypto_onetimeauth(&mut mac, &m, &k);
            let want = sodium::onetimeauth(&m, &k);
            if mac == want {
                None
            } else {
                Some(format!("dryoc {} != libsodium {}", hx(&mac), hx(&want)))
            }
        }
        "auth" => {
            let k: [u8; 32] = unhx(&case["key"]).try_into().unwrap();
            let mut mac = [0xC3u8; 32];
            crypto_auth(&mut mac, &m, &k);
            let want = sodium::auth(&m, &k);
            if mac == want {
                None
            } else {
                Some(format!("dryoc {} != libsodium {}", hx(&mac), hx(&want)))
            }
        }
        "sha512" => {
            let mut d = [0xC3u8; 64];
            crypto_hash_sha512(&mut d, &m);
            if d == sodium::sha512(&m) {
                None
            } else {
                Some("sha512 differs".into())
            }
        }
        "shorthash" => {
            let k: [u8; 16] = unhx(&case["key"]).try_into().unwrap();
            let mut d = [0xC3u8; 8];
            crypto_shorthash(&mut d, &m, &k);
            if d == sodium::shorthash(&m, &k) {
                None
            } else {
                Some("shorthash differs".into())
            }
        }
        other => Some(format!("replay for primitive '{}' is by re-running the check", other)),
    }
}

/// u128 pair helpers for constructed Poly1305 accumulators: value = hi * 2^128 + lo
fn blocks_for_target(hi: u32, lo: u128, count: u32) -> Option<Vec<[u8; 16]>> {
    // with r = 1 the pre-final accumulator is sum(m_i + 2^128); solve sum(m_i) = T - count*2^128
    if hi < count {
        return None;
    }
    let d = hi - count; // sum(m_i) = d * 2^128 + lo = d * (2^128 - 1) + (lo + d)
    let (rest, ov) = lo.overflowing_add(d as u128);
    if ov {
        return None;
    }
    let need = d + if rest > 0 { 1 } else { 0 };
    if need > count {
        return None;
    }
    let mut v = vec![];
    for _ in 0..d {
        v.push(u128::MAX.to_le_bytes());
    }
    if rest > 0 {
        v.push(rest.to_le_bytes());
    }
    while (v.len() as u32) < count {
        v.push([0u8; 16]);
    }
    Some(v)
}

pub fn run() -> i32 {
    sodium::init();
    quiet_panics();
    let mut ctx = Ctx::new("C07", "exploration");
    let seed = ctx.seed;
    let tier = ctx.tier;
    let gh_max = tier.pick(700usize, 2100);
    let max = tier.pick(2100usize, 4200);
    ctx.rule = format!("full products per primitive, each cell compared with libsodium: BLAKE2b every (outlen 16..=64) x (no key | every key length 16..=64) x every input length 0..={} (classic one-shot, init/update/final, GenericHash<K,O> for 24 const instantiations); SHA-512, HMAC-SHA-512-256, Poly1305, SipHash-2-4: every length 0..={} x 5 keys x 4 contents (classic and object API); every primitive additionally on large inputs (4 KiB..64 KiB+1, thorough to 1 MiB+1); Poly1305 constructed operands (r/s corner values x all 1..=4-block strings over 5 block values + partial tails; accumulators solved to hit p-2..p+6, 2^130-6..2^130+6, 2p-2..2p+2 exactly); HSalsa20/HChaCha20 key x input alphabet, all 384 single-bit inputs, with/without custom constants; little-endian increment for every 1- and 2-byte value, all-0xff lengths 0..=16 and carry boundaries; verify functions: correct tag accepted, every single-bit mutation, every two-bit mutation and structured multi-bit mutations (same difference in every 4/8/16-byte word, halves swapped, complement) rejected, every proper prefix of the correct tag (Vec containers) never accepted; a corpus of the cells (every 3rd length) is written for the independent Python reference; non-trivial = cell executed in dryoc and libsodium", gh_max, max);
    ctx.assume("reference 1: libsodium 1.0.18 in-process; reference 2: Python hashlib/hmac/big-integer re-computation of the dumped corpus (ref/spec_check.py), run by bin/check after this binary");
    ctx.assume("inputs of 2^64 bytes or more are excluded, as in the property");

    // corpus for the second reference
    let corpus_path = format!("{}/logs/c07_corpus.jsonl", VERIF_ROOT);
    let _ = std::fs::create_dir_all(format!("{}/logs", VERIF_ROOT));
    let corpus = std::sync::Mutex::new(std::io::BufWriter::new(std::fs::File::create(&corpus_path).expect("corpus file")));
    let dump = |v: Value| {
        let mut g = corpus.lock().unwrap();
        let _ = writeln!(g, "{}", v);
    };

    // BLAKE2b
    let mut units: Vec<(usize, usize)> = vec![]; // outlen, keylen (0 = none)
    for o in 16..=64 {
        units.push((o, 0));
        for k in 16..=64 {
            units.push((o, k));
        }
    }
    let st = par_units(&units, |&(outlen, keylen), st| {
        let key = if keylen == 0 { None } else { Some(kval(seed ^ 0xb2, 2 + (keylen + outlen) % 3, keylen)) };
        for len in 0..=gh_max {
            let m = cval(seed, 2 + (len + outlen) % 2, len);
            let want = sodium::generichash(outlen, &m, key.as_deref());
            let got = dry_generichash(outlen, &m, key.as_deref());
            let mut ok = got.as_ref().map(|g| g == &want).unwrap_or(false);
            if ok {
                if let Some(o) = gh_object(keylen, outlen, &m, key.as_deref()) {
                    ok = o == want;
                    st.bump("generichash_object_cells", 1);
                }
            }
            st.eval(&("gh", outlen, keylen, len), true, if ok { "blake2b==libsodium" } else { "blake2b-differs" });
            if !ok {
                fail(st, "generichash", "differs", format!("outlen {} keylen {} input len {}: {:?} vs libsodium {}", outlen, keylen, len, got.as_ref().map(|g| hx(g)), hx(&want)), json!({"prim": "generichash", "outlen": outlen, "key": key.as_ref().map(|k| hx(k)), "msg": hx(&m)}));
            }
            if len % 3 == 0 && (outlen % 8 == 0 || outlen == 63) && (keylen % 16 == 0 || keylen == 17) {
                dump(json!({"p": "blake2b", "outlen": outlen, "key": key.as_ref().map(|k| hx(k)), "m": hx(&m), "out": hx(&want), "dry": got.as_ref().ok().map(|g| hx(g))}));
            }
        }
        if outlen == 32 && keylen == 32 {
            st.sample(json!({"primitive": "BLAKE2b", "outlen": 32, "keylen": 32, "input_lengths": format!("0..={}", gh_max)}));
        }
    });
    ctx.absorb("blake2b", st);

    // SHA-512 / HMAC / Poly1305 / SipHash
    let units: Vec<usize> = (0..=max).collect();
    let st = par_units(&units, |&len, st| {
        for ci in 0..4 {
            let m = cval(seed, ci, len);
            // sha512 (no key)
            let want = sodium::sha512(&m);
            let mut d = [0xC3u8; 64];
            crypto_hash_sha512(&mut d, &m);
            let o: StackByteArray<64> = Sha512::compute(&m);
            let ov = Sha512::compute_to_vec(&m);
            // the copy-into-output forms, into buffers that already hold something
            let mut oi = StackByteArray::<64>::from(&[0xa5u8; 64]);
            Sha512::compute_into_bytes(&mut oi, &m);
            let mut oj = [0x5au8; 64];
            let mut h = Sha512::new();
            h.update(&m);
            h.finalize_into_bytes(&mut oj);
            let ok = d == want && o.as_slice() == &want[..] && ov == want && oi.as_slice() == &want[..] && oj == want;
            st.eval(&("sha512", len, ci), true, if ok { "sha512==libsodium" } else { "sha512-differs" });
            if !ok {
                fail(st, "sha512", "differs", format!("len {} content {}", len, C_NAMES[ci]), json!({"prim": "sha512", "msg": hx(&m)}));
            }
            if len % 3 == 0 {
                dump(json!({"p": "sha512", "m": hx(&m), "out": hx(&d)}));
            }
            for ki in 0..5 {
                let k32: [u8; 32] = karr(seed ^ 0x7, ki);
                let k16: [u8; 16] = karr(seed ^ 0x7, ki);
                // HMAC-SHA-512-256
                let want = sodium::auth(&m, &k32);
                let mut mac = [0xC3u8; 32];
                crypto_auth(&mut mac, &m, &k32);
                let om: StackByteArray<32> = Auth::compute(k32, &m);
                let ok = mac == want && om.as_slice() == &want[..] && Auth::compute_to_vec(k32, &m) == want && crypto_auth_verify(&want, &m, &k32).is_ok() && Auth::compute_and_verify(&want, k32, &m).is_ok();
                st.eval(&("auth", len, ci, ki), true, if ok { "hmac==libsodium" } else { "hmac-differs" });
                if !ok {
                    fail(st, "auth", "differs", format!("len {} content {} key {}", len, C_NAMES[ci], K_NAMES[ki]), json!({"prim": "auth", "key": hx(&k32), "msg": hx(&m)}));
                }
                // Poly1305
                let want = sodium::onetimeauth(&m, &k32);
                let mut mac = [0xC3u8; 16];
                crypto_onetimeauth(&mut mac, &m, &k32);
                let om: StackByteArray<16> = OnetimeAuth::compute(k32, &m);
                let ok = mac == want && om.as_slice() == &want[..] && OnetimeAuth::compute_to_vec(k32, &m) == want && crypto_onetimeauth_verify(&want, &m, &k32).is_ok() && OnetimeAuth::compute_and_verify(&want, k32, &m).is_ok();
                st.eval(&("poly", len, ci, ki), true, if ok { "poly1305==libsodium" } else { "poly1305-differs" });
                if !ok {
                    fail(st, "onetimeauth", "differs", format!("len {} content {} key {}", len, C_NAMES[ci], K_NAMES[ki]), json!({"prim": "onetimeauth", "key": hx(&k32), "msg": hx(&m)}));
                }
                // SipHash-2-4
                let want8 = sodium::shorthash(&m, &k16);
                let mut h = [0xC3u8; 8];
                crypto_shorthash(&mut h, &m, &k16);
                st.eval(&("sip", len, ci, ki), true, if h == want8 { "siphash==libsodium" } else { "siphash-differs" });
                if h != want8 {
                    fail(st, "shorthash", "differs", format!("len {} content {} key {}", len, C_NAMES[ci], K_NAMES[ki]), json!({"prim": "shorthash", "key": hx(&k16), "msg": hx(&m)}));
                }
                if len % 3 == 0 && ci >= 2 {
                    dump(json!({"p": "hmac", "k": hx(&k32), "m": hx(&m), "out": hx(&sodium::auth(&m, &k32))}));
                    dump(json!({"p": "poly1305", "k": hx(&k32), "m": hx(&m), "out": hx(&mac)}));
                    dump(json!({"p": "siphash", "k": hx(&k16), "m": hx(&m), "out": hx(&h)}));
                }
            }
        }
        // verify functions: every single-bit mutation of the authenticator is rejected
        if len <= 64 || len % 97 == 0 {
            let m = cval(seed, 3, len);
            let k32: [u8; 32] = karr(seed ^ 0x7, 3);
            let good = sodium::auth(&m, &k32);
            let mut rejected = 0;
            for b in 0..256 {
                let mut t = good;
                t[b / 8] ^= 1 << (b % 8);
                let a = crypto_auth_verify(&t, &m, &k32).is_err();
                let mut au = Auth::new(k32);
                au.update(&m);
                let c = au.verify(&t).is_err();
                if a && c {
                    rejected += 1;
                } else {
                    fail(st, "auth_verify", "accepts-mutated", format!("crypto_auth_verify/Auth::verify accepted a tag with bit {} flipped (len {})", b, len), json!({"prim": "auth", "key": hx(&k32), "msg": hx(&m)}));
                }
            }
            let goodp = sodium::onetimeauth(&m, &k32);
            for b in 0..128 {
                let mut t = goodp;
                t[b / 8] ^= 1 << (b % 8);
                let a = crypto_onetimeauth_verify(&t, &m, &k32).is_err();
                let mut au = OnetimeAuth::new(k32);
                au.update(&m);
                let c = au.verify(&t).is_err();
                if a && c {
                    rejected += 1;
                } else {
                    fail(st, "onetimeauth_verify", "accepts-mutated", format!("crypto_onetimeauth_verify/OnetimeAuth::verify accepted a tag with bit {} flipped (len {})", b, len), json!({"prim": "onetimeauth", "key": hx(&k32), "msg": hx(&m)}));
                }
            }
            st.eval(&("verify", len), true, if rejected == 384 { "verify-rejects-all-384-mutations" } else { "verify-accepts-mutation" });
            // every two-bit mutation, and structured multi-bit ones (the same difference in several
            // words, halves swapped, complemented): a comparison that folds word differences
            // together wrongly accepts exactly such values
            if len == 0 || len == 17 {
                let mut all_rejected = true;
                let mut muts_a: Vec<[u8; 32]> = vec![];
                for i in 0..256 {
                    for j in (i + 1)..256 {
                        let mut t = good;
                        t[i / 8] ^= 1 << (i % 8);
                        t[j / 8] ^= 1 << (j % 8);
                        muts_a.push(t);
                    }
                }
                for w in [4usize, 8, 16] {
                    for d in [1u8, 0x80, 0xff] {
                        let mut t = good;
                        for k in (0..32).step_by(w) {
                            t[k] ^= d;
                        }
                        muts_a.push(t);
                    }
                }
                let mut sw = good;
                sw.rotate_left(16);
                if sw != good {
                    muts_a.push(sw);
                }
                muts_a.push(good.map(|b| !b));
                for t in &muts_a {
                    let a = crypto_auth_verify(t, &m, &k32).is_err();
                    let c = Auth::compute_and_verify(t, k32, &m).is_err();
                    if !(a && c) {
                        all_rejected = false;
                        fail(st, "auth_verify", "accepts-mutated", format!("crypto_auth_verify / Auth::compute_and_verify accepted the multi-bit mutation {} of {} (len {})", hx(t), hx(&good), len), json!({"prim": "auth", "key": hx(&k32), "msg": hx(&m)}));
                        break;
                    }
                }
                let mut muts_p: Vec<[u8; 16]> = vec![];
                for i in 0..128 {
                    for j in (i + 1)..128 {
                        let mut t = goodp;
                        t[i / 8] ^= 1 << (i % 8);
                        t[j / 8] ^= 1 << (j % 8);
                        muts_p.push(t);
                    }
                }
                for w in [4usize, 8] {
                    for d in [1u8, 0x80, 0xff] {
                        let mut t = goodp;
                        for k in (0..16).step_by(w) {
                            t[k] ^= d;
                        }
                        muts_p.push(t);
                    }
                }
                let mut sw = goodp;
                sw.rotate_left(8);
                if sw != goodp {
                    muts_p.push(sw);
                }
                muts_p.push(goodp.map(|b| !b));
                for t in &muts_p {
                    let a = crypto_onetimeauth_verify(t, &m, &k32).is_err();
                    let c = OnetimeAuth::compute_and_verify(t, k32, &m).is_err();
                    let mut au = OnetimeAuth::new(k32);
                    au.update(&m);
                    let d = au.verify(t).is_err();
                    if !(a && c && d) {
                        all_rejected = false;
                        fail(st, "onetimeauth_verify", "accepts-mutated", format!("a one-time-auth verify function accepted the multi-bit mutation {} of {} (len {})", hx(t), hx(&goodp), len), json!({"prim": "onetimeauth", "key": hx(&k32), "msg": hx(&m)}));
                        break;
                    }
                }
                st.eval(&("verify-multibit", len), true, if all_rejected { "verify-rejects-all-multi-bit-mutations" } else { "verify-accepts-mutation" });
                st.bump("multi_bit_mutations", (muts_a.len() + muts_p.len()) as u64);
            }
            // authenticators handed over in a run-time-sized container of the wrong length (every
            // proper prefix; longer containers are by design read as their first N bytes) are "other values" too:
            // they must never be accepted (whether refused by Err or by a panic is not fixed)
            if len <= 8 {
                let wrong: Vec<Vec<u8>> = (0..32).map(|n| good[..n].to_vec()).collect();
                let wrongp: Vec<Vec<u8>> = (0..16).map(|n| goodp[..n].to_vec()).collect();
                let mut all_refused = true;
                for t in &wrong {
                    let (m2, t2) = (m.clone(), t.clone());
                    let a = guarded(AssertUnwindSafe(move || {
                        let mut au = Auth::new(k32);
                        au.update(&m2);
                        au.verify(&t2).is_ok()
                    }));
                    let (m2, t2) = (m.clone(), t.clone());
                    let b = guarded(AssertUnwindSafe(move || Auth::compute_and_verify(&t2, k32, &m2).is_ok()));
                    if a == Ok(true) || b == Ok(true) {
                        all_refused = false;
                        fail(st, "auth_verify", "accepts-wrong-length", format!("Auth::verify / compute_and_verify accepted a {}-byte authenticator (message len {})", t.len(), len), json!({"prim": "auth", "key": hx(&k32), "msg": hx(&m)}));
                    }
                }
                for t in &wrongp {
                    let (m2, t2) = (m.clone(), t.clone());
                    let a = guarded(AssertUnwindSafe(move || {
                        let mut au = OnetimeAuth::new(k32);
                        au.update(&m2);
                        au.verify(&t2).is_ok()
                    }));
                    let (m2, t2) = (m.clone(), t.clone());
                    let b = guarded(AssertUnwindSafe(move || OnetimeAuth::compute_and_verify(&t2, k32, &m2).is_ok()));
                    if a == Ok(true) || b == Ok(true) {
                        all_refused = false;
                        fail(st, "onetimeauth_verify", "accepts-wrong-length", format!("OnetimeAuth::verify / compute_and_verify accepted a {}-byte authenticator (message len {})", t.len(), len), json!({"prim": "onetimeauth", "key": hx(&k32), "msg": hx(&m)}));
                    }
                }
                st.eval(&("verify-wrong-length", len), true, if all_refused { "verify-refuses-wrong-length" } else { "verify-accepts-wrong-length" });
            }
        }
        if len == 129 {
            st.sample(json!({"primitives": ["SHA-512", "HMAC-SHA-512-256", "Poly1305", "SipHash-2-4"], "input_len": 129, "keys": K_NAMES, "contents": C_NAMES}));
        }
    });
    ctx.absorb("sha512-hmac-poly1305-siphash", st);

    // large inputs: thresholds that only engage for multi-KiB updates
    let big: Vec<usize> = match tier {
        Tier::Quick => vec![4095, 4096, 4097, 8191, 8192, 8193, 16384, 65537],
        Tier::Thorough => vec![4095, 4096, 4097, 8191, 8192, 8193, 12288, 16383, 16384, 16385, 32768, 65535, 65536, 65537, 131072, 262145, 1048577],
    };
    let st = par_units(&big, |&len, st| {
        let m = cval(seed, 3, len);
        let k32: [u8; 32] = karr(seed ^ 0x7, 3);
        let k16: [u8; 16] = karr(seed ^ 0x7, 3);
        let mut ok = true;
        for (outlen, key) in [(16usize, None), (32, None), (64, None), (32, Some(&k32[..])), (64, Some(&k32[..16])), (48, Some(&m[..64]))] {
            let want = sodium::generichash(outlen, &m, key);
            ok &= dry_generichash(outlen, &m, key).map(|g| g == want).unwrap_or(false);
            if let Some(o) = gh_object(key.map(|k| k.len()).unwrap_or(0), outlen, &m, key) {
                ok &= o == want;
            }
        }
        let mut d = [0xC3u8; 64];
        crypto_hash_sha512(&mut d, &m);
        ok &= d == sodium::sha512(&m);
        let mut mac = [0xC3u8; 32];
        crypto_auth(&mut mac, &m, &k32);
        ok &= mac == sodium::auth(&m, &k32);
        let mut t16 = [0xC3u8; 16];
        crypto_onetimeauth(&mut t16, &m, &k32);
        ok &= t16 == sodium::onetimeauth(&m, &k32);
        let mut h8 = [0xC3u8; 8];
        crypto_shorthash(&mut h8, &m, &k16);
        ok &= h8 == sodium::shorthash(&m, &k16);
        st.eval(&("big", len), true, if ok { "large-input==libsodium" } else { "large-input-differs" });
        if !ok {
            fail(st, "large-input", "differs", format!("a primitive differs from libsodium on a {}-byte input", len), json!({"prim": "generichash", "outlen": 32, "key": Value::Null, "msg": hx(&m)}));
        }
    });
    ctx.absorb("large-inputs", st);

    // Poly1305 constructed operands
    let mut rs: Vec<[u8; 16]> = vec![];
    for v in [0u128, 1, 2, 4, 0x0ffffffc0ffffffc0ffffffc0fffffff, 0x0ffffffc0ffffffc0ffffffc00000000, 0x00000000000000000ffffffc0fffffff, 0x0ffffffc000000000000000000000000, 0x000000000ffffffc0000000000000000, 0x0000000000000000000000000fffffff, 0x0ffffffc0ffffffc0000000000000000] {
        rs.push(v.to_le_bytes());
    }
    for i in 2..5 {
        let mut r: [u8; 16] = karr(seed ^ 0x1305, i);
        // clamp
        r[3] &= 15;
        r[7] &= 15;
        r[11] &= 15;
        r[15] &= 15;
        r[4] &= 252;
        r[8] &= 252;
        r[12] &= 252;
        rs.push(r);
    }
    let ss: Vec<[u8; 16]> = [0u128, 1, (1 << 64) - 1, 1 << 64, u128::MAX].iter().map(|v| v.to_le_bytes()).collect();
    let blockvals: Vec<[u8; 16]> = vec![
        [0u8; 16],
        [0xffu8; 16],
        1u128.to_le_bytes(),
        {
            let mut b = [0xffu8; 16];
            b[0] = 0xfb;
            b
        },
        {
            let mut b = [0xffu8; 16];
            b[0] = 0xfa;
            b[15] = 0x03;
            b
        },
    ];
    let mut msgs: Vec<Vec<u8>> = vec![vec![]];
    for nb in 1..=4usize {
        let total = 5usize.pow(nb as u32);
        for idx in 0..total {
            let mut m = vec![];
            let mut x = idx;
            for _ in 0..nb {
                m.extend_from_slice(&blockvals[x % 5]);
                x /= 5;
            }
            msgs.push(m);
        }
    }
    let base_count = msgs.len();
    for i in 0..(1 + 5 + 25) {
        for t in 1..=15 {
            let mut m = msgs[i].clone();
            m.extend(std::iter::repeat(0xffu8).take(t));
            msgs.push(m);
        }
    }
    // constructed accumulators (r = 1): targets as (hi, lo) with value hi*2^128 + lo
    let mut targets: Vec<(u32, u128, String)> = vec![];
    let p_lo: u128 = u128::MAX - 4; // p = 3*2^128 + (2^128 - 5)
    for d in -2i64..=6 {
        let (hi, lo) = add_signed(3, p_lo, d);
        targets.push((hi, lo, format!("p{:+}", d)));
    }
    for d in -6i64..=6 {
        let (hi, lo) = add_signed(4, 0, d);
        targets.push((hi, lo, format!("2^130{:+}", d)));
    }
    let twop_lo: u128 = u128::MAX - 9; // 2p = 7*2^128 + (2^128 - 10)
    for d in -2i64..=2 {
        let (hi, lo) = add_signed(7, twop_lo, d);
        targets.push((hi, lo, format!("2p{:+}", d)));
    }
    let mut constructed: Vec<(Vec<u8>, String)> = vec![];
    for (hi, lo, name) in &targets {
        for count in 2..=8u32 {
            if let Some(bl) = blocks_for_target(*hi, *lo, count) {
                let mut m = vec![];
                for b in &bl {
                    m.extend_from_slice(b);
                }
                constructed.push((m, format!("{} in {} blocks", name, count)));
            }
        }
    }
    let units: Vec<usize> = (0..rs.len()).collect();
    let st = par_units(&units, |&ri, st| {
        for (si, s) in ss.iter().enumerate() {
            let mut k = [0u8; 32];
            k[..16].copy_from_slice(&rs[ri]);
            k[16..].copy_from_slice(s);
            for (mi, m) in msgs.iter().enumerate() {
                let want = sodium::onetimeauth(m, &k);
                let mut mac = [0xC3u8; 16];
                crypto_onetimeauth(&mut mac, m, &k);
                st.eval(&("polyop", ri, si, mi), true, if mac == want { "poly1305-operand==libsodium" } else { "poly1305-operand-differs" });
                if mac != want {
                    fail(st, "onetimeauth", "operand-differs", format!("r={} s={} msg={}: dryoc {} libsodium {}", hx(&rs[ri]), hx(s), short(m), hx(&mac), hx(&want)), json!({"prim": "onetimeauth", "key": hx(&k), "msg": hx(m)}));
                }
                if mi % 5 == 0 {
                    dump(json!({"p": "poly1305", "k": hx(&k), "m": hx(m), "out": hx(&mac)}));
                }
            }
            if ri == 1 {
                // r = 1: constructed accumulators
                for (ci, (m, name)) in constructed.iter().enumerate() {
                    let want = sodium::onetimeauth(m, &k);
                    let mut mac = [0xC3u8; 16];
                    crypto_onetimeauth(&mut mac, m, &k);
                    st.eval(&("polyacc", si, ci), true, if mac == want { "poly1305-accumulator==libsodium" } else { "poly1305-accumulator-differs" });
                    st.bump("constructed_accumulator_cases", 1);
                    if mac != want {
                        fail(st, "onetimeauth", "accumulator-differs", format!("accumulator target {} (r=1, s={}): dryoc {} libsodium {}", name, hx(s), hx(&mac), hx(&want)), json!({"prim": "onetimeauth", "key": hx(&k), "msg": hx(m)}));
                    }
                    dump(json!({"p": "poly1305", "k": hx(&k), "m": hx(m), "out": hx(&mac)}));
                }
            }
        }
    });
    ctx.note("poly1305_operands", json!({"r_values": rs.len(), "s_values": ss.len(), "block_strings": base_count, "with_partial_tails": msgs.len() - base_count, "constructed_targets": targets.len(), "solvable_(target,count)_pairs": constructed.len()}));
    ctx.absorb("poly1305-operands", st);

    // HSalsa20 / HChaCha20 / increment
    let mut st = Stats::new();
    let consts: [Option<(u32, u32, u32, u32)>; 2] = [None, Some((0x01020304, 0xfffefdfc, 0, 0xdeadbeef))];
    let mut core_inputs: Vec<([u8; 32], [u8; 16])> = vec![];
    for ki in 0..5 {
        for ii in 0..5 {
            core_inputs.push((karr(seed ^ 0xc0, ki), karr(seed ^ 0xc1, ii)));
        }
    }
    for b in 0..384 {
        let mut k = [0u8; 32];
        let mut i = [0u8; 16];
        if b < 256 {
            k[b / 8] = 1 << (b % 8);
        } else {
            i[(b - 256) / 8] = 1 << (b % 8);
        }
        core_inputs.push((k, i));
    }
    for (n, (k, i)) in core_inputs.iter().enumerate() {
        for c in &consts {
            let cb: Option<[u8; 16]> = c.map(|(a, b, cc, d)| {
                let mut x = [0u8; 16];
                x[..4].copy_from_slice(&a.to_le_bytes());
                x[4..8].copy_from_slice(&b.to_le_bytes());
                x[8..12].copy_from_slice(&cc.to_le_bytes());
                x[12..].copy_from_slice(&d.to_le_bytes());
                x
            });
            let mut o = [0xC3u8; 32];
            crypto_core_hsalsa20(&mut o, i, k, *c);
            let want = sodium::hsalsa20(i, k, cb.as_ref());
            st.eval(&("hsalsa", n, c.is_some()), true, if o == want { "hsalsa20==libsodium" } else { "hsalsa20-differs" });
            if o != want {
                fail(&mut st, "hsalsa20", "differs", format!("key {} input {} constants {:?}", hx(k), hx(i), c), json!({"prim": "hsalsa20", "msg": hx(i)}));
            }
            dump(json!({"p": "hsalsa20", "k": hx(k), "i": hx(i), "c": cb.map(|c| hx(&c)), "out": hx(&o)}));
            let mut o = [0xC3u8; 32];
            crypto_core_hchacha20(&mut o, i, k, *c);
            let want = sodium::hchacha20(i, k, cb.as_ref());
            st.eval(&("hchacha", n, c.is_some()), true, if o == want { "hchacha20==libsodium" } else { "hchacha20-differs" });
            if o != want {
                fail(&mut st, "hchacha20", "differs", format!("key {} input {} constants {:?}", hx(k), hx(i), c), json!({"prim": "hchacha20", "msg": hx(i)}));
            }
            dump(json!({"p": "hchacha20", "k": hx(k), "i": hx(i), "c": cb.map(|c| hx(&c)), "out": hx(&o)}));
        }
    }
    // little-endian increment
    let mut inc_cases: Vec<Vec<u8>> = vec![];
    for v in 0..=255u8 {
        inc_cases.push(vec![v]);
    }
    for v in 0..=65535u16 {
        inc_cases.push(v.to_le_bytes().to_vec());
    }
    for n in 0..=16 {
        inc_cases.push(vec![0xff; n]);
    }
    for n in [4usize, 8, 12, 24] {
        for b in 0..n {
            let mut v = vec![0u8; n];
            for x in v.iter_mut().take(b) {
                *x = 0xff;
            }
            inc_cases.push(v.clone());
            v[b] = 0xfe;
            inc_cases.push(v);
        }
    }
    for (n, c) in inc_cases.iter().enumerate() {
        let mut a = c.clone();
        let mut b = c.clone();
        dryoc::utils::increment_bytes(&mut a);
        let mut a2 = c.clone();
        dryoc::utils::sodium_increment(&mut a2);
        sodium::increment(&mut b);
        // independent: big-integer +1 mod 256^n
        let mut w = c.clone();
        let mut carry = true;
        for x in w.iter_mut() {
            if carry {
                let (v, o) = x.overflowing_add(1);
                *x = v;
                carry = o;
            }
        }
        let ok = a == b && a2 == b && a == w;
        st.eval(&("inc", n), true, if ok { "increment==libsodium" } else { "increment-differs" });
        if !ok {
            fail(&mut st, "increment", "differs", format!("increment of {} gives {} (libsodium {})", hx(c), hx(&a), hx(&b)), json!({"prim": "increment", "msg": hx(c)}));
        }
    }
    st.sample(json!({"primitives": ["HSalsa20", "HChaCha20", "increment_bytes"], "core_inputs": core_inputs.len(), "increment_cases": inc_cases.len()}));
    ctx.absorb("cores-increment", st);
    corpus.into_inner().unwrap().flush().unwrap();
    ctx.note("second_reference_corpus", json!(corpus_path));
    {
        let m1 = cval(seed, 3, 200);
        let m2 = cval(seed, 2, 129);
        let k1: [u8; 32] = karr(seed ^ 0x7, 3);
        let k2: [u8; 32] = karr(seed ^ 0x7, 2);
        let mut t: Vec<crate::purity::Entry> = vec![];
        for (name, m, k) in [("m1k1", m1.clone(), k1), ("m2k2", m2.clone(), k2)] {
            let (a, b) = (m.clone(), k);
            t.push((if name == "m1k1" { "generichash(keyed) #1" } else { "generichash(keyed) #2" }, Box::new(move || dry_generichash(48, &a, Some(&b[..])).unwrap_or_default())));
            let a = m.clone();
            t.push((if name == "m1k1" { "generichash(unkeyed) #1" } else { "generichash(unkeyed) #2" }, Box::new(move || dry_generichash(32, &a, None).unwrap_or_default())));
            let a = m.clone();
            t.push((if name == "m1k1" { "GenericHash<32,64> #1" } else { "GenericHash<32,64> #2" }, Box::new(move || gh_object(32, 64, &a, Some(&k[..])).unwrap_or_default())));
            let a = m.clone();
            t.push((if name == "m1k1" { "sha512 #1" } else { "sha512 #2" }, Box::new(move || {
                let mut d = [0xC3u8; 64];
                crypto_hash_sha512(&mut d, &a);
                d.to_vec()
            })));
            let a = m.clone();
            t.push((if name == "m1k1" { "auth #1" } else { "auth #2" }, Box::new(move || {
                let mut d = [0xC3u8; 32];
                crypto_auth(&mut d, &a, &k);
                d.to_vec()
            })));
            let a = m.clone();
            t.push((if name == "m1k1" { "onetimeauth #1" } else { "onetimeauth #2" }, Box::new(move || {
                let mut d = [0xC3u8; 16];
                crypto_onetimeauth(&mut d, &a, &k);
                d.to_vec()
            })));
            let a = m.clone();
            t.push((if name == "m1k1" { "shorthash #1" } else { "shorthash #2" }, Box::new(move || {
                let mut d = [0xC3u8; 8];
                crypto_shorthash(&mut d, &a, k[..16].try_into().unwrap());
                d.to_vec()
            })));
            t.push((if name == "m1k1" { "hsalsa20 #1" } else { "hchacha20 #2" }, Box::new(move || {
                let mut d = [0xC3u8; 32];
                if name == "m1k1" {
                    crypto_core_hsalsa20(&mut d, k[..16].try_into().unwrap(), &k, None);
                } else {
                    crypto_core_hchacha20(&mut d, k[..16].try_into().unwrap(), &k, None);
                }
                d.to_vec()
            })));
        }
        crate::purity::triples(&mut ctx, "C07", "C07.prim", t);
    }
    ctx.require_outcome("blake2b==libsodium");
    ctx.require_outcome("poly1305-accumulator==libsodium");
    ctx.require_outcome("verify-rejects-all-384-mutations");
    ctx.finish()
}

fn add_signed(hi: u32, lo: u128, d: i64) -> (u32, u128) {
    if d >= 0 {
        let (l, o) = lo.overflowing_add(d as u128);
        (hi + o as u32, l)
    } else {
        let (l, o) = lo.overflowing_sub((-d) as u128);
        (hi - o as u32, l)
    }
}
