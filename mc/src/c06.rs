//! C06 — Ed25519 signatures RFC 8032 exact, strict verification (E-prod + E-fault).

use crate::c05::{group_l, le_add, le_pow2, p25519, B32};
use crate::core::*;
use crate::sodium;
use dryoc::classic::crypto_sign::*;
use dryoc::sign::{IncrementalSigner, SignedMessage, SigningKeyPair};
use dryoc::types::*;
use serde_json::{json, Value};
use std::panic::AssertUnwindSafe;

type Sig = [u8; 64];
type Pk = [u8; 32];

fn seeds(seed: u64) -> Vec<[u8; 32]> {
    let mut v: Vec<[u8; 32]> = (0..5).map(|i| karr(seed ^ 0x5ee, i)).collect();
    // RFC 8032 section 7.1 test seeds
    for h in ["9d61b19deffd5a60ba844af492ec2cc44449c5697b326919703bac031cae7f60", "4ccd089b28ff96da9db6c346ec114e0f5b8a319f35aba624da8cf6ed4fb8a6fb", "c5aa8df43f9f837bedb7442f31dcb7b166d38535076f094b85ce3a2e0b4458f7"] {
        v.push(hex::decode(h).unwrap().try_into().unwrap());
    }
    v
}

fn add256(a: &B32, b: &B32) -> Option<B32> {
    let mut r = [0u8; 32];
    let mut c = 0u16;
    for i in 0..32 {
        let v = a[i] as u16 + b[i] as u16 + c;
        r[i] = v as u8;
        c = v >> 8;
    }
    if c == 0 {
        Some(r)
    } else {
        None
    }
}

pub fn small_order_encodings() -> Vec<B32> {
    let base: Vec<B32> = vec![
        [0u8; 32],
        le_add(&[0u8; 32], 1),
        hex::decode("26e8958fc2b227b045c3f489f2ef98f0d5dfac05d3c63339b13802886d53fc05").unwrap().try_into().unwrap(),
        hex::decode("c7176a703d4dd84fba3c0b760d10670f2a2053fa2c39ccc64ec7fd7792ac037a").unwrap().try_into().unwrap(),
        le_add(&p25519(), -1),
        p25519(),
        le_add(&p25519(), 1),
    ];
    let mut v = base.clone();
    for b in &base {
        let mut t = *b;
        t[31] |= 0x80;
        v.push(t);
    }
    v
}

/// every verify entry point of dryoc on (sig, msg, pk) in pure mode; all must agree
fn dry_verify_pure(sig: &Sig, m: &[u8], pk: &Pk) -> Result<bool, String> {
    guarded(AssertUnwindSafe(|| {
        let a = crypto_sign_verify_detached(sig, m, pk).is_ok();
        let mut sm = sig.to_vec();
        sm.extend_from_slice(m);
        let mut out = vec![0xC3u8; m.len()];
        let b = crypto_sign_open(&mut out, &sm, pk).is_ok() && out == m;
        let s: SignedMessage<StackByteArray<64>, Vec<u8>> = SignedMessage::from_bytes(&sm).unwrap();
        let c = s.verify(&StackByteArray::<32>::from(pk)).is_ok();
        (a, b, c)
    }))
    .and_then(|(a, b, c)| if a == b && b == c { Ok(a) } else { Err(format!("dryoc verify entry points disagree: verify_detached={} sign_open={} SignedMessage::verify={}", a, b, c)) })
}

fn dry_verify_ph(sig: &Sig, m: &[u8], pk: &Pk) -> Result<bool, String> {
    guarded(AssertUnwindSafe(|| {
        let mut st = crypto_sign_init();
        crypto_sign_update(&mut st, m);
        let a = crypto_sign_final_verify(st, sig, pk).is_ok();
        let mut inc = IncrementalSigner::new();
        inc.update(&m.to_vec());
        let b = inc.verify(&StackByteArray::<64>::from(sig), &StackByteArray::<32>::from(pk)).is_ok();
        (a, b)
    }))
    .and_then(|(a, b)| if a == b { Ok(a) } else { Err("crypto_sign_final_verify and IncrementalSigner::verify disagree".into()) })
}

fn check_negative(kind: &str, ph: bool, sig: &Sig, m: &[u8], pk: &Pk, must_reject: bool) -> (String, Option<String>) {
    let so = if ph { sodium::sign_ph_verify(&[m], sig, pk) } else { sodium::sign_verify_detached(sig, m, pk) };
    let dr = if ph { dry_verify_ph(sig, m, pk) } else { dry_verify_pure(sig, m, pk) };
    match dr {
        Err(e) => ("error".into(), Some(format!("{}: {}", kind, e))),
        Ok(d) => {
            if d != so {
                (if d { "accepts-what-sodium-rejects".into() } else { "rejects-what-sodium-accepts".into() }, Some(format!("{}: dryoc {} but libsodium {}", kind, if d { "accepts" } else { "rejects" }, if so { "accepts" } else { "rejects" })))
            } else if must_reject && d {
                ("mutation-accepted".into(), Some(format!("{}: a mutated input was accepted (by both)", kind)))
            } else {
                (if d { "both-accept".into() } else { "both-reject".into() }, None)
            }
        }
    }
}

pub fn replay(case: &Value) -> Option<String> {
    if case["kind"] == "wrong-length" {
        let (sg, pkv, mv) = (unhx(&case["sig"]), unhx(&case["pk"]), unhx(&case["msg"]));
        let r = guarded(AssertUnwindSafe(move || {
            let s: SignedMessage<Vec<u8>, Vec<u8>> = SignedMessage::from_parts(sg, mv);
            s.verify(&pkv).is_ok()
        }));
        return if r == Ok(true) { Some("accepts-wrong-length".into()) } else { None };
    }
    let sig: Sig = unhx(&case["sig"]).try_into().unwrap();
    let pk: Pk = unhx(&case["pk"]).try_into().unwrap();
    let m = unhx(&case["msg"]);
    if case["kind"] == "sign" {
        let seed: [u8; 32] = unhx(&case["seed"]).try_into().unwrap();
        return check_positive(&seed, &m).map(|(c, d)| format!("{}: {}", c, d));
    }
    let (_, f) = check_negative(case["what"].as_str().unwrap_or(""), case["ph"].as_bool().unwrap_or(false), &sig, &m, &pk, case["must_reject"].as_bool().unwrap_or(true));
    f
}

fn check_positive(seed: &[u8; 32], m: &[u8]) -> Option<(String, String)> {
    let (spk, ssk) = sodium::sign_seed_keypair(seed);
    let r = guarded(AssertUnwindSafe(|| -> Option<(String, String)> {
        let (pk, sk) = crypto_sign_seed_keypair(seed);
        if pk != spk || sk != ssk {
            return Some(("keypair-differs".into(), "seeded key pair differs from libsodium".into()));
        }
        // pure detached
        let mut sig = [0xC3u8; 64];
        crypto_sign_detached(&mut sig, m, &sk).unwrap();
        let want = sodium::sign_detached(m, &ssk);
        if sig != want {
            return Some(("detached-differs".into(), format!("detached signature differs from libsodium: {} vs {}", hx(&sig), hx(&want))));
        }
        let mut sig2 = [0xC3u8; 64];
        crypto_sign_detached(&mut sig2, m, &sk).unwrap();
        if sig2 != sig {
            return Some(("nondeterministic".into(), "signing twice gave different signatures".into()));
        }
        // combined
        let mut sm = vec![0xC3u8; m.len() + 64];
        crypto_sign(&mut sm, m, &sk).unwrap();
        if sm != sodium::sign_combined(m, &ssk) {
            return Some(("combined-differs".into(), "combined signed message differs from libsodium".into()));
        }
        // object API
        let kp: SigningKeyPair<StackByteArray<32>, StackByteArray<64>> = SigningKeyPair::from_seed(seed);
        if kp.public_key.as_slice() != &pk[..] || kp.secret_key.as_slice() != &sk[..] {
            return Some(("keypair-differs".into(), "SigningKeyPair::from_seed differs from libsodium".into()));
        }
        let s1: SignedMessage<StackByteArray<64>, Vec<u8>> = kp.sign(m.to_vec()).unwrap();
        let s2 = kp.sign_with_defaults(m).unwrap();
        let s3: SignedMessage<Vec<u8>, Vec<u8>> = kp.sign(m.to_vec()).unwrap();
        if s1.to_vec() != sm || s2.to_bytes::<Vec<u8>>() != sm || s3.to_vec() != sm {
            return Some(("object-differs".into(), "SigningKeyPair::sign output differs from libsodium's combined form".into()));
        }
        if s1.verify(&kp.public_key).is_err() {
            return Some(("own-signature-rejected".into(), "SignedMessage::verify rejects its own signature".into()));
        }
        // pre-hashed incremental
        let mut st = crypto_sign_init();
        crypto_sign_update(&mut st, m);
        let mut psig = [0xC3u8; 64];
        crypto_sign_final_create(st, &mut psig, &sk).unwrap();
        let pwant = sodium::sign_ph_create(&[m], &ssk);
        if psig != pwant {
            return Some(("prehashed-differs".into(), "pre-hashed signature differs from libsodium".into()));
        }
        let mut inc = IncrementalSigner::new();
        inc.update(&m.to_vec());
        let isig: StackByteArray<64> = inc.finalize(&kp.secret_key).unwrap();
        if isig.as_slice() != &pwant[..] {
            return Some(("prehashed-differs".into(), "IncrementalSigner signature differs from libsodium".into()));
        }
        // everything verifies under dryoc and libsodium
        if dry_verify_pure(&sig, m, &pk) != Ok(true) || !sodium::sign_verify_detached(&sig, m, &pk) {
            return Some(("own-signature-rejected".into(), "genuine pure signature does not verify".into()));
        }
        if dry_verify_ph(&psig, m, &pk) != Ok(true) || !sodium::sign_ph_verify(&[m], &psig, &pk) {
            return Some(("own-signature-rejected".into(), "genuine pre-hashed signature does not verify".into()));
        }
        let mut opened = vec![0xC3u8; m.len()];
        if crypto_sign_open(&mut opened, &sm, &pk).is_err() || opened != m || sodium::sign_open(&sm, &pk).as_deref() != Some(m) {
            return Some(("own-signature-rejected".into(), "genuine combined message does not open".into()));
        }
        None
    }));
    match r {
        Err(p) => Some(("panic".into(), p)),
        Ok(x) => x,
    }
}

pub fn run() -> i32 {
    sodium::init();
    quiet_panics();
    let mut ctx = Ctx::new("C06", "fault_enumeration");
    let seed = ctx.seed;
    let maxlen = ctx.tier.pick(600usize, 2100);
    let sds = seeds(seed);
    ctx.rule = format!("positive product: {} seeds (value alphabet + RFC 8032 test seeds) x every message length 0..={} (+1023,1024,1025,4096 thorough) x 4 content classes x {{pure detached, pure combined, pre-hashed incremental}} x {{classic, SigningKeyPair, IncrementalSigner}}: bytes == libsodium, deterministic, verifies everywhere. negative single-fault enumeration on base signatures (3 seeds x lengths {{0,1,32,65}} x pure/pre-hashed): every bit of message, signature and public key; S+kL for every k with S+kL < 2^256; raw S in {{L-1,L,L+1,2^252,2^256-1}}; R x A over the complete small-order encoding table (14 x 14) x S in {{0,1,r}}; forgeries that satisfy the cofactorless equation under every small-order public key (R = S B - j A, k A = j A), each verified three times in a row; non-canonical y in [p,p+18] as R and as A; mode cross-overs (signature of the other mode over M, and over SHA-512(M) / of SHA-512(M)); combined form truncated to every length < 64; accept/reject must equal libsodium and be reject for every mutation; non-trivial = case executed in both implementations", sds.len(), maxlen);
    ctx.assume("libsodium 1.0.18 (strict, non-COMPAT) is the reference verifier");
    ctx.assume("reference 2: pure-Python RFC 8032 signing (pure and pre-hashed) and strict verification over a dumped sub-corpus (ref/curve_check.py), run by bin/check after this binary");

    let mut lens: Vec<usize> = (0..=maxlen).collect();
    if ctx.tier == Tier::Thorough {
        lens.extend([1023, 1024, 1025, 4096]);
    }
    let corpus_path = format!("{}/logs/c06_corpus.jsonl", VERIF_ROOT);
    let _ = std::fs::create_dir_all(format!("{}/logs", VERIF_ROOT));
    let corpus = std::sync::Mutex::new(std::io::BufWriter::new(std::fs::File::create(&corpus_path).expect("corpus")));
    let dump = |v: Value| {
        use std::io::Write;
        let mut g = corpus.lock().unwrap();
        let _ = writeln!(g, "{}", v);
    };
    let units: Vec<(usize, usize)> = (0..sds.len()).flat_map(|s| (0..lens.len()).map(move |l| (s, l))).collect();
    let st = par_units(&units, |&(si, li), st| {
        for ci in 0..4 {
            let m = cval(seed, ci, lens[li]);
            if ci == 3 && (lens[li] % 16 == 1 || lens[li] < 4) {
                // dryoc's own outputs for the independent Python RFC 8032 reference
                let (pk, sk) = crypto_sign_seed_keypair(&sds[si]);
                let mut sig = [0xC3u8; 64];
                let _ = crypto_sign_detached(&mut sig, &m, &sk);
                dump(json!({"p": "ed25519-sign", "seed": hx(&sds[si]), "m": hx(&m), "ph": false, "pk": hx(&pk), "sig": hx(&sig)}));
                let mut st2 = crypto_sign_init();
                crypto_sign_update(&mut st2, &m);
                let mut psig = [0xC3u8; 64];
                let _ = crypto_sign_final_create(st2, &mut psig, &sk);
                dump(json!({"p": "ed25519-sign", "seed": hx(&sds[si]), "m": hx(&m), "ph": true, "pk": hx(&pk), "sig": hx(&psig)}));
            }
            let r = check_positive(&sds[si], &m);
            st.eval(&(si, li, ci), true, if r.is_none() { "sign==libsodium" } else { "sign-disagrees" });
            if let Some((class, d)) = r {
                st.fail(Fail { check: "C06.ed25519".into(), signature: format!("C06/sign/{}", class), what: format!("seed {} len {} content {}: {}", hx(&sds[si]), lens[li], C_NAMES[ci], d), case: json!({"kind": "sign", "seed": hx(&sds[si]), "msg": hx(&m), "sig": hx(&[0u8; 64]), "pk": hx(&[0u8; 32])}) });
            }
        }
        if si == 5 && li == 2 {
            st.sample(json!({"seed": hx(&sds[si]), "msg_len": lens[li], "modes": ["pure detached", "pure combined", "pre-hashed incremental"], "apis": ["classic", "SigningKeyPair::sign", "IncrementalSigner"]}));
        }
    });
    ctx.absorb("positive", st);

    // a large family of honest keys (counter seeds) and their libsodium-made signatures: every
    // byte position of public key and commitment R takes every value, so an encoding-dependent
    // refusal of honest inputs (a slipped canonicity or small-order test) shows up
    {
        let nkeys: u32 = ctx.tier.pick(1u32 << 14, 1u32 << 18);
        let chunks: Vec<u32> = (0..nkeys / 256).collect();
        let st = par_units(&chunks, |&c, st| {
            for i in 0..256u32 {
                let n = c * 256 + i;
                let mut sd = [0u8; 32];
                sd[..4].copy_from_slice(&n.to_le_bytes());
                sd[4..12].copy_from_slice(&seed.to_le_bytes());
                let (pk, sk) = sodium::sign_seed_keypair(&sd);
                let m = n.to_be_bytes();
                let sig = sodium::sign_detached(&m, &sk);
                let r = dry_verify_pure(&sig, &m, &pk);
                let ok = r == Ok(true);
                st.eval(&("honest-family", n), true, if ok { "honest-signature-accepted" } else { "honest-signature-refused" });
                if !ok {
                    st.fail(Fail { check: "C06.ed25519".into(), signature: "C06/verify/rejects-what-sodium-accepts/honest-family".into(), what: format!("libsodium signature of an honest key (seed {}, pk {}) is not accepted: {:?}", hx(&sd), hx(&pk), r), case: json!({"kind": "verify", "what": "honest-family", "ph": false, "sig": hx(&sig), "msg": hx(&m), "pk": hx(&pk), "must_reject": false}) });
                }
            }
        });
        ctx.note("honest_key_family", json!({"keys": nkeys}));
        ctx.absorb("honest-family", st);
    }

    // negative
    let base_seeds = [sds[2], sds[3], sds[5]];
    let base_lens = [0usize, 1, 32, 65];
    let l = group_l();
    let units: Vec<(usize, usize, bool)> = (0..3).flat_map(|s| (0..4).flat_map(move |l| [false, true].into_iter().map(move |ph| (s, l, ph)))).collect();
    let st = par_units(&units, |&(si, li, ph), st| {
        let (pk, sk) = sodium::sign_seed_keypair(&base_seeds[si]);
        let m = cval(seed, 3, base_lens[li]);
        let sig = if ph { sodium::sign_ph_create(&[&m], &sk) } else { sodium::sign_detached(&m, &sk) };
        let dumpn = std::cell::Cell::new(0usize);
        let go = |kind: String, sig: &Sig, m: &[u8], pk: &Pk, must_reject: bool, st: &mut Stats| {
            let (oc, f) = check_negative(&kind, ph, sig, m, pk, must_reject);
            dumpn.set(dumpn.get() + 1);
            let structural = !(kind.starts_with("msg-bit") || kind.starts_with("sig-bit") || kind.starts_with("pk-bit") || kind.starts_with("small-order(R#"));
            if li == 1 && (structural || dumpn.get() % 24 == 0 || (si == 0 && kind.starts_with("small-order(R#") && dumpn.get() % 3 == 0)) {
                if let Ok(acc) = if ph { dry_verify_ph(sig, m, pk) } else { dry_verify_pure(sig, m, pk) } {
                    dump(json!({"p": "ed25519-verify", "kind": kind, "pk": hx(pk), "m": hx(m), "sig": hx(sig), "ph": ph, "accepted": acc}));
                }
            }
            st.eval(&(si, li, ph, &kind), true, &oc);
            if let Some(what) = f {
                let class = kind.split(|c: char| c == '[' || c == '(').next().unwrap_or("").to_string();
                st.fail(Fail { check: "C06.ed25519".into(), signature: format!("C06/verify/{}/{}", oc, class), what: format!("{} mode, msg len {}: {}", if ph { "pre-hashed" } else { "pure" }, m.len(), what), case: json!({"kind": "verify", "what": kind, "ph": ph, "sig": hx(sig), "msg": hx(m), "pk": hx(pk), "must_reject": must_reject}) });
            }
        };
        go("control".into(), &sig, &m, &pk, false, st);
        for b in 0..m.len() * 8 {
            let mut m2 = m.clone();
            m2[b / 8] ^= 1 << (b % 8);
            go(format!("msg-bit[{}]", b), &sig, &m2, &pk, true, st);
        }
        for b in 0..512 {
            let mut s2 = sig;
            s2[b / 8] ^= 1 << (b % 8);
            go(format!("sig-bit[{}]", b), &s2, &m, &pk, true, st);
        }
        for b in 0..256 {
            let mut p2 = pk;
            p2[b / 8] ^= 1 << (b % 8);
            go(format!("pk-bit[{}]", b), &sig, &m, &p2, true, st);
        }
        // malleation S + kL
        let s: B32 = sig[32..].try_into().unwrap();
        let mut acc = s;
        for k in 1..=16 {
            match add256(&acc, &l) {
                Some(n) => {
                    acc = n;
                    let mut s2 = sig;
                    s2[32..].copy_from_slice(&acc);
                    go(format!("S+kL(k={})", k), &s2, &m, &pk, true, st);
                }
                None => break,
            }
        }
        for (name, v) in [("L-1", le_add(&l, -1)), ("L", l), ("L+1", le_add(&l, 1)), ("2^252", le_pow2(252)), ("2^256-1", [0xffu8; 32])] {
            let mut s2 = sig;
            s2[32..].copy_from_slice(&v);
            go(format!("S-raw({})", name), &s2, &m, &pk, true, st);
        }
        // mixed-order points: A' = A + T and R' = R + T for every torsion point T. The pure
        // signature (R = rB, S = r + k a) over A' satisfies the strict equation iff k T = 0,
        // the cofactored one always; with R' the strict equation never holds for T != 0. Both
        // implementations must give the same verdict on each of them.
        if !ph {
            let h = sodium::sha512(&base_seeds[si]);
            let mut a: B32 = h[..32].try_into().unwrap();
            a[0] &= 248;
            a[31] &= 127;
            a[31] |= 64;
            let mut a64 = [0u8; 64];
            a64[..32].copy_from_slice(&a);
            let a_red = sodium::sc_reduce64(&a64);
            let torsion: Vec<B32> = small_order_encodings().into_iter().filter(|t| sodium::ed_add(t, t).is_some()).collect();
            for (ti, t) in torsion.iter().enumerate() {
                let Some(a_mixed) = sodium::ed_add(&pk, t) else { continue };
                for j in 0..24u8 {
                    let mut mm = m.clone();
                    mm.push(j);
                    let mut pre = h[32..].to_vec();
                    pre.extend_from_slice(&mm);
                    let r = sodium::sc_reduce64(&sodium::sha512(&pre));
                    let Some(rp) = sodium::ed_base_noclamp(&r) else { continue };
                    // (a) torsion in the public key
                    let mut hin = rp.to_vec();
                    hin.extend_from_slice(&a_mixed);
                    hin.extend_from_slice(&mm);
                    let k = sodium::sc_reduce64(&sodium::sha512(&hin));
                    let s_ = sodium::sc_add(&r, &sodium::sc_mul(&k, &a_red));
                    let mut sg = [0u8; 64];
                    sg[..32].copy_from_slice(&rp);
                    sg[32..].copy_from_slice(&s_);
                    go(format!("mixed-order-A(T#{},msg+{})", ti, j), &sg, &mm, &a_mixed, false, st);
                    // (b) torsion in R
                    if let Some(r_mixed) = sodium::ed_add(&rp, t) {
                        let mut hin = r_mixed.to_vec();
                        hin.extend_from_slice(&pk);
                        hin.extend_from_slice(&mm);
                        let k = sodium::sc_reduce64(&sodium::sha512(&hin));
                        let s_ = sodium::sc_add(&r, &sodium::sc_mul(&k, &a_red));
                        let mut sg = [0u8; 64];
                        sg[..32].copy_from_slice(&r_mixed);
                        sg[32..].copy_from_slice(&s_);
                        go(format!("mixed-order-R(T#{},msg+{})", ti, j), &sg, &mm, &pk, false, st);
                    }
                }
                // (c) torsion in BOTH the public key and R. With A' = A + T and R' = R - iT the
                // cofactorless equation holds exactly when k T = iT, so for about one i in
                // (order of T) the signature is VALID under libsodium's strict rules (R' is of
                // mixed, not small, order); the verdict must be the same either way.
                let mut mult: Vec<B32> = vec![{ let mut id = [0u8; 32]; id[0] = 1; id }];
                for j in 1..8 {
                    match sodium::ed_add(&mult[j - 1], t) {
                        Some(x) => mult.push(x),
                        None => break,
                    }
                }
                if mult.len() == 8 && mult[1] != mult[0] {
                    for j in 0..8u8 {
                        let mut mm = m.clone();
                        mm.push(0x80 | j);
                        let mut pre = h[32..].to_vec();
                        pre.extend_from_slice(&mm);
                        let r = sodium::sc_reduce64(&sodium::sha512(&pre));
                        let Some(rp) = sodium::ed_base_noclamp(&r) else { continue };
                        for i in 1..8usize {
                            if mult[i] == mult[0] {
                                continue;
                            }
                            let Some(r_mixed) = sodium::ed_sub(&rp, &mult[i]) else { continue };
                            let mut hin = r_mixed.to_vec();
                            hin.extend_from_slice(&a_mixed);
                            hin.extend_from_slice(&mm);
                            let k = sodium::sc_reduce64(&sodium::sha512(&hin));
                            let s_ = sodium::sc_add(&r, &sodium::sc_mul(&k, &a_red));
                            let mut sg = [0u8; 64];
                            sg[..32].copy_from_slice(&r_mixed);
                            sg[32..].copy_from_slice(&s_);
                            if mult[(k[0] & 7) as usize] == mult[i] {
                                st.bump("torsion_cancelling_signatures_built", 1);
                                if sodium::sign_verify_detached(&sg, &mm, &a_mixed) {
                                    st.bump("torsion_cancelling_signatures_libsodium_accepts", 1);
                                }
                            }
                            go(format!("mixed-order-A-and-R(T#{},msg+{},i={})", ti, j, i), &sg, &mm, &a_mixed, false, st);
                        }
                    }
                }
            }
        }
        // forgeries under a small-order public key that satisfy the cofactorless equation
        // (S B = R + k A with R = S B - j A and k A = j A): only the small-order test on A
        // stands between them and acceptance. Each is verified several times in a row on this
        // thread through every entry point (a memo of "the last public key" must not skip it).
        if !ph && li < 2 {
            let mut ident = [0u8; 32];
            ident[0] = 1;
            let torsion: Vec<B32> = small_order_encodings().into_iter().filter(|t| sodium::ed_add(t, t).is_some()).collect();
            for (ti, t) in torsion.iter().enumerate() {
                let mut mult: Vec<B32> = vec![ident];
                for j in 1..8 {
                    match sodium::ed_add(&mult[j - 1], t) {
                        Some(x) => mult.push(x),
                        None => break,
                    }
                }
                if mult.len() < 8 {
                    continue;
                }
                let mut found = 0;
                for mi in 0..48u8 {
                    let mut mm = m.clone();
                    mm.push(mi);
                    let mut pre = b"forge".to_vec();
                    pre.extend_from_slice(&mm);
                    let sc = sodium::sc_reduce64(&sodium::sha512(&pre));
                    let Some(sb) = sodium::ed_base_noclamp(&sc) else { continue };
                    for j in 0..8usize {
                        let Some(r) = sodium::ed_sub(&sb, &mult[j]) else { continue };
                        let mut hin = r.to_vec();
                        hin.extend_from_slice(t);
                        hin.extend_from_slice(&mm);
                        let k = sodium::sc_reduce64(&sodium::sha512(&hin));
                        if mult[(k[0] & 7) as usize] != mult[j] {
                            continue;
                        }
                        let mut sg = [0u8; 64];
                        sg[..32].copy_from_slice(&r);
                        sg[32..].copy_from_slice(&sc);
                        for rep in 0..3 {
                            go(format!("small-order-A-forgery(T#{},msg+{},j={},rep={})", ti, mi, j, rep), &sg, &mm, t, true, st);
                        }
                        found += 1;
                    }
                    if found >= 4 {
                        break;
                    }
                }
                st.bump("small_order_forgeries_built", found);
            }
        }
        // a signing pair assembled from parts whose public_key field is another key's: the object
        // API signs with the secret key it is given, exactly as the classic function and libsodium do
        if !ph {
            let (other_pk, _) = sodium::sign_seed_keypair(&[0x5du8; 32]);
            let r = guarded(AssertUnwindSafe(|| {
                let kp: dryoc::sign::SigningKeyPair<StackByteArray<32>, StackByteArray<64>> = dryoc::sign::SigningKeyPair::from_slices(&other_pk, &sk).ok()?;
                let s: SignedMessage<StackByteArray<64>, Vec<u8>> = kp.sign(m.clone()).ok()?;
                Some(s.into_parts().0.as_slice().to_vec())
            }));
            let ok = match &r {
                Ok(Some(s)) => s[..] == sig[..],
                Ok(None) => true, // refusing the inconsistent pair is fine
                Err(_) => true,
            };
            st.eval(&(si, li, "mismatched-pair-sign"), true, if ok { "sign==libsodium" } else { "sign-disagrees" });
            if !ok {
                st.fail(Fail { check: "C06.ed25519".into(), signature: "C06/sign/mismatched-pair".into(), what: format!("SigningKeyPair::from_slices(other public key, sk).sign(msg of {} bytes) differs from the libsodium / classic signature under sk", m.len()), case: json!({"kind": "wrong-length", "what": "note", "sig": hx(&sig), "pk": hx(&pk), "msg": hx(&m)}) });
            }
        }
        // signatures / public keys handed over in run-time-sized containers of the wrong length:
        // never accepted (refusal by Err or by panic is not fixed by the statement)
        if !ph {
            let mut cases: Vec<(String, Vec<u8>, Vec<u8>)> = vec![];
            for n in [0usize, 1, 31, 32, 33, 63] {
                cases.push((format!("signature-prefix({})", n), sig[..n].to_vec(), pk.to_vec()));
            }
            for n in [0usize, 1, 31] {
                cases.push((format!("public-key-prefix({})", n), sig.to_vec(), pk[..n].to_vec()));
            }
            for (name, sg, pkv) in cases {
                let mv = m.clone();
                let case = json!({"kind": "wrong-length", "what": name, "sig": hx(&sg), "pk": hx(&pkv), "msg": hx(&m)});
                let r = guarded(AssertUnwindSafe(move || {
                    let s: SignedMessage<Vec<u8>, Vec<u8>> = SignedMessage::from_parts(sg, mv);
                    s.verify(&pkv).is_ok()
                }));
                let accepted = r == Ok(true);
                st.eval(&(si, li, &name), true, if accepted { "wrong-length-accepted" } else { "wrong-length-refused" });
                if accepted {
                    st.fail(Fail { check: "C06.ed25519".into(), signature: "C06/verify/accepts-wrong-length".into(), what: format!("SignedMessage<Vec, Vec>::verify accepted {} (msg len {})", name, m.len()), case });
                }
            }
        }
        // small-order R x A
        let so = small_order_encodings();
        let rnd: B32 = {
            let mut x: B32 = prand(seed, "c06-s", si as u64, 32).try_into().unwrap();
            x[31] &= 0x0f;
            x
        };
        for (ri, r) in so.iter().enumerate() {
            for (ai, a) in so.iter().enumerate() {
                for (sn, sv) in [("0", [0u8; 32]), ("1", le_add(&[0u8; 32], 1)), ("r", rnd)] {
                    let mut s2 = [0u8; 64];
                    s2[..32].copy_from_slice(r);
                    s2[32..].copy_from_slice(&sv);
                    go(format!("small-order(R#{},A#{},S={})", ri, ai, sn), &s2, &m, a, true, st);
                }
            }
            // small-order R with genuine A and S, small-order A with genuine R and S
            let mut s2 = sig;
            s2[..32].copy_from_slice(r);
            go(format!("small-order-R(#{})", ri), &s2, &m, &pk, true, st);
            go(format!("small-order-A(#{})", ri), &sig, &m, r, true, st);
        }
        // non-canonical y
        for d in 0..19 {
            for sign in [0u8, 0x80] {
                let mut y = le_add(&p25519(), d);
                y[31] |= sign;
                let mut s2 = sig;
                s2[..32].copy_from_slice(&y);
                go(format!("non-canonical-R(p+{},sign={})", d, sign >> 7), &s2, &m, &pk, true, st);
                go(format!("non-canonical-A(p+{},sign={})", d, sign >> 7), &sig, &m, &y, true, st);
            }
        }
        // mode cross-over: this signature presented to the other mode's verifier
        {
            let (oc, f) = check_negative("mode-cross-over", !ph, &sig, &m, &pk, true);
            st.eval(&(si, li, ph, "cross"), true, &oc);
            if let Some(what) = f {
                st.fail(Fail { check: "C06.ed25519".into(), signature: format!("C06/verify/{}/mode-cross-over", oc), what, case: json!({"kind": "verify", "what": "mode-cross-over", "ph": !ph, "sig": hx(&sig), "msg": hx(&m), "pk": hx(&pk), "must_reject": true}) });
            }
        }
        // digest cross-overs: a pure signature over SHA-512(M) presented to the pre-hashed verifier
        // for M, and a pre-hashed signature for M presented to the pure verifier for SHA-512(M)
        {
            let digest = sodium::sha512(&m);
            let (kind, sig2, vm, vph): (&str, Sig, Vec<u8>, bool) = if !ph {
                ("pure-signature-over-digest->prehashed-verify", sodium::sign_detached(&digest, &sk), m.clone(), true)
            } else {
                ("prehashed-signature->pure-verify-of-digest", sig, digest.to_vec(), false)
            };
            let (oc, f) = check_negative(kind, vph, &sig2, &vm, &pk, true);
            st.eval(&(si, li, ph, "digest-cross"), true, &oc);
            if let Some(what) = f {
                st.fail(Fail { check: "C06.ed25519".into(), signature: format!("C06/verify/{}/mode-cross-over-digest", oc), what, case: json!({"kind": "verify", "what": kind, "ph": vph, "sig": hx(&sig2), "msg": hx(&vm), "pk": hx(&pk), "must_reject": true}) });
            }
        }
        // combined form truncated below the signature length
        if !ph {
            let mut sm = sig.to_vec();
            sm.extend_from_slice(&m);
            for n in 0..64 {
                let t = &sm[..n];
                let r = guarded(AssertUnwindSafe(|| {
                    let mut out = vec![0u8; 0];
                    let a = crypto_sign_open(&mut out, t, &pk).is_ok();
                    let b = SignedMessage::<StackByteArray<64>, Vec<u8>>::from_bytes(t).is_ok();
                    a || b
                }));
                let oc = match r {
                    Err(_) => "panic",
                    Ok(true) => "truncated-accepted",
                    Ok(false) => "both-reject",
                };
                st.eval(&(si, li, "trunc", n), true, oc);
                if oc != "both-reject" {
                    st.fail(Fail { check: "C06.ed25519".into(), signature: format!("C06/verify/{}/combined-truncated", oc), what: format!("combined signed message truncated to {} bytes: {}", n, oc), case: json!({"kind": "verify", "what": "truncated", "ph": false, "sig": hx(&sig), "msg": hx(&m), "pk": hx(&pk), "must_reject": true}) });
                }
            }
        }
        if si == 0 && li == 1 && !ph {
            st.sample(json!({"base": {"seed": hx(&base_seeds[si]), "msg_len": base_lens[li]}, "faults": ["msg-bit[i]", "sig-bit[0..512]", "pk-bit[0..256]", "S+kL k=1..15", "S-raw(L)", "small-order(R#i,A#j,S)", "non-canonical-R(p+d)", "mode-cross-over", "combined truncated to n<64"]}));
        }
    });
    ctx.absorb("negative", st);
    {
        use std::io::Write;
        corpus.into_inner().unwrap().flush().unwrap();
    }
    ctx.note("second_reference_corpus", json!(corpus_path));
    {
        let mut t: Vec<crate::purity::Entry> = vec![];
        let names: [[&'static str; 5]; 2] = [["sign(k1,m1)", "sign_combined(k1,m1)", "sign_ph(k1,m1)", "verify(k1,m1)", "verify_ph(k1,m1)"], ["sign(k2,m2)", "sign_combined(k2,m2)", "sign_ph(k2,m2)", "verify(k2,m2)", "verify_ph(k2,m2)"]];
        for (i, (sd, m)) in [(sds[2], cval(seed, 3, 70)), (sds[5], cval(seed, 2, 3))].into_iter().enumerate() {
            let (pk, sk) = sodium::sign_seed_keypair(&sd);
            let sig = sodium::sign_detached(&m, &sk);
            let psig = sodium::sign_ph_create(&[&m], &sk);
            let mm = m.clone();
            t.push((names[i][0], Box::new(move || {
                let mut s = [0xC3u8; 64];
                let _ = crypto_sign_detached(&mut s, &mm, &sk);
                s.to_vec()
            })));
            let mm = m.clone();
            t.push((names[i][1], Box::new(move || {
                let mut sm = vec![0xC3u8; mm.len() + 64];
                let _ = crypto_sign(&mut sm, &mm, &sk);
                sm
            })));
            let mm = m.clone();
            t.push((names[i][2], Box::new(move || {
                let mut st = crypto_sign_init();
                crypto_sign_update(&mut st, &mm);
                let mut s = [0xC3u8; 64];
                let _ = crypto_sign_final_create(st, &mut s, &sk);
                s.to_vec()
            })));
            let mm = m.clone();
            t.push((names[i][3], Box::new(move || vec![dry_verify_pure(&sig, &mm, &pk).map(|b| b as u8).unwrap_or(9), dry_verify_pure(&psig, &mm, &pk).map(|b| b as u8).unwrap_or(9)])));
            let mm = m.clone();
            t.push((names[i][4], Box::new(move || vec![dry_verify_ph(&psig, &mm, &pk).map(|b| b as u8).unwrap_or(9), dry_verify_ph(&sig, &mm, &pk).map(|b| b as u8).unwrap_or(9)])));
        }
        crate::purity::triples(&mut ctx, "C06", "C06.ed25519", t);
    }
    ctx.require_outcome("sign==libsodium");
    ctx.require_outcome("both-reject");
    ctx.require_outcome("both-accept");
    ctx.finish()
}
