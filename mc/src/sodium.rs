//! Thin safe wrappers over libsodium (reference oracle O-sodium).
#![allow(dead_code)]

use libsodium_sys as so;
use std::ptr;

pub fn init() {
    unsafe {
        assert!(so::sodium_init() >= 0);
    }
}

pub type RawStream = ([u8; 32], [u8; 12]);

fn st_from(raw: &RawStream) -> so::crypto_secretstream_xchacha20poly1305_state {
    so::crypto_secretstream_xchacha20poly1305_state {
        k: raw.0,
        nonce: raw.1,
        _pad: [0u8; 8],
    }
}
fn st_to(st: &so::crypto_secretstream_xchacha20poly1305_state) -> RawStream {
    (st.k, st.nonce)
}

pub fn ss_push(raw: &mut RawStream, m: &[u8], ad: Option<&[u8]>, tag: u8) -> Vec<u8> {
    let mut st = st_from(raw);
    let mut c = vec![0u8; m.len() + 17];
    let mut clen: u64 = 0;
    let (adp, adl) = match ad {
        Some(a) => (a.as_ptr(), a.len() as u64),
        None => (ptr::null(), 0),
    };
    let r = unsafe {
        so::crypto_secretstream_xchacha20poly1305_push(
            &mut st,
            c.as_mut_ptr(),
            &mut clen,
            m.as_ptr(),
            m.len() as u64,
            adp,
            adl,
            tag,
        )
    };
    assert_eq!(r, 0);
    assert_eq!(clen as usize, c.len());
    *raw = st_to(&st);
    c
}

/// Returns Some((message, tag)) on success, None on failure.
pub fn ss_pull(raw: &mut RawStream, c: &[u8], ad: Option<&[u8]>) -> Option<(Vec<u8>, u8)> {
    let mut st = st_from(raw);
    let mut m = vec![0u8; c.len().saturating_sub(17)];
    let mut mlen: u64 = 0;
    let mut tag: u8 = 0;
    let (adp, adl) = match ad {
        Some(a) => (a.as_ptr(), a.len() as u64),
        None => (ptr::null(), 0),
    };
    let r = unsafe {
        so::crypto_secretstream_xchacha20poly1305_pull(
            &mut st,
            m.as_mut_ptr(),
            &mut mlen,
            &mut tag,
            c.as_ptr(),
            c.len() as u64,
            adp,
            adl,
        )
    };
    *raw = st_to(&st);
    if r == 0 {
        m.truncate(mlen as usize);
        Some((m, tag))
    } else {
        None
    }
}

pub fn ss_rekey(raw: &mut RawStream) {
    let mut st = st_from(raw);
    unsafe { so::crypto_secretstream_xchacha20poly1305_rekey(&mut st) };
    *raw = st_to(&st);
}

pub fn ss_init_pull(header: &[u8; 24], key: &[u8; 32]) -> RawStream {
    let mut st = st_from(&([0u8; 32], [0u8; 12]));
    let r = unsafe {
        so::crypto_secretstream_xchacha20poly1305_init_pull(&mut st, header.as_ptr(), key.as_ptr())
    };
    assert_eq!(r, 0);
    st_to(&st)
}

// ---------------------------------------------------------------------------------------
// secretbox / box / sealed box

pub fn secretbox_easy(m: &[u8], n: &[u8; 24], k: &[u8; 32]) -> Vec<u8> {
    let mut c = vec![0u8; m.len() + 16];
    let r = unsafe { so::crypto_secretbox_easy(c.as_mut_ptr(), m.as_ptr(), m.len() as u64, n.as_ptr(), k.as_ptr()) };
    assert_eq!(r, 0);
    c
}
pub fn secretbox_open_easy(c: &[u8], n: &[u8; 24], k: &[u8; 32]) -> Option<Vec<u8>> {
    if c.len() < 16 {
        return None;
    }
    let mut m = vec![0u8; c.len() - 16];
    let r = unsafe { so::crypto_secretbox_open_easy(m.as_mut_ptr(), c.as_ptr(), c.len() as u64, n.as_ptr(), k.as_ptr()) };
    if r == 0 {
        Some(m)
    } else {
        None
    }
}
pub fn box_easy(m: &[u8], n: &[u8; 24], pk: &[u8; 32], sk: &[u8; 32]) -> Option<Vec<u8>> {
    let mut c = vec![0u8; m.len() + 16];
    let r = unsafe { so::crypto_box_easy(c.as_mut_ptr(), m.as_ptr(), m.len() as u64, n.as_ptr(), pk.as_ptr(), sk.as_ptr()) };
    if r == 0 {
        Some(c)
    } else {
        None
    }
}
pub fn box_open_easy(c: &[u8], n: &[u8; 24], pk: &[u8; 32], sk: &[u8; 32]) -> Option<Vec<u8>> {
    if c.len() < 16 {
        return None;
    }
    let mut m = vec![0u8; c.len() - 16];
    let r = unsafe { so::crypto_box_open_easy(m.as_mut_ptr(), c.as_ptr(), c.len() as u64, n.as_ptr(), pk.as_ptr(), sk.as_ptr()) };
    if r == 0 {
        Some(m)
    } else {
        None
    }
}
pub fn box_beforenm(pk: &[u8; 32], sk: &[u8; 32]) -> Option<[u8; 32]> {
    let mut k = [0u8; 32];
    let r = unsafe { so::crypto_box_beforenm(k.as_mut_ptr(), pk.as_ptr(), sk.as_ptr()) };
    if r == 0 {
        Some(k)
    } else {
        None
    }
}
pub fn box_seal(m: &[u8], pk: &[u8; 32]) -> Vec<u8> {
    let mut c = vec![0u8; m.len() + 48];
    let r = unsafe { so::crypto_box_seal(c.as_mut_ptr(), m.as_ptr(), m.len() as u64, pk.as_ptr()) };
    assert_eq!(r, 0);
    c
}
pub fn box_seal_open(c: &[u8], pk: &[u8; 32], sk: &[u8; 32]) -> Option<Vec<u8>> {
    if c.len() < 48 {
        return None;
    }
    let mut m = vec![0u8; c.len() - 48];
    let r = unsafe { so::crypto_box_seal_open(m.as_mut_ptr(), c.as_ptr(), c.len() as u64, pk.as_ptr(), sk.as_ptr()) };
    if r == 0 {
        Some(m)
    } else {
        None
    }
}
pub fn box_seed_keypair(seed: &[u8; 32]) -> ([u8; 32], [u8; 32]) {
    let mut pk = [0u8; 32];
    let mut sk = [0u8; 32];
    unsafe { so::crypto_box_seed_keypair(pk.as_mut_ptr(), sk.as_mut_ptr(), seed.as_ptr()) };
    (pk, sk)
}
pub fn scalarmult_base(n: &[u8; 32]) -> [u8; 32] {
    let mut q = [0u8; 32];
    unsafe { so::crypto_scalarmult_base(q.as_mut_ptr(), n.as_ptr()) };
    q
}
pub fn scalarmult(n: &[u8; 32], p: &[u8; 32]) -> Option<[u8; 32]> {
    let mut q = [0u8; 32];
    let r = unsafe { so::crypto_scalarmult(q.as_mut_ptr(), n.as_ptr(), p.as_ptr()) };
    if r == 0 {
        Some(q)
    } else {
        None
    }
}
pub fn generichash(outlen: usize, m: &[u8], key: Option<&[u8]>) -> Vec<u8> {
    let mut out = vec![0u8; outlen];
    let (kp, kl) = match key {
        Some(k) => (k.as_ptr(), k.len()),
        None => (ptr::null(), 0),
    };
    let r = unsafe { so::crypto_generichash(out.as_mut_ptr(), outlen, m.as_ptr(), m.len() as u64, kp, kl) };
    assert_eq!(r, 0);
    out
}
pub fn sha512(m: &[u8]) -> [u8; 64] {
    let mut out = [0u8; 64];
    unsafe { so::crypto_hash_sha512(out.as_mut_ptr(), m.as_ptr(), m.len() as u64) };
    out
}
