//! Thin safe wrappers over libsodium (reference oracle O-sodium).
#![allow(dead_code)]

use libsodium_sys as so;
use std::ptr;

pub fn init() {
    unsafe {
        assert!(so::sodium_init() >= 0);
    }
}

pub type RawStream = ([u8; 32], [u8; 12]);

fn st_from(raw: &RawStream) -> so::crypto_secretstream_xchacha20poly1305_state {
    so::crypto_secretstream_xchacha20poly1305_state {
        k: raw.0,
        nonce: raw.1,
        _pad: [0u8; 8],
    }
}
fn st_to(st: &so::crypto_secretstream_xchacha20poly1305_state) -> RawStream {
    (st.k, st.nonce)
}

pub fn ss_push(raw: &mut RawStream, m: &[u8], ad: Option<&[u8]>, tag: u8) -> Vec<u8> {
    let mut st = st_from(raw);
    let mut c = vec![0u8; m.len() + 17];
    let mut clen: u64 = 0;
    let (adp, adl) = match ad {
        Some(a) => (a.as_ptr(), a.len() as u64),
        None => (ptr::null(), 0),
    };
    let r = unsafe {
        so::crypto_secretstream_xchacha20poly1305_push(
            &mut st,
            c.as_mut_ptr(),
            &mut clen,
            m.as_ptr(),
            m.len() as u64,
            adp,
            adl,
            tag,
        )
    };
    assert_eq!(r, 0);
    assert_eq!(clen as usize, c.len());
    *raw = st_to(&st);
    c
}

/// Returns Some((message, tag)) on success, None on failure.
pub fn ss_pull(raw: &mut RawStream, c: &[u8], ad: Option<&[u8]>) -> Option<(Vec<u8>, u8)> {
    let mut st = st_from(raw);
    let mut m = vec![0u8; c.len().saturating_sub(17)];
    let mut mlen: u64 = 0;
    let mut tag: u8 = 0;
    let (adp, adl) = match ad {
        Some(a) => (a.as_ptr(), a.len() as u64),
        None => (ptr::null(), 0),
    };
    let r = unsafe {
        so::crypto_secretstream_xchacha20poly1305_pull(
            &mut st,
            m.as_mut_ptr(),
            &mut mlen,
            &mut tag,
            c.as_ptr(),
            c.len() as u64,
            adp,
            adl,
        )
    };
    *raw = st_to(&st);
    if r == 0 {
        m.truncate(mlen as usize);
        Some((m, tag))
    } else {
        None
    }
}

pub fn ss_rekey(raw: &mut RawStream) {
    let mut st = st_from(raw);
    unsafe { so::crypto_secretstream_xchacha20poly1305_rekey(&mut st) };
    *raw = st_to(&st);
}

pub fn ss_init_pull(header: &[u8; 24], key: &[u8; 32]) -> RawStream {
    let mut st = st_from(&([0u8; 32], [0u8; 12]));
    let r = unsafe {
        so::crypto_secretstream_xchacha20poly1305_init_pull(&mut st, header.as_ptr(), key.as_ptr())
    };
    assert_eq!(r, 0);
    st_to(&st)
}

// ---------------------------------------------------------------------------------------
// secretbox / box / sealed box

pub fn secretbox_easy(m: &[u8], n: &[u8; 24], k: &[u8; 32]) -> Vec<u8> {
    let mut c = vec![0u8; m.len() + 16];
    let r = unsafe { so::crypto_secretbox_easy(c.as_mut_ptr(), m.as_ptr(), m.len() as u64, n.as_ptr(), k.as_ptr()) };
    assert_eq!(r, 0);
    c
}
pub fn secretbox_open_easy(c: &[u8], n: &[u8; 24], k: &[u8; 32]) -> Option<Vec<u8>> {
    if c.len() < 16 {
        return None;
    }
    let mut m = vec![0u8; c.len() - 16];
    let r = unsafe { so::crypto_secretbox_open_easy(m.as_mut_ptr(), c.as_ptr(), c.len() as u64, n.as_ptr(), k.as_ptr()) };
    if r == 0 {
        Some(m)
    } else {
        None
    }
}
pub fn box_easy(m: &[u8], n: &[u8; 24], pk: &[u8; 32], sk: &[u8; 32]) -> Option<Vec<u8>> {
    let mut c = vec![0u8; m.len() + 16];
    let r = unsafe { so::crypto_box_easy(c.as_mut_ptr(), m.as_ptr(), m.len() as u64, n.as_ptr(), pk.as_ptr(), sk.as_ptr()) };
    if r == 0 {
        Some(c)
    } else {
        None
    }
}
pub fn box_open_easy(c: &[u8], n: &[u8; 24], pk: &[u8; 32], sk: &[u8; 32]) -> Option<Vec<u8>> {
    if c.len() < 16 {
        return None;
    }
    let mut m = vec![0u8; c.len() - 16];
    let r = unsafe { so::crypto_box_open_easy(m.as_mut_ptr(), c.as_ptr(), c.len() as u64, n.as_ptr(), pk.as_ptr(), sk.as_ptr()) };
    if r == 0 {
        Some(m)
    } else {
        None
    }
}
pub fn box_beforenm(pk: &[u8; 32], sk: &[u8; 32]) -> Option<[u8; 32]> {
    let mut k = [0u8; 32];
    let r = unsafe { so::crypto_box_beforenm(k.as_mut_ptr(), pk.as_ptr(), sk.as_ptr()) };
    if r == 0 {
        Some(k)
    } else {
        None
    }
}
pub fn box_seal(m: &[u8], pk: &[u8; 32]) -> Vec<u8> {
    let mut c = vec![0u8; m.len() + 48];
    let r = unsafe { so::crypto_box_seal(c.as_mut_ptr(), m.as_ptr(), m.len() as u64, pk.as_ptr()) };
    assert_eq!(r, 0);
    c
}
pub fn box_seal_open(c: &[u8], pk: &[u8; 32], sk: &[u8; 32]) -> Option<Vec<u8>> {
    if c.len() < 48 {
        return None;
    }
    let mut m = vec![0u8; c.len() - 48];
    let r = unsafe { so::crypto_box_seal_open(m.as_mut_ptr(), c.as_ptr(), c.len() as u64, pk.as_ptr(), sk.as_ptr()) };
    if r == 0 {
        Some(m)
    } else {
        None
    }
}
pub fn box_seed_keypair(seed: &[u8; 32]) -> ([u8; 32], [u8; 32]) {
    let mut pk = [0u8; 32];
    let mut sk = [0u8; 32];
    unsafe { so::crypto_box_seed_keypair(pk.as_mut_ptr(), sk.as_mut_ptr(), seed.as_ptr()) };
    (pk, sk)
}
pub fn scalarmult_base(n: &[u8; 32]) -> [u8; 32] {
    let mut q = [0u8; 32];
    unsafe { so::crypto_scalarmult_base(q.as_mut_ptr(), n.as_ptr()) };
    q
}
pub fn scalarmult(n: &[u8; 32], p: &[u8; 32]) -> Option<[u8; 32]> {
    let mut q = [0u8; 32];
    let r = unsafe { so::crypto_scalarmult(q.as_mut_ptr(), n.as_ptr(), p.as_ptr()) };
    if r == 0 {
        Some(q)
    } else {
        None
    }
}
pub fn generichash(outlen: usize, m: &[u8], key: Option<&[u8]>) -> Vec<u8> {
    let mut out = vec![0u8; outlen];
    let (kp, kl) = match key {
        Some(k) => (k.as_ptr(), k.len()),
        None => (ptr::null(), 0),
    };
    let r = unsafe { so::crypto_generichash(out.as_mut_ptr(), outlen, m.as_ptr(), m.len() as u64, kp, kl) };
    assert_eq!(r, 0);
    out
}
pub fn sha512(m: &[u8]) -> [u8; 64] {
    let mut out = [0u8; 64];
    unsafe { so::crypto_hash_sha512(out.as_mut_ptr(), m.as_ptr(), m.len() as u64) };
    out
}

/// raw X25519: (return code, output buffer — zero-initialised, untouched when libsodium
/// refuses a blocklisted small-order point)
pub fn scalarmult_raw(n: &[u8; 32], p: &[u8; 32]) -> (i32, [u8; 32]) {
    let mut q = [0u8; 32];
    let r = unsafe { so::crypto_scalarmult(q.as_mut_ptr(), n.as_ptr(), p.as_ptr()) };
    (r, q)
}
pub fn kx_client(cpk: &[u8; 32], csk: &[u8; 32], spk: &[u8; 32]) -> Option<([u8; 32], [u8; 32])> {
    let mut rx = [0u8; 32];
    let mut tx = [0u8; 32];
    let r = unsafe { so::crypto_kx_client_session_keys(rx.as_mut_ptr(), tx.as_mut_ptr(), cpk.as_ptr(), csk.as_ptr(), spk.as_ptr()) };
    if r == 0 {
        Some((rx, tx))
    } else {
        None
    }
}
pub fn kx_server(spk: &[u8; 32], ssk: &[u8; 32], cpk: &[u8; 32]) -> Option<([u8; 32], [u8; 32])> {
    let mut rx = [0u8; 32];
    let mut tx = [0u8; 32];
    let r = unsafe { so::crypto_kx_server_session_keys(rx.as_mut_ptr(), tx.as_mut_ptr(), spk.as_ptr(), ssk.as_ptr(), cpk.as_ptr()) };
    if r == 0 {
        Some((rx, tx))
    } else {
        None
    }
}
pub fn kx_seed_keypair(seed: &[u8; 32]) -> ([u8; 32], [u8; 32]) {
    let mut pk = [0u8; 32];
    let mut sk = [0u8; 32];
    unsafe { so::crypto_kx_seed_keypair(pk.as_mut_ptr(), sk.as_mut_ptr(), seed.as_ptr()) };
    (pk, sk)
}

// ---------------------------------------------------------------------------------------
// Ed25519

pub fn sign_seed_keypair(seed: &[u8; 32]) -> ([u8; 32], [u8; 64]) {
    let mut pk = [0u8; 32];
    let mut sk = [0u8; 64];
    unsafe { so::crypto_sign_seed_keypair(pk.as_mut_ptr(), sk.as_mut_ptr(), seed.as_ptr()) };
    (pk, sk)
}
pub fn sign_detached(m: &[u8], sk: &[u8; 64]) -> [u8; 64] {
    let mut sig = [0u8; 64];
    let mut l: u64 = 0;
    unsafe { so::crypto_sign_detached(sig.as_mut_ptr(), &mut l, m.as_ptr(), m.len() as u64, sk.as_ptr()) };
    sig
}
pub fn sign_combined(m: &[u8], sk: &[u8; 64]) -> Vec<u8> {
    let mut sm = vec![0u8; m.len() + 64];
    let mut l: u64 = 0;
    unsafe { so::crypto_sign(sm.as_mut_ptr(), &mut l, m.as_ptr(), m.len() as u64, sk.as_ptr()) };
    sm.truncate(l as usize);
    sm
}
pub fn sign_verify_detached(sig: &[u8; 64], m: &[u8], pk: &[u8; 32]) -> bool {
    unsafe { so::crypto_sign_verify_detached(sig.as_ptr(), m.as_ptr(), m.len() as u64, pk.as_ptr()) == 0 }
}
pub fn sign_open(sm: &[u8], pk: &[u8; 32]) -> Option<Vec<u8>> {
    let mut m = vec![0u8; sm.len().max(64)];
    let mut l: u64 = 0;
    let r = unsafe { so::crypto_sign_open(m.as_mut_ptr(), &mut l, sm.as_ptr(), sm.len() as u64, pk.as_ptr()) };
    if r == 0 {
        m.truncate(l as usize);
        Some(m)
    } else {
        None
    }
}
pub fn sign_ph_create(chunks: &[&[u8]], sk: &[u8; 64]) -> [u8; 64] {
    unsafe {
        let mut st: so::crypto_sign_state = std::mem::zeroed();
        so::crypto_sign_init(&mut st);
        for c in chunks {
            so::crypto_sign_update(&mut st, c.as_ptr(), c.len() as u64);
        }
        let mut sig = [0u8; 64];
        let mut l: u64 = 0;
        so::crypto_sign_final_create(&mut st, sig.as_mut_ptr(), &mut l, sk.as_ptr());
        sig
    }
}
pub fn sign_ph_verify(chunks: &[&[u8]], sig: &[u8; 64], pk: &[u8; 32]) -> bool {
    unsafe {
        let mut st: so::crypto_sign_state = std::mem::zeroed();
        so::crypto_sign_init(&mut st);
        for c in chunks {
            so::crypto_sign_update(&mut st, c.as_ptr(), c.len() as u64);
        }
        so::crypto_sign_final_verify(&mut st, sig.as_ptr(), pk.as_ptr()) == 0
    }
}
pub fn ed_pk_to_curve(pk: &[u8; 32]) -> Option<[u8; 32]> {
    let mut x = [0u8; 32];
    let r = unsafe { so::crypto_sign_ed25519_pk_to_curve25519(x.as_mut_ptr(), pk.as_ptr()) };
    if r == 0 {
        Some(x)
    } else {
        None
    }
}
pub fn ed_sk_to_curve(sk: &[u8; 64]) -> [u8; 32] {
    let mut x = [0u8; 32];
    unsafe { so::crypto_sign_ed25519_sk_to_curve25519(x.as_mut_ptr(), sk.as_ptr()) };
    x
}

// ---------------------------------------------------------------------------------------
// hashes / MACs / cores / KDF

pub fn auth(m: &[u8], k: &[u8; 32]) -> [u8; 32] {
    let mut out = [0u8; 32];
    unsafe { so::crypto_auth(out.as_mut_ptr(), m.as_ptr(), m.len() as u64, k.as_ptr()) };
    out
}
pub fn onetimeauth(m: &[u8], k: &[u8; 32]) -> [u8; 16] {
    let mut out = [0u8; 16];
    unsafe { so::crypto_onetimeauth(out.as_mut_ptr(), m.as_ptr(), m.len() as u64, k.as_ptr()) };
    out
}
pub fn shorthash(m: &[u8], k: &[u8; 16]) -> [u8; 8] {
    let mut out = [0u8; 8];
    unsafe { so::crypto_shorthash(out.as_mut_ptr(), m.as_ptr(), m.len() as u64, k.as_ptr()) };
    out
}
pub fn hsalsa20(input: &[u8; 16], k: &[u8; 32], c: Option<&[u8; 16]>) -> [u8; 32] {
    let mut out = [0u8; 32];
    unsafe { so::crypto_core_hsalsa20(out.as_mut_ptr(), input.as_ptr(), k.as_ptr(), c.map(|c| c.as_ptr()).unwrap_or(ptr::null())) };
    out
}
pub fn hchacha20(input: &[u8; 16], k: &[u8; 32], c: Option<&[u8; 16]>) -> [u8; 32] {
    let mut out = [0u8; 32];
    unsafe { so::crypto_core_hchacha20(out.as_mut_ptr(), input.as_ptr(), k.as_ptr(), c.map(|c| c.as_ptr()).unwrap_or(ptr::null())) };
    out
}
pub fn increment(b: &mut [u8]) {
    unsafe { so::sodium_increment(b.as_mut_ptr(), b.len()) }
}
pub fn kdf_derive(len: usize, id: u64, ctx: &[u8; 8], key: &[u8; 32]) -> Option<Vec<u8>> {
    let mut out = vec![0u8; len];
    let r = unsafe { so::crypto_kdf_derive_from_key(out.as_mut_ptr(), len, id, ctx.as_ptr() as *const libc::c_char, key.as_ptr()) };
    if r == 0 {
        Some(out)
    } else {
        None
    }
}

// ---------------------------------------------------------------------------------------
// Argon2 / pwhash

extern "C" {
    fn argon2_hash(
        t_cost: u32,
        m_cost: u32,
        parallelism: u32,
        pwd: *const libc::c_void,
        pwdlen: libc::size_t,
        salt: *const libc::c_void,
        saltlen: libc::size_t,
        hash: *mut libc::c_void,
        hashlen: libc::size_t,
        encoded: *mut libc::c_char,
        encodedlen: libc::size_t,
        type_: libc::c_int,
    ) -> libc::c_int;
}

/// libsodium's raw argon2_hash (any salt >= 8, any t >= 1): (rc, hash, encoded string)
pub fn argon2_raw(t: u32, m_kib: u32, pwd: &[u8], salt: &[u8], outlen: usize, typ: i32, want_encoded: bool) -> (i32, Vec<u8>, String) {
    let mut out = vec![0u8; outlen];
    let mut enc = vec![0u8; if want_encoded { 64 + 2 * (salt.len() + outlen) + 64 } else { 0 }];
    let rc = unsafe {
        argon2_hash(
            t,
            m_kib,
            1,
            pwd.as_ptr() as *const libc::c_void,
            pwd.len(),
            salt.as_ptr() as *const libc::c_void,
            salt.len(),
            out.as_mut_ptr() as *mut libc::c_void,
            outlen,
            if want_encoded { enc.as_mut_ptr() as *mut libc::c_char } else { ptr::null_mut() },
            enc.len(),
            typ,
        )
    };
    let s = if want_encoded {
        let n = enc.iter().position(|b| *b == 0).unwrap_or(enc.len());
        String::from_utf8_lossy(&enc[..n]).to_string()
    } else {
        String::new()
    };
    (rc, out, s)
}

/// crypto_pwhash (alg 1 = argon2i13, 2 = argon2id13); None when libsodium refuses
pub fn pwhash(outlen: usize, pwd: &[u8], salt: &[u8; 16], ops: u64, mem: usize, alg: i32) -> Option<Vec<u8>> {
    let mut out = vec![0u8; outlen];
    let r = unsafe { so::crypto_pwhash(out.as_mut_ptr(), outlen as u64, pwd.as_ptr() as *const libc::c_char, pwd.len() as u64, salt.as_ptr(), ops, mem, alg) };
    if r == 0 {
        Some(out)
    } else {
        None
    }
}
pub fn pwhash_str(pwd: &[u8], ops: u64, mem: usize) -> Option<String> {
    let mut out = [0 as libc::c_char; 128];
    let r = unsafe { so::crypto_pwhash_str(out.as_mut_ptr(), pwd.as_ptr() as *const libc::c_char, pwd.len() as u64, ops, mem) };
    if r != 0 {
        return None;
    }
    let bytes: Vec<u8> = out.iter().take_while(|c| **c != 0).map(|c| *c as u8).collect();
    Some(String::from_utf8(bytes).unwrap())
}
pub fn pwhash_str_verify(s: &str, pwd: &[u8]) -> bool {
    let mut buf = [0 as libc::c_char; 128];
    if s.len() >= 128 {
        return false;
    }
    for (i, b) in s.bytes().enumerate() {
        buf[i] = b as libc::c_char;
    }
    unsafe { so::crypto_pwhash_str_verify(buf.as_ptr(), pwd.as_ptr() as *const libc::c_char, pwd.len() as u64) == 0 }
}
/// Some(true) = needs rehash, Some(false) = does not, None = libsodium cannot parse
pub fn pwhash_str_needs_rehash(s: &str, ops: u64, mem: usize) -> Option<bool> {
    let mut buf = [0 as libc::c_char; 128];
    if s.len() >= 128 {
        return None;
    }
    for (i, b) in s.bytes().enumerate() {
        buf[i] = b as libc::c_char;
    }
    match unsafe { so::crypto_pwhash_str_needs_rehash(buf.as_ptr(), ops, mem) } {
        0 => Some(false),
        1 => Some(true),
        _ => None,
    }
}

// ---- Edwards25519 group / scalar helpers (libsodium's core API), used to build signatures
// ---- with torsion components

pub fn ed_add(p: &[u8; 32], q: &[u8; 32]) -> Option<[u8; 32]> {
    let mut r = [0u8; 32];
    let rc = unsafe { so::crypto_core_ed25519_add(r.as_mut_ptr(), p.as_ptr(), q.as_ptr()) };
    if rc == 0 {
        Some(r)
    } else {
        None
    }
}

pub fn ed_base_noclamp(s: &[u8; 32]) -> Option<[u8; 32]> {
    let mut r = [0u8; 32];
    let rc = unsafe { so::crypto_scalarmult_ed25519_base_noclamp(r.as_mut_ptr(), s.as_ptr()) };
    if rc == 0 {
        Some(r)
    } else {
        None
    }
}

pub fn sc_reduce64(h: &[u8; 64]) -> [u8; 32] {
    let mut r = [0u8; 32];
    unsafe { so::crypto_core_ed25519_scalar_reduce(r.as_mut_ptr(), h.as_ptr()) };
    r
}

pub fn sc_mul(a: &[u8; 32], b: &[u8; 32]) -> [u8; 32] {
    let mut r = [0u8; 32];
    unsafe { so::crypto_core_ed25519_scalar_mul(r.as_mut_ptr(), a.as_ptr(), b.as_ptr()) };
    r
}

pub fn sc_add(a: &[u8; 32], b: &[u8; 32]) -> [u8; 32] {
    let mut r = [0u8; 32];
    unsafe { so::crypto_core_ed25519_scalar_add(r.as_mut_ptr(), a.as_ptr(), b.as_ptr()) };
    r
}

pub fn ed_sub(p: &[u8; 32], q: &[u8; 32]) -> Option<[u8; 32]> {
    let mut r = [0u8; 32];
    let rc = unsafe { so::crypto_core_ed25519_sub(r.as_mut_ptr(), p.as_ptr(), q.as_ptr()) };
    if rc == 0 {
        Some(r)
    } else {
        None
    }
}

pub fn sc_invert(a: &[u8; 32]) -> Option<[u8; 32]> {
    let mut r = [0u8; 32];
    let rc = unsafe { so::crypto_core_ed25519_scalar_invert(r.as_mut_ptr(), a.as_ptr()) };
    if rc == 0 {
        Some(r)
    } else {
        None
    }
}

pub fn ed_mult_noclamp(s: &[u8; 32], p: &[u8; 32]) -> Option<[u8; 32]> {
    let mut r = [0u8; 32];
    let rc = unsafe { so::crypto_scalarmult_ed25519_noclamp(r.as_mut_ptr(), s.as_ptr(), p.as_ptr()) };
    if rc == 0 {
        Some(r)
    } else {
        None
    }
}
