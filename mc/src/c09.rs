//! C09 — Argon2 password hashing equals libsodium / RFC 9106 for every parameter set (E-prod).

use crate::core::*;
use crate::sodium;
use dryoc::classic::crypto_pwhash::{crypto_pwhash, PasswordHashAlgorithm};
use dryoc::pwhash::{Config, PwHash};
use serde_json::{json, Value};
use std::panic::AssertUnwindSafe;

fn alg(typ: i32) -> PasswordHashAlgorithm {
    if typ == 1 {
        PasswordHashAlgorithm::Argon2i13
    } else {
        PasswordHashAlgorithm::Argon2id13
    }
}

pub fn dry(outlen: usize, pwd: &[u8], salt: &[u8], t: u64, memlimit: usize, typ: i32) -> Result<Option<Vec<u8>>, String> {
    guarded(AssertUnwindSafe(|| {
        let mut out = vec![0xC3u8; outlen];
        crypto_pwhash(&mut out, pwd, salt, t, memlimit, alg(typ)).ok().map(|_| out)
    }))
}

static CORPUS: std::sync::Mutex<Option<std::io::BufWriter<std::fs::File>>> = std::sync::Mutex::new(None);

fn check(st: &mut Stats, grid: &str, outlen: usize, pwd: &[u8], salt: &[u8], t: u32, m: u32, extra_bytes: usize, typ: i32) {
    let memlimit = m as usize * 1024 + extra_bytes;
    let (rc, want, _) = sodium::argon2_raw(t, m, pwd, salt, outlen, typ, false);
    let got = dry(outlen, pwd, salt, t as u64, memlimit, typ);
    // sub-grid for the independent Python RFC 9106 reference (dryoc's own output is dumped)
    if m <= 48 && t <= 3 && extra_bytes == 0 && (grid != "G1-outlen" || outlen % 8 == 1 || [16, 32, 63, 64, 65, 96, 97, 128, 129, 1100].contains(&outlen)) && (grid != "G1xG2" || m % 4 == 1) {
        if let Ok(Some(g)) = &got {
            use std::io::Write;
            if let Some(f) = CORPUS.lock().unwrap().as_mut() {
                let _ = writeln!(f, "{}", json!({"pwd": hx(pwd), "salt": hx(salt), "t": t, "m": m, "outlen": outlen, "typ": typ, "out": hx(g)}));
            }
        }
    }
    let mut ok = rc == 0 && matches!(&got, Ok(Some(g)) if g == &want);
    // libsodium's own crypto_pwhash where it accepts the parameters
    if ok && salt.len() == 16 {
        if let Some(p) = sodium::pwhash(outlen, pwd, salt.try_into().unwrap(), t as u64, memlimit, typ) {
            ok = p == want;
            st.bump("also_checked_against_crypto_pwhash", 1);
        }
    }
    st.eval(&(grid, outlen, pwd.len(), salt.len(), t, m, extra_bytes, typ), true, if ok { "argon2==libsodium" } else { "argon2-differs" });
    if !ok {
        let class = if got.is_err() { "panic" } else if matches!(got, Ok(None)) { "rejected-valid-parameters" } else { "differs" };
        st.fail(Fail {
            check: "C09.argon2".into(),
            signature: format!("C09/{}/{}/{}", grid, class, if typ == 1 { "argon2i" } else { "argon2id" }),
            what: format!("outlen {} pwdlen {} saltlen {} t {} m {} KiB (+{} B) type {}: dryoc {:?} libsodium(rc={}) {}", outlen, pwd.len(), salt.len(), t, m, extra_bytes, typ, got.as_ref().map(|g| g.as_ref().map(|x| short(x))), rc, short(&want)),
            case: json!({"outlen": outlen, "pwd": hx(pwd), "salt": hx(salt), "t": t, "m": m, "extra": extra_bytes, "typ": typ}),
        });
    }
}

pub fn replay(case: &Value) -> Option<String> {
    let mut st = Stats::new();
    if case["kind"] == "reject" {
        return None;
    }
    check(&mut st, "replay", case["outlen"].as_u64()? as usize, &unhx(&case["pwd"]), &unhx(&case["salt"]), case["t"].as_u64()? as u32, case["m"].as_u64()? as u32, case["extra"].as_u64().unwrap_or(0) as usize, case["typ"].as_i64()? as i32);
    st.fails.first().map(|f| f.what.clone())
}

pub fn run() -> i32 {
    sodium::init();
    quiet_panics();
    let mut ctx = Ctx::new("C09", "exploration");
    let seed = ctx.seed;
    let tier = ctx.tier;
    ctx.rule = "per-dimension exhaustive grids around a common centre, each a full product, every cell compared with libsodium's argon2_hash (and crypto_pwhash where it accepts the parameters): G1 output length every 16..=1100 x {Argon2i, Argon2id} x (t,m) in {(1,8),(3,8),(2,13),(1,37),(2,64)}; G2 memory every 8..=129 KiB + {255,256,257,1000,1024,4099} (thorough: + 16 MiB, 64 MiB) x passes 1..=6 x type, pass counts at the edges of 8/16-bit types (7..1025; thorough to 65537) at 8 and 13 KiB, plus memlimit values that are not a multiple of 1 KiB; G1xG2 restricted to outlen in {16,32,63,64,65,96,97,128,129} x m<=33 x t<=3; G3 password lengths {0,1,8,63,64,65,127,128,129,300} (thorough every 0..=300) x salt lengths {8,9,15,16,17,32,64} x type; G4 out-of-range parameters must return Err without panicking; object API: PwHash::hash_with_salt == libsodium, verify accepts the password and rejects every single-byte mutation, the empty and the extended password; non-trivial = cell hashed by both implementations".into();
    ctx.assume("reference: libsodium's argon2_hash symbol (version 1.3, 1 lane) and crypto_pwhash; no full cross-product of all dimensions (stated per-dimension)");
    let pwd8 = cval(seed, 3, 8);
    let salt16 = kval(seed ^ 0x9, 3, 16);
    let corpus_path = format!("{}/logs/c09_corpus.jsonl", VERIF_ROOT);
    let _ = std::fs::create_dir_all(format!("{}/logs", VERIF_ROOT));
    *CORPUS.lock().unwrap() = Some(std::io::BufWriter::new(std::fs::File::create(&corpus_path).expect("corpus")));
    ctx.note("second_reference_corpus", json!(corpus_path));
    ctx.assume("reference 2: pure-Python Argon2 written from RFC 9106 over the dumped sub-grid m <= 48 KiB, t <= 3 (ref/argon2_check.py), run by bin/check after this binary");

    // G1
    let units: Vec<usize> = (16..=1100).collect();
    let st = par_units(&units, |&outlen, st| {
        for typ in [1, 2] {
            for (t, m) in [(1u32, 8u32), (3, 8), (2, 13), (1, 37), (2, 64)] {
                check(st, "G1-outlen", outlen, &pwd8, &salt16, t, m, 0, typ);
            }
        }
        if outlen == 65 {
            st.sample(json!({"grid": "G1", "outlen": 65, "types": ["argon2i", "argon2id"], "(t,m_KiB)": [[1, 8], [3, 8], [2, 13]]}));
        }
    });
    ctx.absorb("G1-outlen", st);

    // G2
    let mut ms: Vec<u32> = (8..=129).collect();
    ms.extend([255, 256, 257, 1000, 1024, 4099]);
    if tier == Tier::Thorough {
        ms.extend([16 * 1024, 64 * 1024]);
    }
    let st = par_units(&ms, |&m, st| {
        for typ in [1, 2] {
            for t in 1..=(if m <= 40 && tier == Tier::Thorough { 12u32 } else { 6 }) {
                if m > 5000 && t > 2 {
                    continue;
                }
                check(st, "G2-memory", 32, &pwd8, &salt16, t, m, 0, typ);
            }
            // memlimit not a multiple of 1024
            for extra in [1usize, 512, 1023] {
                check(st, "G2-memory", 32, &pwd8, &salt16, 1, m, extra, typ);
            }
            if m <= 33 {
                for outlen in [16usize, 32, 63, 64, 65, 96, 97, 128, 129] {
                    for t in 1..=3u32 {
                        check(st, "G1xG2", outlen, &pwd8, &salt16, t, m, 0, typ);
                    }
                }
            }
        }
        if m == 13 {
            st.sample(json!({"grid": "G2", "m_KiB": 13, "passes": "1..=6", "note": "13 KiB is not a multiple of the 4-block segment granularity"}));
        }
    });
    ctx.absorb("G2-memory", st);

    // G2': pass counts at the edges of narrow integer types (8 and 16 bits) at minimal memory
    let ts: Vec<u32> = match tier {
        Tier::Quick => vec![7, 8, 15, 16, 17, 127, 128, 129, 254, 255, 256, 257, 258, 511, 512, 513, 1023, 1024, 1025],
        Tier::Thorough => vec![7, 8, 15, 16, 17, 127, 128, 129, 254, 255, 256, 257, 258, 511, 512, 513, 1023, 1024, 1025, 4095, 4096, 4097, 32767, 32768, 32769, 65535, 65536, 65537],
    };
    let st = par_units(&ts, |&t, st| {
        for typ in [1, 2] {
            for m in [8u32, 13] {
                if t > 5000 && m != 8 {
                    continue;
                }
                check(st, "G2-passes", 32, &pwd8, &salt16, t, m, 0, typ);
            }
        }
    });
    ctx.note("pass_count_edges", json!(ts));
    ctx.absorb("G2-passes", st);

    // G3
    let pls: Vec<usize> = match tier {
        Tier::Quick => vec![0, 1, 8, 63, 64, 65, 127, 128, 129, 300],
        Tier::Thorough => (0..=300).collect(),
    };
    let st = par_units(&pls, |&pl, st| {
        let pwd = cval(seed, 2 + pl % 2, pl);
        for sl in [8usize, 9, 15, 16, 17, 32, 64] {
            let salt = kval(seed ^ 0x9, 2 + sl % 3, sl);
            for typ in [1, 2] {
                check(st, "G3-pwd-salt", 32, &pwd, &salt, 1, 8, 0, typ);
            }
        }
    });
    ctx.absorb("G3-pwd-salt", st);

    // G4: rejected parameters
    let mut st = Stats::new();
    let rej = |name: &str, outlen: usize, saltlen: usize, ops: u64, mem: usize, st: &mut Stats| {
        for typ in [1, 2] {
            let salt = vec![7u8; saltlen];
            let r = dry(outlen, &pwd8, &salt, ops, mem, typ);
            let oc = match &r {
                Err(_) => "panic",
                Ok(Some(_)) => "accepted-out-of-range",
                Ok(None) => "rejected-out-of-range",
            };
            st.eval(&("G4", name, outlen, saltlen, ops, mem, typ), true, oc);
            if oc != "rejected-out-of-range" {
                st.fail(Fail { check: "C09.argon2".into(), signature: format!("C09/G4/{}/{}", oc, name), what: format!("out-of-range parameters ({}: outlen {} saltlen {} opslimit {} memlimit {}) gave {}", name, outlen, saltlen, ops, mem, oc), case: json!({"kind": "reject"}) });
            }
        }
    };
    for outlen in 0..=15 {
        rej("outlen<16", outlen, 16, 1, 8192, &mut st);
    }
    for sl in 0..=7 {
        rej("salt<8", 32, sl, 1, 8192, &mut st);
    }
    rej("opslimit=0", 32, 16, 0, 8192, &mut st);
    for mem in [0usize, 1, 1024, 8191] {
        rej("memlimit<min", 32, 16, 1, mem, &mut st);
    }
    rej("memlimit>max", 32, 16, 1, dryoc::constants::CRYPTO_PWHASH_MEMLIMIT_MAX.saturating_add(1), &mut st);
    rej("opslimit>max", 32, 16, dryoc::constants::CRYPTO_PWHASH_OPSLIMIT_MAX + 1, 8192, &mut st);
    // values that are in range only after a 64 -> 32 bit truncation
    for ops in [(1u64 << 32) + 1, (1u64 << 32) + 3, (1u64 << 33) + 1, (1u64 << 40) + 2] {
        rej("opslimit=k*2^32+r", 32, 16, ops, 8192, &mut st);
        let r = guarded(AssertUnwindSafe(|| {
            let a = dryoc::classic::crypto_pwhash::crypto_pwhash_str(b"pw", ops, 8192).is_ok();
            let cfg = Config::interactive().with_opslimit(ops).with_memlimit(8192);
            let b = PwHash::<Vec<u8>, Vec<u8>>::hash_with_salt(&b"pw".to_vec(), vec![7u8; 16], cfg.clone()).is_ok();
            let c = PwHash::<Vec<u8>, Vec<u8>>::hash(&b"pw".to_vec(), cfg).is_ok();
            (a, b, c)
        }));
        let oc = match r {
            Ok((false, false, false)) => "rejected-out-of-range",
            Ok(_) => "accepted-out-of-range",
            Err(_) => "panic",
        };
        st.eval(&("G4-str-obj", ops), true, oc);
        if oc != "rejected-out-of-range" {
            st.fail(Fail { check: "C09.argon2".into(), signature: format!("C09/G4/{}/opslimit=k*2^32+r(str,object)", oc), what: format!("opslimit {} through crypto_pwhash_str / PwHash::hash_with_salt / PwHash::hash gave {:?}", ops, r), case: json!({"kind": "reject"}) });
        }
    }
    #[cfg(target_pointer_width = "64")]
    for mem in [((1usize << 32) + 8) * 1024, (1usize << 42) + 8192, (1usize << 45) + 8192] {
        rej("memlimit=k*2^42+r", 32, 16, 1, mem, &mut st);
    }
    st.sample(json!({"grid": "G4", "rejected": ["opslimit k*2^32+r (classic, str, object)", "memlimit k*2^42+r", "outlen 0..=15", "salt 0..=7", "opslimit 0", "memlimit 0,1,1024,8191", "memlimit max+1", "opslimit max+1"]}));
    ctx.absorb("G4-rejects", st);
    {
        use std::io::Write;
        if let Some(mut f) = CORPUS.lock().unwrap().take() {
            let _ = f.flush();
        }
    }

    // object API
    let units: Vec<usize> = vec![0, 1, 2, 5, 8];
    let st = par_units(&units, |&pl, st| {
        let pwd = cval(seed, 3, pl);
        for (hl, sl) in [(16usize, 8usize), (32, 16), (64, 16), (65, 17), (128, 64)] {
            let salt = kval(seed ^ 0x9, 3, sl);
            let cfg = Config::interactive().with_opslimit(1).with_memlimit(8192 + 1024 * (pl % 3)).with_hash_length(hl).with_salt_length(sl);
            let m = (8 + pl % 3) as u32;
            let r = guarded(AssertUnwindSafe(|| {
                let h: PwHash<Vec<u8>, Vec<u8>> = PwHash::hash_with_salt(&pwd, salt.clone(), cfg.clone()).unwrap();
                let (hash, _, _) = h.clone().into_parts();
                let (_, want, _) = sodium::argon2_raw(1, m, &pwd, &salt, hl, 2, false);
                let mut ok = hash == want && h.verify(&pwd).is_ok();
                let mut rejected = 0;
                for i in 0..pwd.len() {
                    let mut p2 = pwd.clone();
                    p2[i] ^= 0x01;
                    if h.verify(&p2).is_err() {
                        rejected += 1;
                    }
                }
                ok &= rejected == pwd.len();
                let mut ext = pwd.clone();
                ext.push(0);
                ok &= h.verify(&ext).is_err();
                if !pwd.is_empty() {
                    ok &= h.verify(&Vec::<u8>::new()).is_err();
                }
                ok
            }));
            let ok = r == Ok(true);
            st.eval(&("obj", pl, hl, sl), true, if ok { "PwHash-object-ok" } else { "PwHash-object-wrong" });
            if !ok {
                st.fail(Fail { check: "C09.argon2".into(), signature: "C09/object/hash-or-verify".into(), what: format!("PwHash::hash_with_salt/verify wrong for pwdlen {} hashlen {} saltlen {}: {:?}", pl, hl, sl, r), case: json!({"kind": "reject"}) });
            }
        }
    });
    ctx.absorb("object-api", st);
    // Config builder: every sequence of up to 4 setter calls (8-member alphabet: each of the
    // four setters with two values) from every base constructor. The model is "last write to
    // a field wins, other fields keep their value"; the Config is observed through its Debug
    // rendering and, wherever the resulting cost is small, through the hash it produces.
    {
        #[derive(Clone, Copy, PartialEq, Debug)]
        struct M {
            hl: usize,
            mem: usize,
            ops: u64,
            sl: usize,
        }
        const OPS: [(&str, usize); 8] = [("hash_length", 80), ("hash_length", 17), ("memlimit", 9216), ("memlimit", 13 * 1024), ("opslimit", 1), ("opslimit", 3), ("salt_length", 24), ("salt_length", 9)];
        fn apply(c: Config, m: &mut M, op: usize) -> Config {
            let (f, v) = OPS[op];
            match f {
                "hash_length" => {
                    m.hl = v;
                    c.with_hash_length(v)
                }
                "memlimit" => {
                    m.mem = v;
                    c.with_memlimit(v)
                }
                "opslimit" => {
                    m.ops = v as u64;
                    c.with_opslimit(v as u64)
                }
                _ => {
                    m.sl = v;
                    c.with_salt_length(v)
                }
            }
        }
        fn field(dbg: &str, name: &str) -> Option<u64> {
            let i = dbg.find(&format!("{}: ", name))? + name.len() + 2;
            let d: String = dbg[i..].chars().take_while(|c| c.is_ascii_digit()).collect();
            d.parse().ok()
        }
        let bases: [(&str, fn() -> Config, M); 4] = [
            ("interactive", Config::interactive, M { hl: 32, mem: 64 << 20, ops: 2, sl: 16 }),
            ("default", Config::default, M { hl: 32, mem: 64 << 20, ops: 2, sl: 16 }),
            ("moderate", Config::moderate, M { hl: 32, mem: 256 << 20, ops: 3, sl: 16 }),
            ("sensitive", Config::sensitive, M { hl: 32, mem: 1 << 30, ops: 4, sl: 16 }),
        ];
        let mut seqs: Vec<Vec<usize>> = vec![vec![]];
        let mut layer: Vec<Vec<usize>> = vec![vec![]];
        for _ in 0..4 {
            let mut next = vec![];
            for s in &layer {
                for o in 0..8 {
                    let mut t = s.clone();
                    t.push(o);
                    next.push(t);
                }
            }
            seqs.extend(next.iter().cloned());
            layer = next;
        }
        let units: Vec<(usize, usize)> = (0..4).flat_map(|b| (0..seqs.len()).map(move |i| (b, i))).collect();
        let pwd = cval(seed, 3, 7);
        let st = par_units(&units, |&(bi, si), st| {
            let (bname, mk, m0) = bases[bi];
            let mut m = m0;
            let mut cfg = mk();
            for &o in &seqs[si] {
                cfg = apply(cfg, &mut m, o);
            }
            let dbg = format!("{:?}", cfg);
            let seen = (field(&dbg, "hash_length"), field(&dbg, "memlimit"), field(&dbg, "opslimit"), field(&dbg, "salt_length"));
            let names: Vec<String> = seqs[si].iter().map(|&o| format!("with_{}({})", OPS[o].0, OPS[o].1)).collect();
            let mut bad: Option<String> = None;
            let oc;
            if let (Some(a), Some(b), Some(c), Some(d)) = seen {
                if (a as usize, b as usize, c, d as usize) != (m.hl, m.mem, m.ops, m.sl) {
                    bad = Some(format!("Config::{}().{} holds {} but the calls set hash_length={} memlimit={} opslimit={} salt_length={}", bname, names.join("."), dbg, m.hl, m.mem, m.ops, m.sl));
                }
                oc = "config-fields==model";
            } else {
                oc = "config-debug-unreadable";
            }
            st.eval(&("cfg", bi, si), true, oc);
            // the hash itself wherever it is cheap: memory set by the sequence, length <= 3
            if bad.is_none() && m.mem <= (16 << 20) && seqs[si].len() <= 3 && bi < 2 {
                let salt = kval(seed ^ 0x9, 3, m.sl);
                let c2 = cfg.clone();
                let (p2, s2) = (pwd.clone(), salt.clone());
                let r = guarded(AssertUnwindSafe(move || {
                    let h: PwHash<Vec<u8>, Vec<u8>> = PwHash::hash_with_salt(&p2, s2, c2.clone()).unwrap();
                    let g: PwHash<Vec<u8>, Vec<u8>> = PwHash::hash(&p2, c2).unwrap();
                    let (gh, gs, _) = g.into_parts();
                    (h.into_parts().0, gh, gs)
                }));
                let want = sodium::argon2_raw(m.ops as u32, (m.mem / 1024) as u32, &pwd, &salt, m.hl, 2, false).1;
                match r {
                    Ok((h, gh, gs)) => {
                        let want2 = sodium::argon2_raw(m.ops as u32, (m.mem / 1024) as u32, &pwd, &gs, m.hl, 2, false).1;
                        if h != want {
                            bad = Some(format!("Config::{}().{}: hash_with_salt gives a {}-byte hash that is not argon2id(t={}, m={} KiB, {} bytes) of libsodium", bname, names.join("."), h.len(), m.ops, m.mem / 1024, m.hl));
                        } else if gs.len() != m.sl || gh != want2 {
                            bad = Some(format!("Config::{}().{}: PwHash::hash chose a {}-byte salt (set: {}) / its hash differs from libsodium over that salt", bname, names.join("."), gs.len(), m.sl));
                        }
                    }
                    Err(p) => bad = Some(format!("Config::{}().{}: hashing failed: {}", bname, names.join("."), p)),
                }
                st.eval(&("cfg-hash", bi, si), true, if bad.is_none() { "config-hash==libsodium" } else { "config-hash-differs" });
            }
            if let Some(w) = bad {
                st.fail(Fail { check: "C09.argon2".into(), signature: format!("C09/object/config-builder/{}", seqs[si].last().map(|&o| OPS[o].0).unwrap_or("base")), what: w, case: json!({"kind": "reject"}) });
            }
            if bi == 0 && si == 100 {
                st.sample(json!({"config_sequence": names, "base": bname}));
            }
        });
        ctx.note("config_builder", json!({"bases": ["interactive", "default", "moderate", "sensitive"], "alphabet": OPS.iter().map(|(f, v)| format!("with_{}({})", f, v)).collect::<Vec<_>>(), "max_sequence_length": 4, "sequences_per_base": seqs.len(), "hashes": "every sequence of length <= 3 that sets the memory limit, from interactive/default, through hash_with_salt and hash (generated salt)"}));
        ctx.absorb("config-builder", st);
    }
    // salts longer (and shorter) than the Config's salt_length handed to hash_with_salt: the salt
    // given is the salt used, whole
    {
        let mut st = Stats::new();
        for sl in [8usize, 15, 17, 24, 32, 64, 100] {
            let salt = kval(seed ^ 0x9, 2, sl);
            let (_, want, _) = sodium::argon2_raw(1, 8, &pwd8, &salt, 32, 2, false);
            let (p2, s2) = (pwd8.clone(), salt.clone());
            let r = guarded(AssertUnwindSafe(move || {
                let cfg = Config::interactive().with_opslimit(1).with_memlimit(8192);
                let h: PwHash<Vec<u8>, Vec<u8>> = PwHash::hash_with_salt(&p2, s2, cfg).ok()?;
                let ok_verify = h.verify(&p2).is_ok();
                let (hash, salt_back, _) = h.into_parts();
                Some((hash, salt_back, ok_verify))
            }));
            let ok = matches!(&r, Ok(Some((h, sb, true))) if h == &want && sb == &salt) || matches!(&r, Ok(None));
            st.eval(&("salt-vs-config", sl), true, if ok { "PwHash-object-ok" } else { "PwHash-object-wrong" });
            if !ok {
                st.fail(Fail { check: "C09.argon2".into(), signature: "C09/object/salt-longer-than-config".into(), what: format!("PwHash::hash_with_salt with a {}-byte salt under a Config whose salt_length is 16: hash is not argon2id over the whole salt", sl), case: json!({"kind": "reject"}) });
            }
        }
        ctx.absorb("salt-vs-config-length", st);
    }
    // the algorithm chosen by libsodium's numeric id through `From<u32>`
    {
        let mut st = Stats::new();
        for id in [1u32, 2] {
            let (_, want, _) = sodium::argon2_raw(3, 8, &pwd8, &salt16, 32, id as i32, false);
            let r = guarded(AssertUnwindSafe(|| {
                let mut out = vec![0xC3u8; 32];
                crypto_pwhash(&mut out, &pwd8, &salt16, 3, 8192, PasswordHashAlgorithm::from(id)).ok().map(|_| out)
            }));
            let ok = r == Ok(Some(want.clone()));
            st.eval(&("alg-from-id", id), true, if ok { "argon2==libsodium" } else { "argon2-differs" });
            if !ok {
                st.fail(Fail { check: "C09.argon2".into(), signature: "C09/alg-from-id/differs".into(), what: format!("crypto_pwhash with PasswordHashAlgorithm::from({}) differs from libsodium's algorithm id {}", id, id), case: json!({"kind": "reject"}) });
            }
        }
        ctx.absorb("algorithm-ids", st);
    }
    // the preset entry points of the object API (real costs: 64 MiB / 256 MiB / 1 GiB)
    let mut st = Stats::new();
    let presets: Vec<(&str, u32, u32)> = match tier {
        Tier::Quick => vec![("hash_interactive", 2, 65536), ("hash_with_defaults", 2, 65536)],
        Tier::Thorough => vec![("hash_interactive", 2, 65536), ("hash_with_defaults", 2, 65536), ("hash_moderate", 3, 262144), ("hash_sensitive", 4, 1048576)],
    };
    for (name, t, m) in presets {
        let pw = b"preset password".to_vec();
        let r = guarded(AssertUnwindSafe(|| {
            let h: PwHash<Vec<u8>, Vec<u8>> = match name {
                "hash_interactive" => PwHash::hash_interactive(&pw).unwrap(),
                "hash_with_defaults" => PwHash::hash_with_defaults(&pw).unwrap(),
                "hash_moderate" => PwHash::hash_moderate(&pw).unwrap(),
                _ => PwHash::hash_sensitive(&pw).unwrap(),
            };
            let s = h.to_string();
            let (hash, salt, _) = h.into_parts();
            let (_, want, enc) = sodium::argon2_raw(t, m, &pw, &salt, 32, 2, true);
            hash == want && salt.len() == 16 && s == enc
        }));
        st.eval(&("preset", name), true, if r == Ok(true) { "preset==libsodium" } else { "preset-differs" });
        if r != Ok(true) {
            st.fail(Fail { check: "C09.argon2".into(), signature: format!("C09/object/preset/{}", name), what: format!("PwHash::{} does not equal argon2id(t={}, m={} KiB) of libsodium over the salt it chose / its string differs: {:?}", name, t, m, r), case: json!({"kind": "reject"}) });
        }
    }
    st.sample(json!({"object_api_presets": ["hash_interactive (t=2, 64 MiB)", "hash_moderate (t=3, 256 MiB; thorough)", "hash_sensitive (t=4, 1 GiB; thorough)"]}));
    ctx.absorb("object-presets", st);
    {
        let mut t: Vec<crate::purity::Entry> = vec![];
        let names = ["pwhash#0", "pwhash#1", "pwhash#2", "pwhash#3", "pwhash#4", "pwhash#5"];
        for (i, (outlen, pl, t_, m, typ)) in [(32usize, 8usize, 1u64, 8usize, 2i32), (32, 8, 1, 8, 1), (64, 0, 2, 13, 2), (16, 20, 3, 8, 1), (65, 8, 1, 33, 2), (32, 9, 2, 8, 2)].into_iter().enumerate() {
            let pwd = cval(seed, 3, pl);
            let salt = kval(seed ^ 0x9, 2 + i % 3, 16);
            t.push((names[i], Box::new(move || dry(outlen, &pwd, &salt, t_, m * 1024, typ).ok().flatten().unwrap_or_default())));
        }
        crate::purity::triples(&mut ctx, "C09", "C09.argon2", t);
    }
    ctx.require_outcome("argon2==libsodium");
    ctx.require_outcome("rejected-out-of-range");
    ctx.finish()
}
