//! Shared machinery: run context, statistics, evidence/replay writers, known findings,
//! deterministic parallel unit runner, seeded value alphabets.
#![allow(dead_code)]

use rayon::prelude::*;
use serde_json::{json, Map, Value};
use std::collections::{BTreeMap, HashSet};
use std::hash::{Hash, Hasher};
use std::path::PathBuf;
use std::time::Instant;

pub const VERIF_ROOT: &str = "/verif";

#[derive(Clone, Copy, PartialEq, Eq, Debug)]
pub enum Tier {
    Quick,
    Thorough,
}

impl Tier {
    pub fn name(self) -> &'static str {
        match self {
            Tier::Quick => "quick",
            Tier::Thorough => "thorough",
        }
    }
    /// pick(q, t)
    pub fn pick<T>(self, q: T, t: T) -> T {
        match self {
            Tier::Quick => q,
            Tier::Thorough => t,
        }
    }
}

/// One failing case: everything needed to classify it (signature), explain it (what) and
/// re-execute it without the explorer (check + case).
#[derive(Clone, Debug)]
pub struct Fail {
    /// replay dispatcher key, e.g. "C01.secretbox"
    pub check: String,
    /// canonical class of the failure, e.g. "C05/scalarmult/point=twist"
    pub signature: String,
    /// human readable one-liner
    pub what: String,
    /// the concrete case (inputs in hex / operation list), consumed by `mc replay`
    pub case: Value,
}

/// Mergeable per-unit statistics.
#[derive(Default)]
pub struct Stats {
    pub evaluations: u64,
    pub distinct: u64,
    keys: HashSet<u64>,
    pub outcomes: BTreeMap<String, u64>,
    pub fails: Vec<Fail>,
    pub fail_count: u64,
    pub fail_sigs: BTreeMap<String, u64>,
    pub samples: Vec<Value>,
    pub states: u64,
    pub transitions: u64,
    pub traces: u64,
    pub extra: BTreeMap<String, u64>,
    pub dims: BTreeMap<String, u64>,
}

pub fn h64<T: Hash>(t: &T) -> u64 {
    let mut h = std::collections::hash_map::DefaultHasher::new();
    t.hash(&mut h);
    h.finish()
}

impl Stats {
    pub fn new() -> Self {
        Self::default()
    }
    /// Record one evaluated case. `key` identifies the case (distinctness), `nontrivial`
    /// says whether it took the non-degenerate path by the check's stated rule.
    pub fn eval<K: Hash>(&mut self, key: &K, nontrivial: bool, outcome: &str) {
        self.evaluations += 1;
        if nontrivial {
            self.keys.insert(h64(key));
        }
        if let Some(c) = self.outcomes.get_mut(outcome) {
            *c += 1;
        } else {
            self.outcomes.insert(outcome.to_string(), 1);
        }
    }
    pub fn bump(&mut self, k: &str, n: u64) {
        *self.extra.entry(k.to_string()).or_insert(0) += n;
    }
    pub fn max(&mut self, k: &str, n: u64) {
        let e = self.extra.entry(k.to_string()).or_insert(0);
        if n > *e {
            *e = n;
        }
    }
    /// Fold the distinct-key set into the counter (units are disjoint because every key
    /// includes the unit's own dimensions) — keeps memory bounded.
    pub fn flush(&mut self) {
        self.distinct += self.keys.len() as u64;
        self.keys.clear();
    }
    pub fn fail(&mut self, f: Fail) {
        self.fail_count += 1;
        let n = self.fail_sigs.entry(f.signature.clone()).or_insert(0);
        *n += 1;
        // keep the first (simplest, in product order) two per signature, 200 overall
        if *n <= 2 && self.fails.len() < 200 {
            self.fails.push(f);
        }
    }
    pub fn sample(&mut self, v: Value) {
        if self.samples.len() < 3 {
            self.samples.push(v);
        }
    }
    pub fn merge(&mut self, mut o: Stats) {
        o.flush();
        self.evaluations += o.evaluations;
        self.distinct += o.distinct;
        for (k, v) in o.outcomes {
            *self.outcomes.entry(k).or_insert(0) += v;
        }
        for (k, v) in o.extra {
            let e = self.extra.entry(k.clone()).or_insert(0);
            if k.starts_with("max_") {
                if v > *e {
                    *e = v;
                }
            } else {
                *e += v;
            }
        }
        for (k, v) in o.dims {
            *self.dims.entry(k).or_insert(0) += v;
        }
        self.fail_count += o.fail_count;
        for f in o.fails {
            let have = self.fails.iter().filter(|g| g.signature == f.signature).count();
            if have < 2 && self.fails.len() < 200 {
                self.fails.push(f);
            }
        }
        for (k, v) in o.fail_sigs {
            *self.fail_sigs.entry(k).or_insert(0) += v;
        }
        for s in o.samples {
            if self.samples.len() < 6 {
                self.samples.push(s);
            }
        }
        self.states += o.states;
        self.transitions += o.transitions;
        self.traces += o.traces;
    }
}

/// Run `f` on every unit in parallel (rayon, all cores), merge the statistics in unit order
/// so that the result — including which failure is reported first — is deterministic.
pub fn par_units<U: Sync, F: Fn(&U, &mut Stats) + Sync>(units: &[U], f: F) -> Stats {
    let parts: Vec<Stats> = units
        .par_iter()
        .map(|u| {
            let mut st = Stats::new();
            f(u, &mut st);
            st.flush();
            st
        })
        .collect();
    let mut total = Stats::new();
    for p in parts {
        total.merge(p);
    }
    total
}

/// Run a closure catching unwinds; Err(message) on panic.
pub fn guarded<T, F: FnOnce() -> T + std::panic::UnwindSafe>(f: F) -> Result<T, String> {
    match std::panic::catch_unwind(f) {
        Ok(v) => Ok(v),
        Err(e) => {
            let msg = if let Some(s) = e.downcast_ref::<&str>() {
                s.to_string()
            } else if let Some(s) = e.downcast_ref::<String>() {
                s.clone()
            } else {
                "panic (non-string payload)".to_string()
            };
            Err(msg)
        }
    }
}

pub fn quiet_panics() {
    std::panic::set_hook(Box::new(|_| {}));
}

// ---------------------------------------------------------------------------------------
// known findings

#[derive(Clone, Debug)]
pub struct Finding {
    pub property: String,
    pub signature: String,
    pub status: String,
    pub what: String,
}

pub fn load_findings() -> Vec<Finding> {
    let p = format!("{}/known_findings.json", VERIF_ROOT);
    let Ok(s) = std::fs::read_to_string(&p) else {
        return vec![];
    };
    let v: Value = serde_json::from_str(&s).expect("known_findings.json is not valid JSON");
    let mut out = vec![];
    if let Some(a) = v.get("findings").and_then(|a| a.as_array()) {
        for e in a {
            out.push(Finding {
                property: e["property"].as_str().unwrap_or("").to_string(),
                signature: e["signature"].as_str().unwrap_or("").to_string(),
                status: e["status"].as_str().unwrap_or("").to_string(),
                what: e["what"].as_str().unwrap_or("").to_string(),
            });
        }
    }
    out
}

// ---------------------------------------------------------------------------------------
// run context

pub struct Ctx {
    pub prop: String,
    pub tier: Tier,
    pub seed: u64,
    pub level: &'static str,
    pub start: Instant,
    pub rule: String,
    pub assumptions: Vec<String>,
    pub notes: Map<String, Value>,
    pub exhaustive: bool,
    pub caps: Vec<String>,
    pub total: Stats,
    /// vacuity requirements: outcome-class prefixes that must have been observed
    pub must_see: Vec<String>,
}

impl Ctx {
    pub fn new(prop: &str, level: &'static str) -> Ctx {
        let tier = match std::env::var("VERIF_TIER").as_deref() {
            Ok("thorough") => Tier::Thorough,
            _ => Tier::Quick,
        };
        let seed = std::env::var("VERIF_SEED")
            .ok()
            .and_then(|s| s.parse::<u64>().ok())
            .unwrap_or(0);
        Ctx {
            prop: prop.to_string(),
            tier,
            seed,
            level,
            start: Instant::now(),
            rule: String::new(),
            assumptions: vec![],
            notes: Map::new(),
            exhaustive: true,
            caps: vec![],
            total: Stats::new(),
            must_see: vec![],
        }
    }
    pub fn absorb(&mut self, section: &str, st: Stats) {
        let mut st = st;
        st.flush();
        self.notes.insert(
            format!("section:{}", section),
            json!({"evaluations": st.evaluations, "distinct_nontrivial": st.distinct,
                   "outcomes": st.outcomes, "extra": st.extra, "failures": st.fail_count,
                   "states": st.states, "transitions": st.transitions}),
        );
        eprintln!(
            "[{}] section {:<28} evals={:<10} distinct={:<10} fails={} outcomes={:?} {:.1}s",
            self.prop,
            section,
            st.evaluations,
            st.distinct,
            st.fail_count,
            st.outcomes,
            self.start.elapsed().as_secs_f64()
        );
        self.total.merge(st);
    }
    pub fn note(&mut self, k: &str, v: Value) {
        self.notes.insert(k.to_string(), v);
    }
    pub fn assume(&mut self, s: &str) {
        self.assumptions.push(s.to_string());
    }
    pub fn cap(&mut self, s: &str) {
        self.exhaustive = false;
        self.caps.push(s.to_string());
    }
    pub fn require_outcome(&mut self, prefix: &str) {
        self.must_see.push(prefix.to_string());
    }

    /// Write evidence and replays, print the verdict lines, return the process exit code.
    pub fn finish(mut self) -> i32 {
        self.total.flush();
        let findings = load_findings();
        let mut violations: Vec<(Fail, PathBuf)> = vec![];
        let mut known_lines: BTreeMap<String, String> = BTreeMap::new();
        let mut seen_sigs: HashSet<String> = HashSet::new();
        for f in &self.total.fails {
            if let Some(k) = findings
                .iter()
                .find(|k| k.property == self.prop && k.status == "known" && sig_match(&k.signature, &f.signature))
            {
                known_lines.insert(k.signature.clone(), k.what.clone());
                continue;
            }
            if !seen_sigs.insert(f.signature.clone()) {
                continue;
            }
            let path = write_replay(&self.prop, f);
            violations.push((f.clone(), path));
        }
        // vacuity
        let mut machinery_error: Option<String> = None;
        for m in &self.must_see {
            if !self.total.outcomes.keys().any(|k| k.starts_with(m.as_str())) {
                machinery_error = Some(format!("vacuity: expected outcome class '{}' never observed", m));
            }
        }
        let wall = self.start.elapsed().as_secs_f64();
        let mut cov = Map::new();
        cov.insert("evaluations".into(), json!(self.total.evaluations));
        cov.insert("distinct_nontrivial".into(), json!(self.total.distinct));
        cov.insert("rule".into(), json!(self.rule));
        cov.insert("samples".into(), json!(self.total.samples));
        cov.insert("exhaustive".into(), json!(self.exhaustive));
        if self.total.states > 0 || self.level == "model_checking" {
            cov.insert("states".into(), json!(self.total.states));
            cov.insert("transitions".into(), json!(self.total.transitions));
            cov.insert("traces_validated_against_impl".into(), json!(self.total.traces));
        }
        cov.insert("caps_hit".into(), json!(self.caps));
        cov.insert("outcome_histogram".into(), json!(self.total.outcomes));
        cov.insert("counters".into(), json!(self.total.extra));
        cov.insert("failure_signatures".into(), json!(self.total.fail_sigs));
        cov.insert("known_findings_matched".into(), json!(known_lines.keys().collect::<Vec<_>>()));
        for (k, v) in self.notes.iter() {
            cov.insert(k.clone(), v.clone());
        }
        let ev = json!({
            "property_id": self.prop,
            "tier": self.tier.name(),
            "seed": self.seed,
            "level": self.level,
            "coverage": Value::Object(cov),
            "assumptions": self.assumptions,
            "wall_s": (wall * 1000.0).round() / 1000.0,
            "violations": violations.len(),
        });
        let plain_leg = std::env::var("VERIF_LEG").map(|v| v == "plain").unwrap_or(false);
        let mut ev = ev;
        if !plain_leg {
            // summary of the plain-release leg that bin/check ran just before this one
            if let Ok(p) = std::env::var("VERIF_PLAIN_SUMMARY") {
                if let Ok(t) = std::fs::read_to_string(&p) {
                    if let Ok(v) = serde_json::from_str::<Value>(&t) {
                        ev["coverage"]["plain_release_leg"] = json!({
                            "profile": "release, debug-assertions off, overflow-checks off (nightly toolchain, feature nightly), quick-tier bounds",
                            "evaluations": v["coverage"]["evaluations"], "distinct_nontrivial": v["coverage"]["distinct_nontrivial"],
                            "states": v["coverage"]["states"], "transitions": v["coverage"]["transitions"],
                            "violations": v["violations"], "wall_s": v["wall_s"]});
                    }
                }
            }
        }
        let evdir = if plain_leg { format!("{}/logs", VERIF_ROOT) } else { format!("{}/evidence", VERIF_ROOT) };
        let _ = std::fs::create_dir_all(&evdir);
        let evpath = if plain_leg { format!("{}/{}.plain.json", evdir, self.prop) } else { format!("{}/{}.json", evdir, self.prop) };
        std::fs::write(&evpath, serde_json::to_string_pretty(&ev).unwrap() + "\n")
            .expect("cannot write evidence");
        println!(
            "[{}] tier={} seed={} evaluations={} distinct_nontrivial={} states={} transitions={} exhaustive={} wall={:.1}s evidence={}",
            self.prop, self.tier.name(), self.seed, self.total.evaluations, self.total.distinct,
            self.total.states, self.total.transitions, self.exhaustive, wall, evpath
        );
        for (sig, what) in &known_lines {
            println!("KNOWN-FINDING: property={} {} [{}]", self.prop, what, sig);
        }
        if let Some(m) = machinery_error {
            if violations.is_empty() {
                println!("MACHINERY-ERROR property={} {}", self.prop, m);
                return 2;
            }
        }
        if violations.is_empty() {
            println!("[{}] PASS{}", self.prop, if plain_leg { " (plain-release leg)" } else { "" });
            0
        } else {
            for (f, p) in &violations {
                println!("  violation [{}] {}", f.signature, f.what);
                println!("VIOLATION property={} replay={}", self.prop, p.display());
            }
            1
        }
    }
}

/// A known-finding signature matches exactly, or as a prefix when it ends with '*'.
pub fn sig_match(pattern: &str, sig: &str) -> bool {
    if let Some(p) = pattern.strip_suffix('*') {
        sig.starts_with(p)
    } else {
        pattern == sig
    }
}

pub fn write_replay(prop: &str, f: &Fail) -> PathBuf {
    let dir = format!("{}/replays/{}", VERIF_ROOT, prop);
    let _ = std::fs::create_dir_all(&dir);
    let plain_leg = std::env::var("VERIF_LEG").map(|v| v == "plain").unwrap_or(false);
    let body = json!({
        "property": prop,
        "check": f.check,
        "signature": f.signature,
        "what": if plain_leg { format!("[plain-release build] {}", f.what) } else { f.what.clone() },
        "case": f.case,
        "leg": if plain_leg { "plain" } else { "checked" },
    });
    let text = serde_json::to_string_pretty(&body).unwrap() + "\n";
    let clean: String = f
        .signature
        .chars()
        .map(|c| if c.is_ascii_alphanumeric() { c } else { '_' })
        .take(60)
        .collect();
    let path = PathBuf::from(format!("{}/{}-{:08x}.json", dir, clean, h64(&text) as u32));
    std::fs::write(&path, text).expect("cannot write replay");
    path
}

// ---------------------------------------------------------------------------------------
// seeded value alphabets

pub fn splitmix(x: &mut u64) -> u64 {
    *x = x.wrapping_add(0x9E3779B97F4A7C15);
    let mut z = *x;
    z = (z ^ (z >> 30)).wrapping_mul(0xBF58476D1CE4E5B9);
    z = (z ^ (z >> 27)).wrapping_mul(0x94D049BB133111EB);
    z ^ (z >> 31)
}

/// Deterministic pseudo-random bytes for (seed, label, index).
pub fn prand(seed: u64, label: &str, idx: u64, n: usize) -> Vec<u8> {
    let mut s = seed ^ h64(&label).rotate_left(17) ^ idx.wrapping_mul(0xD6E8FEB86659FD93);
    let mut out = Vec::with_capacity(n + 8);
    while out.len() < n {
        out.extend_from_slice(&splitmix(&mut s).to_le_bytes());
    }
    out.truncate(n);
    out
}

/// Key/nonce/seed value alphabet K: 0 zeros, 1 0xff, 2 counting, 3.. seeded members.
pub const K_NAMES: [&str; 5] = ["zeros", "ff", "counting", "r1", "r2"];
pub fn kval(seed: u64, idx: usize, n: usize) -> Vec<u8> {
    match idx {
        0 => vec![0u8; n],
        1 => vec![0xffu8; n],
        2 => (0..n).map(|i| i as u8).collect(),
        k => prand(seed, "K", k as u64, n),
    }
}
pub fn karr<const N: usize>(seed: u64, idx: usize) -> [u8; N] {
    let v = kval(seed, idx, N);
    let mut a = [0u8; N];
    a.copy_from_slice(&v);
    a
}

/// Content alphabet C: 0 zeros, 1 0xff, 2 counting, 3 seeded.
pub const C_NAMES: [&str; 4] = ["zeros", "ff", "counting", "r1"];
pub fn cval(seed: u64, idx: usize, n: usize) -> Vec<u8> {
    match idx {
        0 => vec![0u8; n],
        1 => vec![0xffu8; n],
        2 => (0..n).map(|i| (i % 251) as u8).collect(),
        k => prand(seed, "C", k as u64, n),
    }
}

pub fn hx(b: &[u8]) -> String {
    hex::encode(b)
}
pub fn unhx(v: &Value) -> Vec<u8> {
    hex::decode(v.as_str().expect("hex string")).expect("valid hex")
}
pub fn short(b: &[u8]) -> String {
    if b.len() <= 40 {
        hex::encode(b)
    } else {
        format!("{}..({}B)", hex::encode(&b[..32]), b.len())
    }
}
