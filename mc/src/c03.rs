//! C03 — secret streams: explicit-state exploration (stateright) of the real push/pull
//! code in lockstep with libsodium, plus a data sweep over lengths / AD lengths / tag bytes.

use crate::core::*;
use crate::sodium::{self, RawStream};
use dryoc::classic::crypto_secretstream_xchacha20poly1305 as ss;
use dryoc::dryocstream::{DryocStream, Pull, Push, Tag};
use dryoc::types::Bytes;
use serde::{Deserialize, Serialize};
use serde_json::{json, Value};
use stateright::{Checker, Model, Property};
use std::panic::AssertUnwindSafe;
use std::sync::atomic::{AtomicU64, Ordering};

pub type Raw = RawStream;

#[derive(Clone, Hash, PartialEq, Eq, Debug)]
pub struct Rec {
    c: Vec<u8>,
    ad: Option<Vec<u8>>,
    msg: Vec<u8>,
    tag: u8,
    pre: Raw,
}

#[derive(Clone, Hash, PartialEq, Eq, Debug)]
pub struct Sys {
    push: Raw,
    pull: Raw,
    queue: Vec<Rec>,
    last: Option<Rec>,
    depth: u8,
    rej: bool,
    bad: Option<(&'static str, String)>,
}

#[derive(Clone, Copy, Debug, PartialEq, Eq, Hash, Serialize, Deserialize)]
pub enum Kind {
    Replay,
    Skip,
    Foreign,
    WrongAd,
    AdDropped,
    FlipTag,
    FlipBody,
    FlipMac,
    Trunc0,
    Trunc1,
    Trunc16,
    Extend1,
}
const KINDS: [Kind; 12] = [
    Kind::Replay,
    Kind::Skip,
    Kind::Foreign,
    Kind::WrongAd,
    Kind::AdDropped,
    Kind::FlipTag,
    Kind::FlipBody,
    Kind::FlipMac,
    Kind::Trunc0,
    Kind::Trunc1,
    Kind::Trunc16,
    Kind::Extend1,
];

#[derive(Clone, Copy, Debug, PartialEq, Eq, Hash, Serialize, Deserialize)]
pub enum Act {
    Push { mlen: u8, ad: bool, tag: u8 },
    RekeyBoth,
    RekeyPush,
    RekeyPull,
    Deliver,
    Wrong(Kind),
    /// both ends start a new stream on their *used* State values (init_push / init_pull
    /// called on a state that already carries a key, a counter and a chained nonce)
    Reinit,
}

// counters (observational; do not influence exploration)
static N_TRANS: AtomicU64 = AtomicU64::new(0);
static N_PUSH: AtomicU64 = AtomicU64::new(0);
static N_ACCEPT: AtomicU64 = AtomicU64::new(0);
static N_REJECT: AtomicU64 = AtomicU64::new(0);
static N_WRAP: AtomicU64 = AtomicU64::new(0);
static N_TAGREKEY: AtomicU64 = AtomicU64::new(0);
static N_ACC_AFTER_REJ: AtomicU64 = AtomicU64::new(0);
static N_LEGIT_OLD: AtomicU64 = AtomicU64::new(0);
static N_REINIT: AtomicU64 = AtomicU64::new(0);

fn counter_of(r: &Raw) -> u32 {
    u32::from_le_bytes([r.1[0], r.1[1], r.1[2], r.1[3]])
}

fn mk_state(r: &Raw) -> ss::State {
    ss::State::verif_from_parts(r.0, r.1)
}

fn ad_eq(a: &Option<Vec<u8>>, b: &Option<Vec<u8>>) -> bool {
    let e: Vec<u8> = vec![];
    a.as_ref().unwrap_or(&e) == b.as_ref().unwrap_or(&e)
}

fn msg_for(mlen: usize, depth: u8) -> Vec<u8> {
    (0..mlen).map(|i| (i as u8).wrapping_mul(3).wrapping_add(depth.wrapping_mul(41))).collect()
}

/// dryoc push through classic + object API, libsodium push; returns (ciphertext, new state)
/// or a (class, detail) describing the disagreement.
pub fn do_push(pre: &Raw, m: &[u8], ad: Option<&[u8]>, tag: u8) -> Result<(Vec<u8>, Raw), (&'static str, String)> {
    // classic
    let mut st = mk_state(pre);
    let r = guarded(AssertUnwindSafe(|| {
        let mut c = vec![0xC3u8; m.len() + 17];
        ss::crypto_secretstream_xchacha20poly1305_push(&mut st, &mut c, m, ad, tag).map(|_| c)
    }));
    let c = match r {
        Err(p) => return Err(("panic", format!("classic push panicked: {}", p))),
        Ok(Err(e)) => return Err(("push-error", format!("classic push returned Err: {:?}", e))),
        Ok(Ok(c)) => c,
    };
    let post = st.verif_parts();
    // libsodium
    let mut so = *pre;
    let c_so = sodium::ss_push(&mut so, m, ad, tag);
    if c != c_so {
        return Err(("ciphertext-differs", format!("push ciphertext differs from libsodium: dryoc={} sodium={}", short(&c), short(&c_so))));
    }
    if post != so {
        return Err(("state-differs", format!("push state differs from libsodium after push: dryoc=({},{}) sodium=({},{})", hx(&post.0), hx(&post.1), hx(&so.0), hx(&so.1))));
    }
    // object API
    let mv = m.to_vec();
    let adv = ad.map(|a| a.to_vec());
    let r2 = guarded(AssertUnwindSafe(|| {
        let mut ds: DryocStream<Push> = DryocStream::verif_from_state(mk_state(pre));
        let c2 = ds.push_to_vec(&mv, adv.as_ref(), Tag::from_bits_retain(tag));
        (c2, ds.verif_state().verif_parts())
    }));
    match r2 {
        Err(p) => return Err(("panic", format!("DryocStream::push_to_vec panicked: {}", p))),
        Ok((Err(e), _)) => return Err(("push-error", format!("DryocStream push Err: {:?}", e))),
        Ok((Ok(c2), post2)) => {
            if c2 != c {
                return Err(("ciphertext-differs", "object API push bytes differ from classic".into()));
            }
            if post2 != post {
                return Err(("state-differs", "object API push state differs from classic".into()));
            }
        }
    }
    Ok((c, post))
}

pub struct PullOut {
    pub accepted: Option<(Vec<u8>, u8)>,
    pub post: Raw,
}

/// dryoc pull (classic + object API) vs libsodium pull on the same (state, c, ad).
pub fn do_pull(pre: &Raw, c: &[u8], ad: Option<&[u8]>, object_api: bool) -> Result<PullOut, (&'static str, String)> {
    let mut st = mk_state(pre);
    let r = guarded(AssertUnwindSafe(|| {
        let mut m = vec![0x5au8; c.len().saturating_sub(17)];
        let mut tag = 0x77u8;
        ss::crypto_secretstream_xchacha20poly1305_pull(&mut st, &mut m, &mut tag, c, ad).map(|n| {
            m.truncate(n);
            (m, tag)
        })
    }));
    let dry = match r {
        Err(p) => return Err(("panic", format!("classic pull panicked on {}-byte input: {}", c.len(), p))),
        Ok(Ok(v)) => Some(v),
        Ok(Err(_)) => None,
    };
    let post = st.verif_parts();
    let mut so = *pre;
    let sod = sodium::ss_pull(&mut so, c, ad);
    match (&dry, &sod) {
        (Some(a), Some(b)) => {
            if a != b {
                return Err(("message-differs", "pull accepted but message/tag differ from libsodium".into()));
            }
        }
        (None, None) => {}
        (Some(_), None) => return Err(("verdict-differs", "dryoc accepted a ciphertext libsodium rejects".into())),
        (None, Some(_)) => return Err(("verdict-differs", "dryoc rejected a ciphertext libsodium accepts".into())),
    }
    if post != so {
        return Err(("state-differs", format!("pull state differs from libsodium after pull (accepted={})", dry.is_some())));
    }
    if dry.is_none() {
        if post != *pre || st != mk_state(pre) {
            return Err(("reject-mutates-state", "a rejected pull changed the pull state".into()));
        }
    }
    // the same pull into a roomy caller buffer (slack 1, 17 or 64 bytes): same verdict, same
    // message and tag, same state, and nothing written past the message
    {
        let slack = [1usize, 17, 64][c.len() % 3];
        let mlen = c.len().saturating_sub(17);
        let mut st2 = mk_state(pre);
        let r = guarded(AssertUnwindSafe(|| {
            let mut m = vec![0x5au8; mlen + slack];
            let mut tag = 0x77u8;
            ss::crypto_secretstream_xchacha20poly1305_pull(&mut st2, &mut m, &mut tag, c, ad).map(|n| (m, n, tag))
        }));
        match r {
            Err(p) => return Err(("panic", format!("classic pull into a buffer with {} spare bytes panicked: {}", slack, p))),
            Ok(Ok((m, n, tag))) => {
                let same = dry.as_ref().map(|(dm, dt)| n == dm.len() && &m[..n] == &dm[..] && tag == *dt).unwrap_or(false);
                if !same {
                    return Err(("verdict-differs", format!("pull into a buffer with {} spare bytes disagrees with the exact-fit pull", slack)));
                }
                if m[n..].iter().any(|b| *b != 0x5a) {
                    return Err(("message-differs", format!("pull into a buffer with {} spare bytes wrote past the message", slack)));
                }
            }
            Ok(Err(_)) => {
                if dry.is_some() {
                    return Err(("verdict-differs", format!("pull into a buffer with {} spare bytes rejected what the exact-fit pull accepts", slack)));
                }
            }
        }
        if st2.verif_parts() != post {
            return Err(("state-differs", format!("pull into a buffer with {} spare bytes leaves a different state", slack)));
        }
    }
    // a pull refused because the caller's buffer is too small is a rejected pull too: the
    // state must be exactly as it was (a panic instead of Err is left to the implementation)
    if c.len() > 17 {
        let mlen = c.len() - 17;
        for short in [mlen - 1, mlen / 2, 0] {
            let mut st3 = mk_state(pre);
            let r = guarded(AssertUnwindSafe(|| {
                let mut m = vec![0x5au8; short];
                let mut tag = 0x77u8;
                ss::crypto_secretstream_xchacha20poly1305_pull(&mut st3, &mut m, &mut tag, c, ad).is_ok()
            }));
            match r {
                Ok(true) => return Err(("verdict-differs", format!("pull of a {}-byte message into a {}-byte buffer returned Ok", mlen, short))),
                Ok(false) => {
                    if st3.verif_parts() != *pre {
                        return Err(("reject-mutates-state", format!("a pull refused for its {}-byte buffer (message {} bytes) changed the pull state", short, mlen)));
                    }
                }
                Err(_) => {}
            }
        }
    }
    if object_api {
        let cv = c.to_vec();
        let adv = ad.map(|a| a.to_vec());
        let r2 = guarded(AssertUnwindSafe(|| {
            let mut ds: DryocStream<Pull> = DryocStream::verif_from_state(mk_state(pre));
            let out = ds.pull_to_vec(&cv, adv.as_ref());
            (out.map(|(m, t)| (m, t.bits())).ok(), ds.verif_state().verif_parts())
        }));
        match r2 {
            Err(p) => return Err(("panic", format!("DryocStream::pull_to_vec panicked on {}-byte input: {}", c.len(), p))),
            Ok((o, post2)) => {
                if o != dry {
                    return Err(("verdict-differs", "object API pull result differs from classic".into()));
                }
                if post2 != post {
                    return Err(("state-differs", "object API pull state differs from classic".into()));
                }
            }
        }
    }
    Ok(PullOut { accepted: dry, post })
}

fn foreign_record() -> Rec {
    let pre: Raw = ([0x42u8; 32], [1, 0, 0, 0, 9, 9, 9, 9, 9, 9, 9, 9]);
    let mut so = pre;
    let msg = vec![0x66u8; 5];
    let c = sodium::ss_push(&mut so, &msg, None, 0);
    Rec { c, ad: None, msg, tag: 0, pre }
}

pub fn step(sys: &Sys, act: &Act) -> Sys {
    N_TRANS.fetch_add(1, Ordering::Relaxed);
    let mut n = sys.clone();
    n.depth += 1;
    match *act {
        Act::Push { mlen, ad, tag } => {
            N_PUSH.fetch_add(1, Ordering::Relaxed);
            let m = msg_for(mlen as usize, sys.depth);
            let adv = if ad { Some(vec![0xA1u8, 0xA2, 0xA3]) } else { None };
            let pre = sys.push;
            match do_push(&pre, &m, adv.as_deref(), tag) {
                Err(b) => n.bad = Some(b),
                Ok((c, post)) => {
                    if counter_of(&pre) == 0xffff_ffff && tag & 2 == 0 {
                        N_WRAP.fetch_add(1, Ordering::Relaxed);
                        if counter_of(&post) != 1 || post.0 == pre.0 {
                            n.bad = Some(("state-differs", "no rekey after counter wrap".into()));
                        }
                    }
                    if tag & 2 != 0 {
                        N_TAGREKEY.fetch_add(1, Ordering::Relaxed);
                    }
                    n.push = post;
                    n.queue.push(Rec { c, ad: adv, msg: m, tag, pre });
                }
            }
        }
        Act::RekeyBoth | Act::RekeyPush | Act::RekeyPull => {
            for (which, on) in [(0, *act != Act::RekeyPull), (1, *act != Act::RekeyPush)] {
                if !on {
                    continue;
                }
                let pre = if which == 0 { sys.push } else { sys.pull };
                let mut st = mk_state(&pre);
                let r = guarded(AssertUnwindSafe(|| ss::crypto_secretstream_xchacha20poly1305_rekey(&mut st)));
                if let Err(p) = r {
                    n.bad = Some(("panic", format!("rekey panicked: {}", p)));
                    return n;
                }
                let mut so = pre;
                sodium::ss_rekey(&mut so);
                if st.verif_parts() != so {
                    n.bad = Some(("state-differs", "explicit rekey state differs from libsodium".into()));
                    return n;
                }
                // object API
                let mut ds: DryocStream<Push> = DryocStream::verif_from_state(mk_state(&pre));
                ds.rekey();
                if ds.verif_state().verif_parts() != so {
                    n.bad = Some(("state-differs", "DryocStream::rekey differs from libsodium".into()));
                    return n;
                }
                if which == 0 {
                    n.push = so;
                } else {
                    n.pull = so;
                }
            }
        }
        Act::Reinit => {
            N_REINIT.fetch_add(1, Ordering::Relaxed);
            let d = sys.depth;
            let key: [u8; 32] = std::array::from_fn(|i| (i as u8).wrapping_mul(13).wrapping_add(d.wrapping_mul(29)).wrapping_add(5));
            let header: [u8; 24] = std::array::from_fn(|i| (i as u8).wrapping_mul(7).wrapping_add(d.wrapping_mul(31)).wrapping_add(1));
            let so = sodium::ss_init_pull(&header, &key);
            let (pre_push, pre_pull) = (sys.push, sys.pull);
            let r = guarded(AssertUnwindSafe(|| {
                let mut push = mk_state(&pre_push);
                let mut pull = mk_state(&pre_pull);
                let h2 = header;
                dryoc::rng::verif::set_source(Some(Box::new(move |b: &mut [u8]| {
                    for (i, x) in b.iter_mut().enumerate() {
                        *x = h2[i % 24];
                    }
                })));
                let mut hout = [0xC3u8; 24];
                ss::crypto_secretstream_xchacha20poly1305_init_push(&mut push, &mut hout, &key);
                dryoc::rng::verif::set_source(None);
                ss::crypto_secretstream_xchacha20poly1305_init_pull(&mut pull, &hout, &key);
                (hout, push.verif_parts(), pull.verif_parts())
            }));
            match r {
                Err(p) => {
                    dryoc::rng::verif::set_source(None);
                    n.bad = Some(("panic", format!("re-init panicked: {}", p)));
                }
                Ok((hout, a, b)) => {
                    if hout != header || a != so {
                        n.bad = Some(("state-differs", format!("init_push on a used state (counter {:#x}) differs from libsodium's init: dryoc=({},{}) sodium=({},{})", counter_of(&pre_push), hx(&a.0), hx(&a.1), hx(&so.0), hx(&so.1))));
                    } else if b != so {
                        n.bad = Some(("state-differs", format!("init_pull on a used state (counter {:#x}) differs from libsodium's init", counter_of(&pre_pull))));
                    }
                    n.push = so;
                    n.pull = so;
                }
            }
        }
        Act::Deliver | Act::Wrong(_) => {
            // build the delivered (c, ad)
            let head = sys.queue.first();
            let (c, ad): (Vec<u8>, Option<Vec<u8>>) = match *act {
                Act::Deliver => {
                    let r = head.unwrap();
                    (r.c.clone(), r.ad.clone())
                }
                Act::Wrong(k) => match k {
                    Kind::Replay => {
                        let r = sys.last.as_ref().unwrap();
                        (r.c.clone(), r.ad.clone())
                    }
                    Kind::Skip => {
                        let r = &sys.queue[1];
                        (r.c.clone(), r.ad.clone())
                    }
                    Kind::Foreign => {
                        let r = foreign_record();
                        (r.c, r.ad)
                    }
                    Kind::WrongAd => {
                        let r = head.unwrap();
                        let ad = match &r.ad {
                            None => Some(vec![9u8]),
                            Some(a) => {
                                let mut a = a.clone();
                                a[0] ^= 1;
                                Some(a)
                            }
                        };
                        (r.c.clone(), ad)
                    }
                    Kind::AdDropped => (head.unwrap().c.clone(), None),
                    Kind::FlipTag => {
                        let mut c = head.unwrap().c.clone();
                        c[0] ^= 0x01;
                        (c, head.unwrap().ad.clone())
                    }
                    Kind::FlipBody => {
                        let mut c = head.unwrap().c.clone();
                        c[1] ^= 0x80;
                        (c, head.unwrap().ad.clone())
                    }
                    Kind::FlipMac => {
                        let mut c = head.unwrap().c.clone();
                        let l = c.len();
                        c[l - 1] ^= 0x01;
                        (c, head.unwrap().ad.clone())
                    }
                    Kind::Trunc0 => (vec![], head.unwrap().ad.clone()),
                    Kind::Trunc1 => (head.unwrap().c[..1].to_vec(), head.unwrap().ad.clone()),
                    Kind::Trunc16 => (head.unwrap().c[..16].to_vec(), head.unwrap().ad.clone()),
                    Kind::Extend1 => {
                        let mut c = head.unwrap().c.clone();
                        c.push(0);
                        (c, head.unwrap().ad.clone())
                    }
                },
                _ => unreachable!(),
            };
            // O-model: accept iff byte-identical to a known record AND the pull side stands
            // where the push side stood when it produced it.
            let mut cands: Vec<&Rec> = sys.queue.iter().collect();
            if let Some(l) = &sys.last {
                cands.push(l);
            }
            let expect = cands
                .iter()
                .find(|r| r.c == c && ad_eq(&r.ad, &ad) && r.pre == sys.pull)
                .map(|r| (r.msg.clone(), r.tag));
            match do_pull(&sys.pull, &c, ad.as_deref(), true) {
                Err(b) => n.bad = Some(b),
                Ok(out) => {
                    match (&out.accepted, &expect) {
                        (Some(a), Some(e)) => {
                            if a != e {
                                n.bad = Some(("message-differs", "accepted but message/tag differ from what was pushed".into()));
                            }
                        }
                        (None, None) => {}
                        (Some(_), None) => {
                            n.bad = Some(("accepted-out-of-position", format!("{:?}: a ciphertext that is not the in-position record was accepted", act)));
                        }
                        (None, Some(_)) => {
                            n.bad = Some(("rejected-genuine", format!("{:?}: the genuine in-position ciphertext was rejected", act)));
                        }
                    }
                    n.pull = out.post;
                    if out.accepted.is_some() {
                        N_ACCEPT.fetch_add(1, Ordering::Relaxed);
                        if sys.rej {
                            N_ACC_AFTER_REJ.fetch_add(1, Ordering::Relaxed);
                        }
                        n.rej = false;
                        if *act != Act::Deliver {
                            N_LEGIT_OLD.fetch_add(1, Ordering::Relaxed);
                        }
                    } else {
                        N_REJECT.fetch_add(1, Ordering::Relaxed);
                        if *act != Act::Deliver {
                            n.rej = true;
                        }
                    }
                }
            }
            if *act == Act::Deliver {
                let r = n.queue.remove(0);
                if n.bad.is_none() && expect.is_some() {
                    n.last = Some(r);
                }
            }
        }
    }
    n
}

fn enabled(sys: &Sys, lens: &[u8], out: &mut Vec<Act>) {
    if sys.bad.is_some() {
        return;
    }
    if sys.queue.len() < 2 {
        for &mlen in lens {
            for ad in [false, true] {
                for tag in 0u8..4 {
                    out.push(Act::Push { mlen, ad, tag });
                }
            }
        }
    }
    if sys.queue.is_empty() {
        out.push(Act::RekeyBoth);
    }
    out.push(Act::RekeyPush);
    out.push(Act::RekeyPull);
    out.push(Act::Reinit);
    if !sys.queue.is_empty() {
        out.push(Act::Deliver);
    }
    for k in KINDS {
        let ok = match k {
            Kind::Replay => sys.last.is_some(),
            Kind::Skip => sys.queue.len() == 2,
            Kind::Foreign => true,
            Kind::AdDropped => sys.queue.first().map(|r| r.ad.is_some()).unwrap_or(false),
            Kind::FlipBody => sys.queue.first().map(|r| !r.msg.is_empty()).unwrap_or(false),
            _ => !sys.queue.is_empty(),
        };
        if ok {
            out.push(Act::Wrong(k));
        }
    }
}

pub struct StreamModel {
    pub inits: Vec<Sys>,
    pub max_depth: u8,
    pub lens: Vec<u8>,
}


impl Model for StreamModel {
    type State = Sys;
    type Action = Act;
    fn init_states(&self) -> Vec<Sys> {
        self.inits.clone()
    }
    fn actions(&self, s: &Sys, out: &mut Vec<Act>) {
        if s.depth < self.max_depth {
            enabled(s, &self.lens, out)
        }
    }
    fn next_state(&self, s: &Sys, a: Act) -> Option<Sys> {
        Some(step(s, &a))
    }
    fn properties(&self) -> Vec<Property<Self>> {
        // one `always` property per disagreement class so that each gets its own shortest
        // counterexample
        vec![
            Property::always("no panic", |_, s: &Sys| s.bad.as_ref().map(|b| b.0 != "panic").unwrap_or(true)),
            Property::always("push never errs", |_, s: &Sys| s.bad.as_ref().map(|b| b.0 != "push-error").unwrap_or(true)),
            Property::always("ciphertext == libsodium", |_, s: &Sys| s.bad.as_ref().map(|b| b.0 != "ciphertext-differs").unwrap_or(true)),
            Property::always("state == libsodium", |_, s: &Sys| s.bad.as_ref().map(|b| b.0 != "state-differs").unwrap_or(true)),
            Property::always("message == pushed", |_, s: &Sys| s.bad.as_ref().map(|b| b.0 != "message-differs").unwrap_or(true)),
            Property::always("verdict == libsodium", |_, s: &Sys| s.bad.as_ref().map(|b| b.0 != "verdict-differs").unwrap_or(true)),
            Property::always("reject leaves state", |_, s: &Sys| s.bad.as_ref().map(|b| b.0 != "reject-mutates-state").unwrap_or(true)),
            Property::always("order authenticated", |_, s: &Sys| s.bad.as_ref().map(|b| b.0 != "accepted-out-of-position").unwrap_or(true)),
            Property::always("genuine accepted", |_, s: &Sys| s.bad.as_ref().map(|b| b.0 != "rejected-genuine").unwrap_or(true)),
        ]
    }
}

fn init_sys(raw: Raw) -> Sys {
    Sys { push: raw, pull: raw, queue: vec![], last: None, depth: 0, rej: false, bad: None }
}

pub fn initial_states(seed: u64) -> Vec<(String, Sys)> {
    let mut v = vec![];
    for kidx in [2usize, 3] {
        let key: [u8; 32] = karr(seed, kidx);
        for ctr in [1u32, 2, 0x7fff_ffff, 0xffff_fffe, 0xffff_ffff] {
            let mut nonce = [0u8; 12];
            nonce[..4].copy_from_slice(&ctr.to_le_bytes());
            nonce[4..].copy_from_slice(&prand(seed, "inonce", kidx as u64, 8));
            v.push((format!("raw/key={}/ctr={:#x}", K_NAMES[kidx], ctr), init_sys((key, nonce))));
        }
    }
    v
}

/// The real init path under the RNG seam: header pinned, push and pull states compared with
/// libsodium's init_pull of that header. Returns extra initial states, or a failure.
pub fn init_path_states(seed: u64, st: &mut Stats) -> Vec<(String, Sys)> {
    let mut v = vec![];
    for kidx in 0..5usize {
        for hidx in 0..5usize {
            let key: [u8; 32] = karr(seed, kidx);
            let header: [u8; 24] = karr(seed ^ 0x55, hidx);
            let h2 = header;
            dryoc::rng::verif::set_source(Some(Box::new(move |d: &mut [u8]| {
                for (i, b) in d.iter_mut().enumerate() {
                    *b = h2[i % 24];
                }
            })));
            let mut push = ss::State::new();
            let mut hout = [0xC3u8; 24];
            ss::crypto_secretstream_xchacha20poly1305_init_push(&mut push, &mut hout, &key);
            let (ds, hobj): (DryocStream<Push>, dryoc::dryocstream::Header) =
                DryocStream::init_push(&dryoc::dryocstream::Key::from(&key));
            dryoc::rng::verif::set_source(None);
            let mut pull = ss::State::new();
            ss::crypto_secretstream_xchacha20poly1305_init_pull(&mut pull, &hout, &key);
            let dp: DryocStream<Pull> = DryocStream::init_pull(&dryoc::dryocstream::Key::from(&key), &hobj);
            let so = sodium::ss_init_pull(&header, &key);
            let ok = hout == header
                && hobj.as_slice() == &header[..]
                && push.verif_parts() == so
                && pull.verif_parts() == so
                && ds.verif_state().verif_parts() == so
                && dp.verif_state().verif_parts() == so;
            st.eval(&("init", kidx, hidx), true, if ok { "init==libsodium" } else { "init-differs" });
            if !ok {
                st.fail(Fail {
                    check: "C03.init".into(),
                    signature: "C03/init/state-differs".into(),
                    what: "init_push/init_pull state or header differs from libsodium init_pull".into(),
                    case: json!({"key": hx(&key), "header": hx(&header)}),
                });
            }
            if (kidx == 2 && hidx == 3) || (kidx == 3 && hidx == 2) {
                v.push((format!("init_push/key={}/header={}", K_NAMES[kidx], K_NAMES[hidx]), init_sys(so)));
            }
        }
    }
    v
}

fn act_json(a: &Act) -> Value {
    serde_json::to_value(a).unwrap()
}

fn raw_json(r: &Raw) -> Value {
    json!({"k": hx(&r.0), "nonce": hx(&r.1)})
}

pub fn replay_model(case: &Value) -> Option<String> {
    let raw: Raw = (
        unhx(&case["init"]["k"]).try_into().unwrap(),
        unhx(&case["init"]["nonce"]).try_into().unwrap(),
    );
    let mut s = init_sys(raw);
    for a in case["actions"].as_array().unwrap() {
        let act: Act = serde_json::from_value(a.clone()).unwrap();
        s = step(&s, &act);
        if let Some(b) = &s.bad {
            return Some(format!("{}: {}", b.0, b.1));
        }
    }
    None
}

fn run_model(ctx: &mut Ctx, inits: Vec<(String, Sys)>, depth: u8, dfs: bool, threads: usize) -> (usize, usize, usize, Stats) {
    run_model_lens(ctx, inits, depth, dfs, threads, &[0, 17])
}

fn run_model_lens(ctx: &mut Ctx, inits: Vec<(String, Sys)>, depth: u8, dfs: bool, threads: usize, lens: &[u8]) -> (usize, usize, usize, Stats) {
    let model = StreamModel { inits: inits.iter().map(|x| x.1.clone()).collect(), max_depth: depth, lens: lens.to_vec() };
    let t0 = N_TRANS.load(Ordering::Relaxed);
    let builder = model.checker().threads(threads);
    fn collect<C: Checker<StreamModel>>(c: C) -> (usize, usize, usize, Vec<(&'static str, stateright::Path<Sys, Act>)>) {
        (c.unique_state_count(), c.state_count(), c.max_depth(), c.discoveries().into_iter().collect())
    }
    let (unique, total, maxd, mut discoveries) = if dfs { collect(builder.spawn_dfs().join()) } else { collect(builder.spawn_bfs().join()) };
    discoveries.sort_by_key(|d| d.0);
    let mut st = Stats::new();
    for (name, path) in discoveries {
        let v = path.into_vec();
        let init = v[0].0.clone();
        let last = v.last().unwrap().0.clone();
        let actions: Vec<Value> = v.iter().filter_map(|(_, a)| a.as_ref().map(act_json)).collect();
        let (class, detail) = last.bad.clone().unwrap_or(("unknown", name.to_string()));
        let lastact = actions.last().cloned().unwrap_or(Value::Null);
        let kind = match &lastact {
            Value::String(s) => s.clone(),
            Value::Object(o) => {
                let k = o.keys().next().cloned().unwrap_or_default();
                if k == "Wrong" {
                    format!("Wrong({})", o["Wrong"].as_str().unwrap_or("?"))
                } else {
                    k
                }
            }
            _ => "?".into(),
        };
        st.fail(Fail {
            check: "C03.model".into(),
            signature: format!("C03/model/{}/{}", class, kind),
            what: format!("after {} step(s): {}", actions.len(), detail),
            case: json!({"init": raw_json(&init.push), "actions": actions, "property": name}),
        });
    }
    st.states = unique as u64;
    st.transitions = N_TRANS.load(Ordering::Relaxed) - t0;
    st.traces = st.transitions;
    let _ = ctx;
    (unique, total, maxd, st)
}

/// E-prod data sweep: one push+pull from each state class for every mlen × adlen × tag byte.
fn sweep(ctx: &mut Ctx) {
    let seed = ctx.seed;
    let tier = ctx.tier;
    let max_mlen = tier.pick(130usize, 300);
    let adlens: Vec<Option<usize>> = match tier {
        Tier::Quick => vec![None, Some(0), Some(1), Some(15), Some(16), Some(17), Some(33)],
        Tier::Thorough => {
            let mut v: Vec<Option<usize>> = vec![None];
            v.extend((0..=33).map(Some));
            v.push(Some(328));
            v
        }
    };
    let tags: Vec<u8> = match tier {
        Tier::Quick => vec![0, 1, 2, 3, 4, 0x80, 0xff],
        Tier::Thorough => (0..=255u8).collect(),
    };
    // state classes: each initial state, and the states reached from it after one REKEY-tag
    // push, one explicit rekey, one plain push
    let mut classes: Vec<(String, Raw)> = vec![];
    for (name, s) in initial_states(seed) {
        let raw = s.push;
        classes.push((name.clone(), raw));
        let mut a = raw;
        sodium::ss_push(&mut a, b"x", None, 2);
        classes.push((format!("{}+rekeytag", name), a));
        let mut b = raw;
        sodium::ss_rekey(&mut b);
        classes.push((format!("{}+rekey", name), b));
        let mut c = raw;
        sodium::ss_push(&mut c, b"", None, 0);
        classes.push((format!("{}+push", name), c));
    }
    let units: Vec<(usize, usize)> = (0..classes.len()).flat_map(|ci| (0..=max_mlen).map(move |m| (ci, m))).collect();
    let st = par_units(&units, |&(ci, mlen), st| {
        let (cname, raw) = &classes[ci];
        let m = cval(seed, 2 + (mlen % 2), mlen);
        for adl in &adlens {
            let ad = adl.map(|n| cval(seed, 3, n));
            for &tag in &tags {
                let key = (ci, mlen, *adl, tag);
                let mk_fail = |class: &str, detail: String, obj: bool| Fail {
                    check: "C03.sweep".into(),
                    signature: format!("C03/sweep/{}{}", class, if obj && tag > 3 { "/unknown-tag-bits" } else { "" }),
                    what: format!("state class {} mlen={} adlen={:?} tag={:#x}: {}", cname, mlen, adl, tag, detail),
                    case: json!({"k": hx(&raw.0), "nonce": hx(&raw.1), "mlen": mlen, "msg": hx(&m), "ad": ad.as_ref().map(|a| hx(a)), "tag": tag}),
                };
                match do_push(raw, &m, ad.as_deref(), tag) {
                    Err((class, d)) => {
                        st.eval(&key, true, "push-disagreement");
                        st.fail(mk_fail(class, d, false));
                    }
                    Ok((c, post)) => {
                        // the object API takes a Tag; arbitrary tag bytes reach pull only via
                        // the classic API or a foreign peer, so pull is driven for all of them
                        match do_pull(raw, &c, ad.as_deref(), true) {
                            Err((class, d)) => {
                                st.eval(&key, true, "pull-disagreement");
                                st.fail(mk_fail(class, d, true));
                            }
                            Ok(out) => {
                                let ok = out.accepted.as_ref().map(|(mm, t)| mm == &m && *t == tag).unwrap_or(false) && out.post == post;
                                st.eval(&key, true, if ok { "roundtrip==libsodium" } else { "roundtrip-failed" });
                                if !ok {
                                    st.fail(mk_fail("roundtrip", "pull did not return the pushed message/tag or states diverge".into(), false));
                                }
                            }
                        }
                    }
                }
            }
        }
        if mlen == 17 && ci == 0 {
            st.sample(json!({"engine":"E-prod sweep","state_class": cname, "mlen": mlen, "adlens": adlens.len(), "tags": tags.len()}));
        }
    });
    // counter edges: every counter whose four bytes are drawn from {00, 01, fe, ff} (all carry
    // chains of the little-endian increment) plus 2^k-1, 2^k for every k: one push and one pull
    // from that state, ciphertext and both successor states against libsodium
    {
        let mut ctrs: Vec<u32> = vec![];
        for a in [0u8, 1, 0xfe, 0xff] {
            for b in [0u8, 1, 0xfe, 0xff] {
                for c in [0u8, 1, 0xfe, 0xff] {
                    for d in [0u8, 1, 0xfe, 0xff] {
                        ctrs.push(u32::from_le_bytes([a, b, c, d]));
                    }
                }
            }
        }
        for k in 1..32 {
            ctrs.push((1u32 << k) - 1);
            ctrs.push(1u32 << k);
        }
        ctrs.sort();
        ctrs.dedup();
        let key: [u8; 32] = karr(seed, 3);
        let st = par_units(&ctrs, |&ctr, st| {
            let mut nonce = [0u8; 12];
            nonce[..4].copy_from_slice(&ctr.to_le_bytes());
            nonce[4..].copy_from_slice(&prand(seed, "inonce", 9, 8));
            let raw: Raw = (key, nonce);
            for mlen in [0usize, 17] {
                for tag in [0u8, 1, 3] {
                    let m = cval(seed, 3, mlen);
                    let r = do_push(&raw, &m, None, tag).and_then(|(c, post)| do_pull(&raw, &c, None, true).map(|o| (o, post)));
                    let ok = matches!(&r, Ok((o, post)) if o.accepted.as_ref().map(|(mm, t)| mm == &m && *t == tag).unwrap_or(false) && o.post == *post);
                    st.eval(&("ctr-edge", ctr, mlen, tag), true, if ok { "roundtrip==libsodium" } else { "counter-edge-disagreement" });
                    if !ok {
                        let (class, d) = match r {
                            Err((c, d)) => (c, d),
                            Ok(_) => ("roundtrip", "pull did not return the pushed message/tag or states diverge".to_string()),
                        };
                        st.fail(Fail { check: "C03.sweep".into(), signature: format!("C03/sweep/{}/counter-edge", class), what: format!("counter {:#010x} mlen={} tag={}: {}", ctr, mlen, tag, d), case: json!({"k": hx(&raw.0), "nonce": hx(&raw.1), "mlen": mlen, "msg": hx(&m), "ad": Value::Null, "tag": tag}) });
                    }
                }
            }
        });
        ctx.note("counter_edges", json!(ctrs.len()));
        ctx.absorb("counter-edges", st);
    }
    ctx.note("sweep_dims", json!({"state_classes": classes.len(), "mlen": format!("0..={}", max_mlen), "adlens": adlens.len(), "tags": tags.len()}));
    ctx.absorb("sweep", st);
}

pub fn replay_sweep(case: &Value) -> Option<String> {
    let raw: Raw = (unhx(&case["k"]).try_into().unwrap(), unhx(&case["nonce"]).try_into().unwrap());
    let m = unhx(&case["msg"]);
    let ad = if case["ad"].is_null() { None } else { Some(unhx(&case["ad"])) };
    let tag = case["tag"].as_u64().unwrap() as u8;
    match do_push(&raw, &m, ad.as_deref(), tag) {
        Err((c, d)) => Some(format!("{}: {}", c, d)),
        Ok((c, post)) => match do_pull(&raw, &c, ad.as_deref(), true) {
            Err((c, d)) => Some(format!("{}: {}", c, d)),
            Ok(out) => {
                let ok = out.accepted.as_ref().map(|(mm, t)| mm == &m && *t == tag).unwrap_or(false) && out.post == post;
                if ok {
                    None
                } else {
                    Some("roundtrip failed".into())
                }
            }
        },
    }
}

pub fn run() -> i32 {
    sodium::init();
    quiet_panics();
    let mut ctx = Ctx::new("C03", "model_checking");
    ctx.rule = "states: distinct (push state, pull state, in-flight queue<=2, last delivered, depth, rejected-flag) values reached by exhaustive search over the action alphabet {Push(mlen in {0,17} (and {0,1,17,64} in the wide-alphabet run at a smaller depth) x ad in {none,3B} x tag in 0..=3), RekeyBoth, RekeyPush, RekeyPull, Reinit (init_push / init_pull of a new key and header on the used State values, compared with libsodium's init), Deliver, Wrong(12 kinds)} from every initial state up to the depth bound; every transition executes the real dryoc classic + object API code and libsodium in lockstep; sweep: every (state class, mlen, adlen, tag byte) cell once, and every counter with bytes in {00,01,fe,ff} or of the form 2^k-1 / 2^k; a case is non-trivial when both dryoc and libsodium were executed on it".into();
    ctx.assume("libsodium 1.0.18 (libsodium-sys 0.2.7) is the reference for bytes, verdicts and state");
    ctx.assume("histories longer than the depth bound and payload values outside the stated alphabets are not covered");
    ctx.assume("raw stream states are installed through hook H1 (counter presets replace 2^32 real pushes)");

    let mut st0 = Stats::new();
    let mut inits = initial_states(ctx.seed);
    inits.extend(init_path_states(ctx.seed, &mut st0));
    ctx.absorb("init-path", st0);
    ctx.note("initial_states", json!(inits.iter().map(|x| x.0.clone()).collect::<Vec<_>>()));

    // quick: BFS (shortest counterexamples) at depth 4 from all initial states, cross-checked
    // single-threaded; thorough: iterate deeper bounds under DFS within a wall budget.
    let qdepth: u8 = 4;
    let (u16t, total, maxd, st) = run_model(&mut ctx, inits.clone(), qdepth, false, 16);
    let bfs_fail = st.fail_count;
    let st = if bfs_fail > 0 {
        // parallel BFS does not guarantee the shortest path: redo single-threaded so that the
        // reported counterexamples are the shortest ones
        let (_, _, _, st1) = run_model(&mut ctx, inits.clone(), qdepth, false, 1);
        if st1.fail_count > 0 { st1 } else { st }
    } else {
        st
    };
    let mut deepest_states = u16t as u64;
    ctx.note("bfs", json!({"depth_bound": qdepth, "unique_states": u16t, "states_generated": total, "max_depth": maxd, "threads": 16}));
    ctx.absorb("model-bfs", st);
    if bfs_fail == 0 {
        // engine determinism cross-check at a smaller bound
        let (a, _, _, s1) = run_model(&mut ctx, inits.clone(), qdepth - 1, false, 1);
        let (b, _, _, s2) = run_model(&mut ctx, inits.clone(), qdepth - 1, false, 16);
        ctx.note("engine_crosscheck", json!({"depth": qdepth - 1, "unique_states_1_thread": a, "unique_states_16_threads": b}));
        drop((s1, s2));
        if a != b {
            println!("MACHINERY-ERROR property=C03 stateright single- vs multi-thread state counts differ: {} vs {}", a, b);
            return 2;
        }
        let budget = ctx.tier.pick(25.0, 1500.0);
        let maxdepth = ctx.tier.pick(6u8, 8);
        let mut completed = qdepth;
        let mut last_secs = 1.0f64;
        for d in (qdepth + 1)..=maxdepth {
            let t = std::time::Instant::now();
            // predicted cost: branching ~6x per level
            if ctx.start.elapsed().as_secs_f64() + last_secs * 7.0 > budget && d > qdepth + 1 {
                ctx.cap(&format!("depth {} not attempted: predicted to exceed the {} s wall budget; deepest completed bound = {}", d, budget, completed));
                break;
            }
            let (u, tot, md, st) = run_model(&mut ctx, inits.clone(), d, true, 16);
            last_secs = t.elapsed().as_secs_f64();
            ctx.note(&format!("dfs_depth_{}", d), json!({"unique_states": u, "states_generated": tot, "max_depth": md, "wall_s": last_secs}));
            let f = st.fail_count;
            ctx.absorb(&format!("model-dfs-d{}", d), st);
            completed = d;
            deepest_states = u as u64;
            if f > 0 {
                break;
            }
        }
        ctx.note("deepest_completed_depth", json!(completed));
        // wide alphabet: message lengths {0, 1, 17, 64} (block-boundary and 1-byte messages too)
        let wd = ctx.tier.pick(4u8, 6);
        let t = std::time::Instant::now();
        let (u, tot, md, st) = run_model_lens(&mut ctx, inits.clone(), wd, true, 16, &[0, 1, 17, 64]);
        ctx.note("wide_alphabet", json!({"message_lengths": [0, 1, 17, 64], "depth_bound": wd, "unique_states": u, "states_generated": tot, "max_depth": md, "wall_s": t.elapsed().as_secs_f64()}));
        ctx.absorb(&format!("model-dfs-wide-d{}", wd), st);
    }
    ctx.total.sample(json!({"engine": "stateright", "example_history": ["Push{mlen:17,ad:true,tag:2}", "Wrong(Skip)", "Deliver", "Wrong(Replay)", "RekeyPull", "Deliver"]}));
    ctx.note(
        "witnesses",
        json!({"pushes": N_PUSH.load(Ordering::Relaxed), "accepted_deliveries": N_ACCEPT.load(Ordering::Relaxed),
               "rejected_deliveries": N_REJECT.load(Ordering::Relaxed), "counter_wrap_rekeys": N_WRAP.load(Ordering::Relaxed), "reinits_of_used_states": N_REINIT.load(Ordering::Relaxed),
               "rekey_tag_pushes": N_TAGREKEY.load(Ordering::Relaxed), "accept_after_reject": N_ACC_AFTER_REJ.load(Ordering::Relaxed)}),
    );
    if bfs_fail == 0 {
        for (n, c) in [("counter_wrap_rekeys", &N_WRAP), ("reinits_of_used_states", &N_REINIT), ("rekey_tag_pushes", &N_TAGREKEY), ("accept_after_reject", &N_ACC_AFTER_REJ), ("rejected", &N_REJECT), ("accepted", &N_ACCEPT)] {
            if c.load(Ordering::Relaxed) == 0 {
                println!("MACHINERY-ERROR property=C03 vacuity: witness {} never reached", n);
                return 2;
            }
        }
    }
    sweep(&mut ctx);
    // `states` = unique states of the deepest completed search (not the sum over the iterated
    // bounds); `transitions` = every real transition executed by all searches of this run
    ctx.total.states = deepest_states;
    ctx.finish()
}
