//! C11 — every randomised operation draws fresh randomness on every call: exhaustive bounded
//! call histories (singles, all ordered pairs interleaved) under an owned RNG and under OsRng.

use crate::core::*;
use crate::sodium;
use dryoc::classic::crypto_secretstream_xchacha20poly1305 as ss;
use dryoc::dryocbox::DryocBox;
use dryoc::dryocstream::DryocStream;
use dryoc::keypair::KeyPair;
use dryoc::pwhash::{Config, PwHash};
use dryoc::sign::SigningKeyPair;
use dryoc::types::*;
use serde_json::{json, Value};
use std::cell::Cell;
use std::panic::AssertUnwindSafe;
use std::rc::Rc;

type Entry = (&'static str, fn() -> Vec<u8>);

type SB<const N: usize> = StackByteArray<N>;

pub fn entries() -> Vec<Entry> {
    use dryoc::classic::*;
    let v: Vec<Entry> = vec![
        ("rng::randombytes_buf(32)", || dryoc::rng::randombytes_buf(32)),
        ("rng::randombytes_buf(8)", || dryoc::rng::randombytes_buf(8)),
        ("rng::copy_randombytes", || {
            let mut b = vec![0xC3u8; 32];
            dryoc::rng::copy_randombytes(&mut b);
            b
        }),
        ("crypto_secretbox_keygen", || crypto_secretbox::crypto_secretbox_keygen().to_vec()),
        ("crypto_secretbox_keygen_inplace", || {
            let mut k = [0xC3u8; 32];
            crypto_secretbox::crypto_secretbox_keygen_inplace(&mut k);
            k.to_vec()
        }),
        ("crypto_box_keypair", || {
            let (pk, sk) = crypto_box::crypto_box_keypair();
            [pk, sk].concat()
        }),
        ("crypto_box_keypair_inplace", || {
            let (mut pk, mut sk) = ([0xC3u8; 32], [0xC3u8; 32]);
            crypto_box::crypto_box_keypair_inplace(&mut pk, &mut sk);
            [pk, sk].concat()
        }),
        ("crypto_kx_keypair", || {
            let (pk, sk) = crypto_kx::crypto_kx_keypair();
            [pk, sk].concat()
        }),
        ("crypto_sign_keypair", || {
            let (pk, sk) = crypto_sign::crypto_sign_keypair();
            [&pk[..], &sk[..32]].concat()
        }),
        ("crypto_sign_keypair_inplace", || {
            let (mut pk, mut sk) = ([0u8; 32], [0u8; 64]);
            crypto_sign::crypto_sign_keypair_inplace(&mut pk, &mut sk);
            [&pk[..], &sk[..32]].concat()
        }),
        ("crypto_kdf_keygen", || crypto_kdf::crypto_kdf_keygen().to_vec()),
        ("crypto_auth_keygen", || crypto_auth::crypto_auth_keygen().to_vec()),
        ("crypto_onetimeauth_keygen", || crypto_onetimeauth::crypto_onetimeauth_keygen().to_vec()),
        ("crypto_generichash_keygen", || crypto_generichash::crypto_generichash_keygen().to_vec()),
        ("crypto_shorthash_keygen", || crypto_shorthash::crypto_shorthash_keygen().to_vec()),
        ("crypto_secretstream_keygen", || {
            let mut k = [0xC3u8; 32];
            ss::crypto_secretstream_xchacha20poly1305_keygen(&mut k);
            k.to_vec()
        }),
        ("crypto_box_seal(ephemeral pk)", || {
            let pk = sodium::scalarmult_base(&[7u8; 32]);
            let mut c = vec![0xC3u8; 48 + 3];
            crypto_box::crypto_box_seal(&mut c, b"abc", &pk).unwrap();
            c[..32].to_vec()
        }),
        ("DryocBox::seal(ephemeral pk)", || {
            let pk: SB<32> = sodium::scalarmult_base(&[7u8; 32]).into();
            let b: DryocBox<SB<32>, SB<16>, Vec<u8>> = DryocBox::seal(b"abc", &pk).unwrap();
            b.to_vec()[..32].to_vec()
        }),
        ("DryocBox::seal(empty message; ephemeral pk)", || {
            let pk: SB<32> = sodium::scalarmult_base(&[7u8; 32]).into();
            let b: DryocBox<SB<32>, SB<16>, Vec<u8>> = DryocBox::seal(b"", &pk).unwrap();
            b.to_vec()[..32].to_vec()
        }),
        ("DryocBox::seal(1-byte message; ephemeral pk)", || {
            let pk: SB<32> = sodium::scalarmult_base(&[7u8; 32]).into();
            let b: DryocBox<SB<32>, SB<16>, Vec<u8>> = DryocBox::seal(b"x", &pk).unwrap();
            b.to_vec()[..32].to_vec()
        }),
        ("crypto_box_seal(empty message; ephemeral pk)", || {
            let pk = sodium::scalarmult_base(&[7u8; 32]);
            let mut c = vec![0xC3u8; 48];
            crypto_box::crypto_box_seal(&mut c, b"", &pk).unwrap();
            c[..32].to_vec()
        }),
        ("DryocBox::seal_to_vecbox(ephemeral pk)", || {
            let pk: SB<32> = sodium::scalarmult_base(&[7u8; 32]).into();
            DryocBox::seal_to_vecbox(b"abc", &pk).unwrap().to_vec()[..32].to_vec()
        }),
        ("secretstream init_push(header)", || {
            let mut st = ss::State::new();
            let mut h = [0xC3u8; 24];
            ss::crypto_secretstream_xchacha20poly1305_init_push(&mut st, &mut h, &[3u8; 32]);
            h.to_vec()
        }),
        ("DryocStream::init_push(header)", || {
            let (_s, h): (_, SB<24>) = DryocStream::init_push(&SB::<32>::from(&[3u8; 32]));
            h.to_vec()
        }),
        ("DryocStream::init_push(Vec header)", || {
            let (_s, h): (_, Vec<u8>) = DryocStream::init_push(&[3u8; 32]);
            h
        }),
        ("crypto_pwhash_str(salt)", || {
            let s = crypto_pwhash::crypto_pwhash_str(b"pw", 1, 8192).unwrap();
            crate::c10::parse(&s).map(|p| p.salt).unwrap_or_default()
        }),
        ("PwHash::hash(salt)", || {
            let h: PwHash<Vec<u8>, Vec<u8>> = PwHash::hash(&b"pw".to_vec(), Config::interactive().with_opslimit(1).with_memlimit(8192)).unwrap();
            h.into_parts().1
        }),
        ("PwHash::hash(salt 8)", || {
            let h: PwHash<Vec<u8>, Vec<u8>> = PwHash::hash(&b"pw".to_vec(), Config::interactive().with_opslimit(1).with_memlimit(8192).with_salt_length(8)).unwrap();
            h.into_parts().1
        }),
        ("[u8;32]::gen", || <[u8; 32] as NewByteArray<32>>::gen().to_vec()),
        ("[u8;24]::gen", || <[u8; 24] as NewByteArray<24>>::gen().to_vec()),
        ("StackByteArray<32>::gen", || SB::<32>::gen().to_vec()),
        ("StackByteArray<24>::gen (nonce)", || SB::<24>::gen().to_vec()),
        ("StackByteArray<16>::gen", || SB::<16>::gen().to_vec()),
        ("StackByteArray<8>::gen (kdf context)", || SB::<8>::gen().to_vec()),
        ("Vec<u8>::gen (NewByteArray<32>)", || <Vec<u8> as NewByteArray<32>>::gen()),
        ("KeyPair::gen", || {
            let k: KeyPair<SB<32>, SB<32>> = KeyPair::gen();
            [k.public_key.as_slice(), k.secret_key.as_slice()].concat()
        }),
        ("KeyPair::gen_with_defaults", || {
            let k = KeyPair::gen_with_defaults();
            [k.public_key.as_slice(), k.secret_key.as_slice()].concat()
        }),
        ("KeyPair<Vec,Vec>::gen", || {
            let k: KeyPair<Vec<u8>, Vec<u8>> = KeyPair::gen();
            [k.public_key.as_slice(), k.secret_key.as_slice()].concat()
        }),
        ("SigningKeyPair::gen", || {
            let k: SigningKeyPair<SB<32>, SB<64>> = SigningKeyPair::gen();
            [k.public_key.as_slice(), &k.secret_key.as_slice()[..32]].concat()
        }),
        ("SigningKeyPair::gen_with_defaults", || {
            let k = SigningKeyPair::gen_with_defaults();
            [k.public_key.as_slice(), &k.secret_key.as_slice()[..32]].concat()
        }),
        ("StackByteArray<300>::gen", || SB::<300>::gen().to_vec()),
        ("[u8;777]::gen", || <[u8; 777] as NewByteArray<777>>::gen().to_vec()),
        ("Vec<u8>::gen (NewByteArray<1025>)", || <Vec<u8> as NewByteArray<1025>>::gen()),
        ("PwHash::hash(salt 300)", || {
            let h: PwHash<Vec<u8>, Vec<u8>> = PwHash::hash(&b"pw".to_vec(), Config::interactive().with_opslimit(1).with_memlimit(8192).with_salt_length(300)).unwrap();
            h.into_parts().1
        }),
        ("Kdf::gen(key)", || {
            let k: dryoc::kdf::Kdf<SB<32>, SB<8>> = dryoc::kdf::Kdf::gen();
            k.into_parts().0.to_vec()
        }),
        ("Kdf::gen(context)", || {
            let k: dryoc::kdf::Kdf<SB<32>, SB<8>> = dryoc::kdf::Kdf::gen();
            k.into_parts().1.to_vec()
        }),
        ("Kdf::gen_with_defaults(key||context)", || {
            let k = dryoc::kdf::Kdf::gen_with_defaults();
            let (a, b) = k.into_parts();
            [a.as_slice(), b.as_slice()].concat()
        }),
    ];
    #[allow(unused_mut)]
    let mut v = v;
    #[cfg(feature = "nightly")]
    v.extend(nightly_entries());
    v
}

/// randomised entry points that only exist with protected memory (nightly build)
#[cfg(feature = "nightly")]
fn nightly_entries() -> Vec<Entry> {
    use dryoc::protected::*;
    type HA<const N: usize> = HeapByteArray<N>;
    vec![
        ("HeapByteArray<32>::gen", || HA::<32>::gen().as_slice().to_vec()),
        ("HeapByteArray<32>::gen_locked", || HA::<32>::gen_locked().unwrap().as_slice().to_vec()),
        ("HeapByteArray<32>::gen_readonly_locked", || HA::<32>::gen_readonly_locked().unwrap().as_slice().to_vec()),
        ("HeapByteArray<24>::gen_locked (nonce)", || HA::<24>::gen_locked().unwrap().as_slice().to_vec()),
        ("Locked<HeapByteArray<32>>::gen (NewByteArray)", || <Locked<HA<32>> as NewByteArray<32>>::gen().as_slice().to_vec()),
        ("KeyPair::gen_locked_keypair", || {
            let k = KeyPair::<Locked<HA<32>>, Locked<HA<32>>>::gen_locked_keypair().unwrap();
            [k.public_key.as_slice(), k.secret_key.as_slice()].concat()
        }),
        ("KeyPair::gen_readonly_locked_keypair", || {
            let k = KeyPair::<LockedRO<HA<32>>, LockedRO<HA<32>>>::gen_readonly_locked_keypair().unwrap();
            [k.public_key.as_slice(), k.secret_key.as_slice()].concat()
        }),
        ("KeyPair<Heap,Heap>::gen", || {
            let k: KeyPair<HA<32>, HA<32>> = KeyPair::gen();
            [k.public_key.as_slice(), k.secret_key.as_slice()].concat()
        }),
        ("SigningKeyPair::gen_locked_keypair", || {
            let k = SigningKeyPair::<Locked<HA<32>>, Locked<HA<64>>>::gen_locked_keypair().unwrap();
            [k.public_key.as_slice(), &k.secret_key.as_slice()[..32]].concat()
        }),
        ("SigningKeyPair::gen_readonly_locked_keypair", || {
            let k = SigningKeyPair::<LockedRO<HA<32>>, LockedRO<HA<64>>>::gen_readonly_locked_keypair().unwrap();
            [k.public_key.as_slice(), &k.secret_key.as_slice()[..32]].concat()
        }),
        ("LockedKdf::gen(key||context)", || {
            let k: dryoc::kdf::protected::LockedKdf = dryoc::kdf::Kdf::gen();
            let (a, b) = k.into_parts();
            [a.as_slice(), b.as_slice()].concat()
        }),
        ("LockedPwHash::hash(salt)", || {
            let h: dryoc::pwhash::protected::LockedPwHash = PwHash::hash(&b"pw".to_vec(), Config::interactive().with_opslimit(1).with_memlimit(8192)).unwrap();
            h.into_parts().1.as_slice().to_vec()
        }),
        ("DryocStream::init_push(Locked header)", || {
            let (_s, h): (_, Locked<HA<24>>) = DryocStream::init_push(&[3u8; 32]);
            h.as_slice().to_vec()
        }),
        ("DryocBox::seal[locked](ephemeral pk)", || {
            let pk = sodium::scalarmult_base(&[7u8; 32]);
            let b: dryoc::dryocbox::protected::LockedBox = DryocBox::seal(b"abc", &pk).unwrap();
            b.to_vec()[..32].to_vec()
        }),
    ]
}

/// expected number of non-test call sites per file (copy_randombytes( | randombytes_buf( | ::gen())
const SITE_TABLE: &[(&str, usize)] = &[
    ("src/rng.rs", 2),
    ("src/classic/crypto_shorthash.rs", 1),
    ("src/classic/crypto_onetimeauth.rs", 1),
    ("src/classic/crypto_generichash.rs", 1),
    ("src/classic/crypto_secretbox.rs", 2),
    ("src/classic/crypto_secretstream_xchacha20poly1305.rs", 2),
    ("src/classic/crypto_sign_ed25519.rs", 1),
    ("src/classic/crypto_kx.rs", 1),
    ("src/classic/crypto_kdf.rs", 1),
    ("src/classic/crypto_auth.rs", 1),
    ("src/classic/crypto_box_impl.rs", 1),
    ("src/classic/crypto_pwhash.rs", 1),
    ("src/keypair.rs", 1),
    ("src/types.rs", 3),
    ("src/sign.rs", 1),
    ("src/protected.rs", 3),
    ("src/kdf.rs", 4),
    ("src/pwhash.rs", 1),
];

fn scan_sites() -> Vec<String> {
    fn walk(dir: &std::path::Path, out: &mut Vec<std::path::PathBuf>) {
        if let Ok(rd) = std::fs::read_dir(dir) {
            for e in rd.flatten() {
                let p = e.path();
                if p.is_dir() {
                    walk(&p, out);
                } else if p.extension().map(|x| x == "rs").unwrap_or(false) {
                    out.push(p);
                }
            }
        }
    }
    let mut files = vec![];
    walk(std::path::Path::new("/repo/src"), &mut files);
    files.sort();
    let mut unmapped = vec![];
    for f in files {
        let Ok(text) = std::fs::read_to_string(&f) else { continue };
        let body = text.split("mod tests {").next().unwrap_or("");
        let n = body.lines().filter(|l| !l.trim_start().starts_with("//")).filter(|l| l.contains("copy_randombytes(") || l.contains("randombytes_buf(") || l.contains("::gen()")).count();
        let rel = f.strip_prefix("/repo/").unwrap().to_string_lossy().to_string();
        let want = SITE_TABLE.iter().find(|(p, _)| *p == rel).map(|(_, n)| *n).unwrap_or(0);
        if n != want {
            unmapped.push(format!("{}: {} randomness call site(s), inventory expects {}", rel, n, want));
        }
    }
    unmapped
}

fn install_seam(seed: u64) -> Rc<Cell<u64>> {
    let ctr = Rc::new(Cell::new(0u64));
    let c2 = ctr.clone();
    dryoc::rng::verif::set_source(Some(Box::new(move |d: &mut [u8]| {
        let n = c2.get() + 1;
        c2.set(n);
        let b = prand(seed ^ 0x5eed, "c11-stream", n, d.len().max(1));
        d.copy_from_slice(&b[..d.len()]);
        if !d.is_empty() && d.iter().all(|x| *x == 0) {
            d[0] = 1;
        }
    })));
    ctr
}

/// judge the values one entry point returned within one history
fn judge(vals: &[Vec<u8>], strict: bool) -> Option<(&'static str, String)> {
    if vals.iter().any(|v| v.is_empty()) {
        return Some(("empty", "returned an empty value".into()));
    }
    let len = vals[0].len();
    if strict || len >= 16 {
        for i in 0..vals.len() {
            if vals[i].iter().all(|b| *b == 0) {
                return Some(("all-zero", format!("call {} returned an all-zero value", i + 1)));
            }
            for j in 0..i {
                if vals[i] == vals[j] {
                    return Some(("repeat", format!("calls {} and {} returned the same value {}", j + 1, i + 1, short(&vals[i]))));
                }
            }
        }
    }
    // independence inside one value (owned-rng histories only, so the verdict is a fixed
    // function of the seed): a value assembled from several fields (key || context, ...) must
    // not contain the same 8 random bytes twice at non-overlapping offsets
    if strict {
        for (ci, v) in vals.iter().enumerate() {
            if v.len() < 24 {
                continue;
            }
            let mut first: std::collections::HashMap<[u8; 8], usize> = std::collections::HashMap::new();
            for i in 0..=v.len() - 8 {
                let w: [u8; 8] = v[i..i + 8].try_into().unwrap();
                match first.get(&w) {
                    Some(&j) if i >= j + 8 => {
                        return Some(("reused-bytes", format!("call {}: bytes {}..{} of the returned value repeat bytes {}..{} ({})", ci + 1, i, i + 8, j, j + 8, hx(&w))));
                    }
                    Some(_) => {}
                    None => {
                        first.insert(w, i);
                    }
                }
            }
        }
    }
    if vals.len() >= 64 && vals.iter().all(|v| v.len() == len) {
        for pos in 0..len {
            if vals.iter().all(|v| v[pos] == vals[0][pos]) {
                return Some(("constant-byte", format!("byte position {} is constant ({:#04x}) across {} calls", pos, vals[0][pos], vals.len())));
            }
        }
    }
    None
}

fn run_history(es: &[Entry], order: &[usize], seam: Option<u64>) -> Result<Vec<Vec<Vec<u8>>>, String> {
    let _ctr = seam.map(install_seam);
    let r = guarded(AssertUnwindSafe(|| {
        let mut per: Vec<Vec<Vec<u8>>> = vec![vec![]; es.len()];
        for &i in order {
            per[i].push((es[i].1)());
        }
        per
    }));
    dryoc::rng::verif::set_source(None);
    r
}

pub fn replay(case: &Value) -> Option<String> {
    let es = entries();
    let order: Vec<usize> = case["order"].as_array()?.iter().map(|n| es.iter().position(|e| e.0 == n.as_str().unwrap()).unwrap()).collect();
    let seam = case["seam"].as_u64();
    match run_history(&es, &order, seam) {
        Err(p) => Some(format!("panic: {}", p)),
        Ok(per) => {
            for (i, vals) in per.iter().enumerate() {
                if !vals.is_empty() {
                    if let Some((c, d)) = judge(vals, seam.is_some()) {
                        return Some(format!("{} {}: {}", es[i].0, c, d));
                    }
                }
            }
            None
        }
    }
}

pub fn run() -> i32 {
    sodium::init();
    quiet_panics();
    let mut ctx = Ctx::new("C11", "exploration");
    let seed = ctx.seed;
    let n = ctx.tier.pick(64usize, 512);
    let es = entries();
    ctx.rule = format!("bounded exhaustive call histories over the inventory of {} randomised entry points: every entry point alone x {} calls; every ordered pair (a,b) interleaved a,b,a,b,a,b; every triple through the hub copy_randombytes; a size sweep of randombytes_buf(n) and copy_randombytes(n) for every n up to 1100 (4200 thorough) x 64 calls; every entry point on 4 concurrent fresh threads (values must not repeat across threads); each history under (i) an owned deterministic RNG (seam H3: distinct, never-zero stream per request) and (ii) the production OsRng; oracle on the returned values, plus (owned RNG) every call requests at least min(len(output), 32) bytes from the generator: within a history no value of an entry point repeats, none is all-zero, no byte position is constant across >= 64 calls, and (owned-rng histories) no returned value contains the same 8 bytes twice at non-overlapping offsets (fields of one value must come from disjoint draws; coincidence probability < 2^-40 per run, and the verdict is a fixed function of the seed); non-trivial = history executed; the source tree is scanned for randomness call sites not covered by the inventory (reported, not alarmed)", es.len(), n);
    ctx.assume("statistical quality of the OS generator is not examined; under OsRng distinctness is asserted only for values >= 16 bytes (false-alarm probability < 2^-100)");

    let unmapped = scan_sites();
    if !unmapped.is_empty() {
        eprintln!("[C11] WARNING randomness call sites differ from the inventory: {:?}", unmapped);
    }
    ctx.note("unmapped_sites", json!(unmapped));
    ctx.note("inventory", json!(es.iter().map(|e| e.0).collect::<Vec<_>>()));

    // histories: (label, order)
    let mut hist: Vec<(String, Vec<usize>)> = vec![];
    for i in 0..es.len() {
        hist.push((format!("single:{}", es[i].0), vec![i; n]));
    }
    // locked-container entry points cost several mlock calls each: they are paired with the hub
    // and with each other, not with all of the others
    let slow = |i: usize| es[i].0.contains("ocked");
    for a in 0..es.len() {
        for b in 0..es.len() {
            if a != b && (!(slow(a) || slow(b)) || (slow(a) && slow(b)) || a == 2 || b == 2) {
                hist.push((format!("pair:{}|{}", es[a].0, es[b].0), vec![a, b, a, b, a, b]));
            }
        }
    }
    let hub = 2usize; // copy_randombytes
    for a in 0..es.len() {
        for b in 0..es.len() {
            if a != b && a != hub && b != hub && (a + b) % 5 == 0 {
                hist.push((format!("triple:{}|hub|{}", es[a].0, es[b].0), vec![a, hub, b, a, hub, b]));
            }
        }
    }
    let units: Vec<(usize, bool)> = (0..hist.len()).flat_map(|h| [(h, true), (h, false)]).collect();
    let st = par_units(&units, |&(hi, seam), st| {
        let es = entries();
        let (label, order) = &hist[hi];
        let r = run_history(&es, order, if seam { Some(seed) } else { None });
        let env = if seam { "owned-rng" } else { "os-rng" };
        match r {
            Err(p) => {
                st.eval(&(hi, seam), true, "panic");
                st.fail(Fail { check: "C11.rng".into(), signature: format!("C11/panic/{}", label.split(':').nth(1).unwrap_or("")), what: format!("history {} panicked: {}", label, p), case: json!({"order": order.iter().map(|i| es[*i].0).collect::<Vec<_>>(), "seam": if seam { Some(seed) } else { None }}) });
            }
            Ok(per) => {
                let mut bad = false;
                for (i, vals) in per.iter().enumerate() {
                    if vals.is_empty() {
                        continue;
                    }
                    if let Some((class, d)) = judge(vals, seam) {
                        bad = true;
                        st.fail(Fail {
                            check: "C11.rng".into(),
                            signature: format!("C11/{}/{}", class, es[i].0),
                            what: format!("{} ({}; history {}): {}", es[i].0, env, label, d),
                            case: json!({"order": order.iter().map(|i| es[*i].0).collect::<Vec<_>>(), "seam": if seam { Some(seed) } else { None }}),
                        });
                    }
                }
                st.eval(&(hi, seam), true, if bad { "stale-randomness" } else if seam { "fresh(owned-rng)" } else { "fresh(os-rng)" });
            }
        }
        if hi == 22 && seam {
            st.sample(json!({"history": label, "calls": order.len(), "environment": env}));
        }
        if hi == es.len() + 5 && seam {
            st.sample(json!({"history": label, "calls": order.len(), "environment": env}));
        }
    });
    ctx.note("histories", json!({"singles": es.len(), "ordered_pairs": es.len() * (es.len() - 1), "total": hist.len(), "environments": 2}));
    ctx.absorb("histories", st);
    // randomness actually drawn: under the owned RNG every call must request at least
    // min(len(output), 32) bytes from the generator while it runs (an entry point that expands a
    // few drawn bytes into a full-looking key passes every distinctness test on its outputs)
    {
        let mut st = Stats::new();
        for (i, e) in es.iter().enumerate() {
            let drawn = Rc::new(Cell::new(0u64));
            let d2 = drawn.clone();
            let mut n = 0u64;
            dryoc::rng::verif::set_source(Some(Box::new(move |d: &mut [u8]| {
                n += 1;
                d2.set(d2.get() + d.len() as u64);
                let b = prand(seed ^ 0xd4a3, "c11-drawn", n, d.len().max(1));
                d.copy_from_slice(&b[..d.len()]);
            })));
            let mut worst: Option<(u64, usize)> = None;
            let r = guarded(AssertUnwindSafe(|| {
                for _ in 0..3 {
                    let before = drawn.get();
                    let out = (e.1)();
                    let got = drawn.get() - before;
                    if got < out.len().min(32) as u64 && worst.is_none() {
                        worst = Some((got, out.len()));
                    }
                }
            }));
            dryoc::rng::verif::set_source(None);
            let bad = r.is_err() || worst.is_some();
            st.eval(&("drawn", i), true, if bad { "draws-too-little" } else { "draws-enough" });
            if let Some((got, len)) = worst {
                st.fail(Fail { check: "C11.rng".into(), signature: format!("C11/draws-too-little/{}", e.0), what: format!("{}: one call requested {} random byte(s) from the generator for a {}-byte random output", e.0, got, len), case: json!({"order": [e.0], "seam": seed}) });
            }
        }
        ctx.absorb("randomness-drawn", st);
    }
    // salt lengths a configuration may or may not accept (0..=24): whenever PwHash::hash returns a
    // salt, all of it was drawn (no constant position over 64 calls, not all-zero, no repeat)
    {
        let mut st = Stats::new();
        for n in 0usize..=24 {
            let r = guarded(AssertUnwindSafe(|| {
                let mut vals: Vec<Vec<u8>> = vec![];
                for _ in 0..64 {
                    let h: Result<PwHash<Vec<u8>, Vec<u8>>, _> = PwHash::hash(&b"pw".to_vec(), Config::interactive().with_opslimit(1).with_memlimit(8192).with_salt_length(n));
                    if let Ok(h) = h {
                        vals.push(h.into_parts().1);
                    }
                }
                vals
            }));
            let bad = match &r {
                Err(p) => Some(("panic", p.clone())),
                Ok(vals) if vals.is_empty() => None,
                Ok(vals) if vals.len() < 64 => Some(("sometimes-refuses", format!("{} of 64 calls returned a salt", vals.len()))),
                Ok(vals) => judge(vals, false).map(|(c, d)| (c, d)),
            };
            st.eval(&("salt-length", n), true, match (&r, &bad) {
                (Ok(v), None) if v.is_empty() => "salt-length-refused",
                (_, None) => "salt-fresh",
                _ => "salt-not-fresh",
            });
            if let Some((class, detail)) = bad {
                st.fail(Fail { check: "C11.harness".into(), signature: format!("C11/{}/PwHash::hash(salt_length)", class), what: format!("PwHash::hash under a Config with salt_length {}: {}", n, detail), case: json!({"order": ["PwHash::hash(salt)"], "seam": Value::Null, "note": format!("salt_length {}; re-run bin/check C11", n)}) });
            }
        }
        ctx.absorb("salt-lengths", st);
    }
    // environment answer "short read": while this section runs, libc's getrandom() (interposed
    // below) hands out at most 64 bytes per call, as the kernel may for large or interrupted
    // requests. A caller that takes the first return value for "done" leaves a constant tail.
    {
        let mut st = Stats::new();
        GETRANDOM_CAP.store(64, std::sync::atomic::Ordering::SeqCst);
        for n in [65usize, 128, 256, 257, 1000, 4097] {
            let r = guarded(AssertUnwindSafe(|| {
                let mut vals: Vec<Vec<u8>> = vec![];
                for _ in 0..8 {
                    vals.push(dryoc::rng::randombytes_buf(n));
                    let mut b = vec![0u8; n];
                    dryoc::rng::copy_randombytes(&mut b);
                    vals.push(b);
                }
                vals
            }));
            let bad = match &r {
                Err(p) => Some(format!("panicked: {}", p)),
                Ok(vals) => {
                    let tail_zero = vals.iter().any(|v| v[v.len() - 16..].iter().all(|b| *b == 0));
                    let tail_const = (n - 16..n).any(|pos| vals.iter().all(|v| v[pos] == vals[0][pos]));
                    if tail_zero || tail_const {
                        Some("the tail of the value was not filled (all-zero / constant across calls)".to_string())
                    } else {
                        None
                    }
                }
            };
            st.eval(&("short-read", n), true, if bad.is_none() { "fresh-under-short-reads" } else { "unfilled-under-short-reads" });
            if let Some(b) = bad {
                st.fail(Fail { check: "C11.harness".into(), signature: "C11/short-read/randombytes".into(), what: format!("randombytes of {} bytes while getrandom() returns at most 64 bytes per call: {}", n, b), case: json!({"order": ["rng::copy_randombytes"], "seam": Value::Null, "note": "short-read environment; re-run bin/check C11"}) });
            }
        }
        GETRANDOM_CAP.store(0, std::sync::atomic::Ordering::SeqCst);
        ctx.absorb("short-kernel-reads", st);
    }
    // several threads: the k-th value drawn on one thread must not reappear on another (a
    // generator whose state is partly global and partly per-thread repeats across threads while
    // every single thread looks healthy). 4 fresh threads x every entry point x 24 calls, OS RNG.
    {
        let es_n = es.len();
        let handles: Vec<std::thread::JoinHandle<Result<Vec<Vec<Vec<u8>>>, String>>> = (0..4)
            .map(|_| {
                std::thread::spawn(move || {
                    let es = entries();
                    let order: Vec<usize> = (0..es.len()).flat_map(|i| std::iter::repeat(i).take(if es[i].0.contains("ocked") { 2 } else { 24 })).collect();
                    run_history(&es, &order, None)
                })
            })
            .collect();
        let per_thread: Vec<Result<Vec<Vec<Vec<u8>>>, String>> = handles.into_iter().map(|h| h.join().unwrap_or_else(|_| Err("thread died".into()))).collect();
        let mut st = Stats::new();
        for i in 0..es_n {
            let mut seen: std::collections::HashMap<Vec<u8>, usize> = std::collections::HashMap::new();
            let mut bad: Option<String> = None;
            for (ti, r) in per_thread.iter().enumerate() {
                match r {
                    Err(p) => bad = Some(format!("thread {} panicked: {}", ti, p)),
                    Ok(per) => {
                        for v in &per[i] {
                            if v.len() < 16 {
                                continue;
                            }
                            if let Some(&t0) = seen.get(v) {
                                if t0 != ti {
                                    bad = Some(format!("threads {} and {} were both handed the value {}", t0, ti, short(v)));
                                }
                            } else {
                                seen.insert(v.clone(), ti);
                            }
                        }
                    }
                }
            }
            st.eval(&("threads", i), true, if bad.is_none() { "fresh-across-threads" } else { "repeats-across-threads" });
            if let Some(b) = bad {
                st.fail(Fail { check: "C11.rng".into(), signature: format!("C11/repeat-across-threads/{}", es[i].0), what: format!("{}: {}", es[i].0, b), case: json!({"order": [es[i].0], "seam": Value::Null, "note": "four threads; re-run bin/check C11"}) });
            }
        }
        ctx.absorb("across-threads", st);
    }
    // size sweep: the byte-array generators for EVERY request size (a chunked or buffered
    // generator can leave a tail, a head or a stride unfilled only for some sizes)
    let top = ctx.tier.pick(1100usize, 4200);
    let calls = 64usize;
    let units: Vec<(usize, bool)> = (1..=top).flat_map(|n| [(n, true), (n, false)]).collect();
    let st = par_units(&units, |&(n, seam), st| {
        let _ctr = if seam { Some(install_seam(seed ^ n as u64)) } else { None };
        let r = guarded(AssertUnwindSafe(|| {
            let mut a: Vec<Vec<u8>> = vec![];
            let mut b: Vec<Vec<u8>> = vec![];
            for _ in 0..calls {
                a.push(dryoc::rng::randombytes_buf(n));
                let mut buf = vec![0u8; n];
                dryoc::rng::copy_randombytes(&mut buf);
                b.push(buf);
            }
            (a, b)
        }));
        dryoc::rng::verif::set_source(None);
        let env = if seam { "owned-rng" } else { "os-rng" };
        match r {
            Err(p) => {
                st.eval(&("size", n, seam), true, "panic");
                st.fail(Fail { check: "C11.rng".into(), signature: "C11/panic/size-sweep".into(), what: format!("randombytes of {} bytes panicked: {}", n, p), case: json!({"size": n, "seam": if seam { Some(seed) } else { None }}) });
            }
            Ok((a, b)) => {
                let mut bad = false;
                for (name, vals) in [("rng::randombytes_buf", &a), ("rng::copy_randombytes", &b)] {
                    // for 1-3 byte requests repeats are expected; only constancy is judged
                    let strict = seam && n >= 8;
                    let v: Vec<Vec<u8>> = if n >= 8 || !seam { vals.clone() } else { vals.clone() };
                    let verdict = if n >= 4 { judge(&v, strict) } else { None };
                    if let Some((class, d)) = verdict {
                        bad = true;
                        let sc = if n <= 64 { "len<=64" } else if n % 256 == 0 { "len=k*256" } else { "len>64" };
                        st.fail(Fail { check: "C11.rng".into(), signature: format!("C11/{}/{}/size-sweep/{}", class, name, sc), what: format!("{}({} bytes) ({}): {}", name, n, env, d), case: json!({"size": n, "seam": if seam { Some(seed) } else { None }}) });
                    }
                }
                st.eval(&("size", n, seam), true, if bad { "stale-randomness" } else if seam { "fresh(owned-rng)" } else { "fresh(os-rng)" });
            }
        }
        if n == 300 && seam {
            st.sample(json!({"size_sweep": "randombytes_buf(n) and copy_randombytes(n)", "n": n, "calls": calls, "environment": env}));
        }
    });
    ctx.note("size_sweep", json!({"sizes": format!("1..={}", top), "calls_per_size": calls, "functions": ["randombytes_buf", "copy_randombytes"], "environments": 2}));
    ctx.absorb("size-sweep", st);
    ctx.require_outcome("fresh(owned-rng)");
    ctx.require_outcome("fresh(os-rng)");
    ctx.finish()
}


/// libc's getrandom(), interposed for the whole harness binary: passes straight through to the
/// system call unless a cap is armed, in which case every call is a short read of at most
/// that many bytes.
pub static GETRANDOM_CAP: std::sync::atomic::AtomicUsize = std::sync::atomic::AtomicUsize::new(0);

#[no_mangle]
pub unsafe extern "C" fn getrandom(buf: *mut libc::c_void, len: libc::size_t, flags: libc::c_uint) -> libc::ssize_t {
    let cap = GETRANDOM_CAP.load(std::sync::atomic::Ordering::SeqCst);
    let n = if cap > 0 { len.min(cap) } else { len };
    libc::syscall(libc::SYS_getrandom, buf, n, flags) as libc::ssize_t
}
