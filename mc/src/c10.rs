//! C10 — password-hash strings are self-describing and interoperate with libsodium (E-prod).

use crate::core::*;
use crate::sodium;
use base64::Engine;
use dryoc::classic::crypto_pwhash::*;
use dryoc::pwhash::{Config, PwHash};
use serde_json::{json, Value};
use std::panic::AssertUnwindSafe;

#[derive(Debug, Clone, PartialEq)]
pub struct Parsed {
    pub alg: String,
    pub v: u32,
    pub m: u32,
    pub t: u32,
    pub p: u32,
    pub salt: Vec<u8>,
    pub hash: Vec<u8>,
}

/// independent strict parser of the PHC string format used by libsodium
pub fn parse(s: &str) -> Option<Parsed> {
    let parts: Vec<&str> = s.split('$').collect();
    if parts.len() != 6 || !parts[0].is_empty() {
        return None;
    }
    let v = parts[2].strip_prefix("v=")?.parse().ok()?;
    let mut m = None;
    let mut t = None;
    let mut p = None;
    let kv: Vec<&str> = parts[3].split(',').collect();
    if kv.len() != 3 {
        return None;
    }
    m = kv[0].strip_prefix("m=").and_then(|x| x.parse().ok()).or(m);
    t = kv[1].strip_prefix("t=").and_then(|x| x.parse().ok()).or(t);
    p = kv[2].strip_prefix("p=").and_then(|x| x.parse().ok()).or(p);
    let e = base64::engine::general_purpose::STANDARD_NO_PAD;
    Some(Parsed { alg: parts[1].to_string(), v, m: m?, t: t?, p: p?, salt: e.decode(parts[4]).ok()?, hash: e.decode(parts[5]).ok()? })
}

fn passwords(seed: u64) -> Vec<Vec<u8>> {
    vec![vec![], vec![b'x'], cval(seed, 3, 8), cval(seed, 2, 64), cval(seed, 3, 128), vec![0xff, 0xfe, 0x00, 0x80, 0xc3, 0x28]]
}

fn with_salt<T>(salt: Vec<u8>, f: impl FnOnce() -> T) -> T {
    dryoc::rng::verif::set_source(Some(Box::new(move |d: &mut [u8]| {
        for (i, b) in d.iter_mut().enumerate() {
            *b = salt[i % salt.len()];
        }
    })));
    let r = f();
    dryoc::rng::verif::set_source(None);
    r
}

fn fail(st: &mut Stats, sec: &str, class: &str, what: String, case: Value) {
    st.fail(Fail { check: "C10.str".into(), signature: format!("C10/{}/{}", sec, class), what, case });
}

/// (a): dryoc-made string under a pinned salt
fn check_a(pw: &[u8], ops: u64, mem: usize, salt: &[u8; 16]) -> Option<(String, String)> {
    let r = guarded(AssertUnwindSafe(|| with_salt(salt.to_vec(), || crypto_pwhash_str(pw, ops, mem))));
    let s = match r {
        Err(p) => return Some(("panic".into(), p)),
        Ok(Err(e)) => return Some(("error".into(), format!("{:?}", e))),
        Ok(Ok(s)) => s,
    };
    let Some(p) = parse(&s) else { return Some(("unparseable".into(), format!("string '{}' does not follow the PHC layout", s))) };
    if p.alg != "argon2id" || p.v != 19 || p.p != 1 || p.t as u64 != ops || p.m as usize != mem / 1024 {
        return Some(("fields-wrong".into(), format!("string '{}' does not encode alg/version/costs actually used (ops {}, mem {})", s, ops, mem)));
    }
    // (whether the salt is freshly drawn is C11's subject; here the string must describe the
    // salt that was actually used, which the hash comparison below decides)
    if p.salt.len() != 16 {
        return Some(("fields-wrong".into(), format!("salt field has {} bytes", p.salt.len())));
    }
    let _ = salt;
    let (_, want, _) = sodium::argon2_raw(p.t, p.m, pw, &p.salt, 32, 2, false);
    if p.hash != want {
        return Some(("hash-wrong".into(), format!("hash field {} != argon2id(pw, encoded salt, t, m) = {}", hx(&p.hash), hx(&want))));
    }
    if !sodium::pwhash_str_verify(&s, pw) {
        return Some(("sodium-rejects".into(), format!("libsodium rejects dryoc's string '{}' for the right password", s)));
    }
    let mut wrong = pw.to_vec();
    wrong.push(b'!');
    if sodium::pwhash_str_verify(&s, &wrong) {
        return Some(("sodium-accepts-wrong".into(), "libsodium accepts a wrong password".into()));
    }
    if crypto_pwhash_str_verify(&s, pw).is_err() || crypto_pwhash_str_verify(&s, &wrong).is_ok() {
        return Some(("self-verify".into(), "dryoc's own verifier disagrees on its own string".into()));
    }
    None
}

/// (b): libsodium-made string under dryoc
fn check_b(pw: &[u8], ops: u64, mem: usize) -> Option<(String, String)> {
    let s = sodium::pwhash_str(pw, ops, mem)?;
    let mut wrong = pw.to_vec();
    wrong.push(b'!');
    let r = guarded(AssertUnwindSafe(|| {
        let a = crypto_pwhash_str_verify(&s, pw).is_ok();
        let b = crypto_pwhash_str_verify(&s, &wrong).is_ok();
        let o: PwHash<Vec<u8>, Vec<u8>> = PwHash::from_string(&s).unwrap();
        let c = o.verify(&pw.to_vec()).is_ok();
        let d = o.verify(&wrong).is_ok();
        let e = o.to_string() == s;
        (a, b, c, d, e)
    }));
    match r {
        Err(p) => Some(("panic".into(), p)),
        Ok((true, false, true, false, true)) => None,
        Ok(x) => Some(("sodium-string".into(), format!("libsodium string '{}': (verify ok, wrong accepted, object verify ok, object wrong accepted, re-encode equal) = {:?}", s, x))),
    }
}

/// (c): valid strings of both algorithms with any salt/hash length
fn check_c(typ: i32, saltlen: usize, hashlen: usize, seed: u64) -> Option<(String, String)> {
    let pw = b"correct horse".to_vec();
    let salt = kval(seed ^ 0x10, 3, saltlen);
    let (rc, _, s) = sodium::argon2_raw(1, 8, &pw, &salt, hashlen, typ, true);
    if rc != 0 {
        return Some(("harness".into(), format!("libsodium could not encode (rc {})", rc)));
    }
    let r = guarded(AssertUnwindSafe(|| {
        let o: Result<PwHash<Vec<u8>, Vec<u8>>, _> = PwHash::from_string(&s);
        match o {
            Err(e) => (false, false, true, format!("from_string failed: {:?}", e)),
            Ok(o) => {
                let re = o.to_string();
                (re == s, o.verify(&pw).is_ok(), o.verify(&b"wrong".to_vec()).is_ok(), re)
            }
        }
    }));
    match r {
        Err(p) => Some(("panic".into(), p)),
        Ok((true, true, false, _)) => None,
        Ok((same, v, w, re)) => Some((if !same { "reencode-differs".into() } else { "verify-wrong".into() }, format!("'{}' -> from_string -> to_string = '{}' (verify right pw {}, wrong pw accepted {})", s, re, v, w))),
    }
}

pub fn replay(case: &Value) -> Option<String> {
    let r = match case["sec"].as_str()? {
        "a" => check_a(&unhx(&case["pw"]), case["ops"].as_u64()?, case["mem"].as_u64()? as usize, &unhx(&case["salt"]).try_into().ok()?),
        "b" => check_b(&unhx(&case["pw"]), case["ops"].as_u64()?, case["mem"].as_u64()? as usize),
        "c" => check_c(case["typ"].as_i64()? as i32, case["saltlen"].as_u64()? as usize, case["hashlen"].as_u64()? as usize, case["seed"].as_u64()?),
        _ => None,
    };
    r.map(|(c, d)| format!("{}: {}", c, d))
}

pub fn run() -> i32 {
    sodium::init();
    quiet_panics();
    let mut ctx = Ctx::new("C10", "exploration");
    let seed = ctx.seed;
    let tier = ctx.tier;
    ctx.rule = "full products: (a) 6 passwords (incl. empty and non-UTF-8) x opslimit {1,2,3,4} x memlimit {8192,8193,9000,9216,10240,11264,13312,16384,65536,516 KiB,600 KiB,1000 KiB,1 MiB,1 MiB+3 KiB,1500 KiB} (KiB counts of every residue mod 4): crypto_pwhash_str under a pinned RNG, the string parsed by an independent PHC parser — algorithm, version, costs must be the ones used, the hash field must be argon2id(pw, encoded salt, t, m) per libsodium (so the string describes the salt actually used); libsodium's verifier accepts it for the right password and rejects a wrong one; (b) the same product with strings made by libsodium verified by crypto_pwhash_str_verify and PwHash::from_string().verify and re-encoded; (c) both algorithms x salt length every 8..=64 x hash length every 16..=128 (quick: step 3 + boundaries), strings from libsodium's encoder: from_string -> to_string returns the same string, verify accepts/rejects; PwHash::hash round trip per length; (c') every boundary cost value (m up to 2^32-1 KiB, t up to 2^32-1) parsed, re-encoded and asked for needs_rehash without hashing; (d) needs_rehash truth table over (ops,mem)^2 for dryoc- and libsodium-made strings of both algorithms compared with libsodium's answer; non-trivial = cell executed".into();
    ctx.assume("libsodium's encoder/verifier is the reference for the string format; RNG seam H3 pins the salt");
    let pws = passwords(seed);
    let opss = [1u64, 2, 3, 4];
    let mems = [8192usize, 8193, 9000, 9216, 10240, 11264, 13 * 1024, 16384, 65536, 516 * 1024, 600 * 1024, 1000 * 1024, 1 << 20, (1 << 20) + 3072, 1500 * 1024];

    let units: Vec<(usize, usize, usize)> = (0..pws.len()).flat_map(|p| (0..4).flat_map(move |o| (0..15).map(move |m| (p, o, m)))).collect();
    let st = par_units(&units, |&(pi, oi, mi), st| {
        let salt: [u8; 16] = prand(seed, "c10-salt", (pi * 100 + oi * 10 + mi) as u64, 16).try_into().unwrap();
        let r = check_a(&pws[pi], opss[oi], mems[mi], &salt);
        st.eval(&("a", pi, oi, mi), true, if r.is_none() { "dryoc-string-ok" } else { "dryoc-string-bad" });
        if let Some((c, d)) = r {
            fail(st, "dryoc-made", &c, format!("pw#{} ops {} mem {}: {}", pi, opss[oi], mems[mi], d), json!({"sec": "a", "pw": hx(&pws[pi]), "ops": opss[oi], "mem": mems[mi], "salt": hx(&salt)}));
        }
        let r = check_b(&pws[pi], opss[oi], mems[mi]);
        st.eval(&("b", pi, oi, mi), true, if r.is_none() { "sodium-string-ok" } else { "sodium-string-bad" });
        if let Some((c, d)) = r {
            fail(st, "sodium-made", &c, format!("pw#{} ops {} mem {}: {}", pi, opss[oi], mems[mi], d), json!({"sec": "b", "pw": hx(&pws[pi]), "ops": opss[oi], "mem": mems[mi]}));
        }
        if pi == 2 && oi == 0 && mi == 1 {
            st.sample(json!({"section": "a+b", "password_len": pws[pi].len(), "opslimit": opss[oi], "memlimit": mems[mi], "example_string": sodium::pwhash_str(&pws[pi], opss[oi], mems[mi])}));
        }
    });
    ctx.absorb("strings-both-directions", st);

    // (c)
    let sls: Vec<usize> = match tier {
        Tier::Quick => (8..=64).filter(|x| x % 2 == 0 || [8, 15, 16, 17, 31, 33, 63, 64].contains(x)).collect(),
        Tier::Thorough => (8..=64).collect(),
    };
    let hls: Vec<usize> = match tier {
        Tier::Quick => (16..=128).filter(|x| x % 2 == 1 || [16, 32, 64, 96, 126, 128].contains(x)).collect(),
        Tier::Thorough => (16..=128).collect(),
    };
    let units: Vec<(i32, usize)> = [1, 2].iter().flat_map(|t| sls.iter().map(move |s| (*t, *s))).collect();
    let st = par_units(&units, |&(typ, sl), st| {
        for &hl in &hls {
            let r = check_c(typ, sl, hl, seed);
            st.eval(&("c", typ, sl, hl), true, if r.is_none() { "reencode==original" } else { "reencode-bad" });
            if let Some((c, d)) = r {
                fail(st, if typ == 1 { "roundtrip/argon2i" } else { "roundtrip/argon2id" }, &c, format!("saltlen {} hashlen {}: {}", sl, hl, d), json!({"sec": "c", "typ": typ, "saltlen": sl, "hashlen": hl, "seed": seed}));
            }
        }
        // PwHash::hash -> to_string -> from_string round trip for this salt length
        if typ == 2 {
            for &hl in &[16usize, 32, 33, 64, 128] {
                let cfg = Config::interactive().with_opslimit(1).with_memlimit(8192).with_salt_length(sl).with_hash_length(hl);
                let r = guarded(AssertUnwindSafe(|| {
                    let h: PwHash<Vec<u8>, Vec<u8>> = PwHash::hash(&b"pw".to_vec(), cfg.clone()).unwrap();
                    let s = h.to_string();
                    let back: PwHash<Vec<u8>, Vec<u8>> = PwHash::from_string(&s).unwrap();
                    let (h1, s1, _) = h.clone().into_parts();
                    let (h2, s2, _) = back.clone().into_parts();
                    let p = parse(&s);
                    h1 == h2 && s1 == s2 && s1.len() == sl && h1.len() == hl && back.to_string() == s && back.verify(&b"pw".to_vec()).is_ok() && p.map(|p| p.salt == s1 && p.hash == h1 && p.t == 1 && p.m == 8).unwrap_or(false) && sodium::pwhash_str_verify(&s, b"pw") == (s.len() < 128)
                }));
                let ok = r == Ok(true);
                st.eval(&("c-hash", sl, hl), true, if ok { "PwHash-roundtrip-ok" } else { "PwHash-roundtrip-bad" });
                if !ok {
                    fail(st, "object-roundtrip", "differs", format!("PwHash::hash(saltlen {}, hashlen {}) -> to_string -> from_string does not round-trip / is not accepted by libsodium: {:?}", sl, hl, r), json!({"sec": "none"}));
                }
            }
        }
    });
    // the constructors of the object API under an Argon2i Config (only obtainable from a parsed
    // Argon2i string): the string they emit must name the algorithm that produced the hash
    {
        let mut st2 = Stats::new();
        let (_, _, s_i) = sodium::argon2_raw(3, 8, b"seed pw", &[7u8; 16], 32, 1, true);
        let r = guarded(AssertUnwindSafe(|| -> Vec<(&'static str, bool)> {
            let cfg_i: Config = PwHash::<Vec<u8>, Vec<u8>>::from_string(&s_i).unwrap().into_parts().2;
            let mut v = vec![];
            let a: PwHash<Vec<u8>, Vec<u8>> = PwHash::hash(&b"pw".to_vec(), cfg_i.clone()).unwrap();
            let b: PwHash<Vec<u8>, Vec<u8>> = PwHash::hash_with_salt(&b"pw".to_vec(), vec![9u8; 16], cfg_i.clone()).unwrap();
            for (name, o) in [("PwHash::hash", a), ("PwHash::hash_with_salt", b)] {
                let s = o.to_string();
                let p = parse(&s);
                let (h, sa, _) = o.clone().into_parts();
                let want = p.as_ref().map(|p| sodium::argon2_raw(p.t, p.m, b"pw", &sa, h.len(), if p.alg == "argon2i" { 1 } else { 2 }, false).1);
                let ok = p.as_ref().map(|p| p.alg == "argon2i").unwrap_or(false) && want.as_ref() == Some(&h) && o.verify(&b"pw".to_vec()).is_ok() && sodium::pwhash_str_verify(&s, b"pw") && PwHash::<Vec<u8>, Vec<u8>>::from_string(&s).map(|x| x.verify(&b"pw".to_vec()).is_ok()).unwrap_or(false);
                v.push((name, ok));
            }
            v
        }));
        match r {
            Ok(v) => {
                for (name, ok) in v {
                    st2.eval(&("argon2i-config", name), true, if ok { "PwHash-roundtrip-ok" } else { "PwHash-roundtrip-bad" });
                    if !ok {
                        fail(&mut st2, "object-roundtrip", "argon2i-config", format!("{} under an Argon2i Config: the emitted string does not describe the hash (algorithm / verify / libsodium)", name), json!({"sec": "none"}));
                    }
                }
            }
            Err(p) => fail(&mut st2, "object-roundtrip", "panic", format!("object API under an Argon2i Config panicked: {}", p), json!({"sec": "none"})),
        }
        ctx.absorb("argon2i-config-constructors", st2);
    }
    ctx.note("section_c_dims", json!({"salt_lengths": sls.len(), "hash_lengths": hls.len()}));
    ctx.absorb("parse-reencode", st);

    // (c') cost fields: every boundary of the 32-bit / KiB->byte conversions, parse + re-encode +
    // needs_rehash only (no hashing at these costs)
    let mut st = Stats::new();
    let e = base64::engine::general_purpose::STANDARD_NO_PAD;
    let ms: [u64; 12] = [8, 9, 1023, 1024, 65536, 1 << 20, (1 << 21) - 1, 1 << 21, 4194303, 4194304, 4194305, 4294967295];
    let ts: [u64; 6] = [1, 2, 9, 10, 65536, 4294967295];
    for alg in ["argon2id", "argon2i"] {
        for &m in &ms {
            for &t in &ts {
                let sstr = format!("${}$v=19$m={},t={},p=1${}${}", alg, m, t, e.encode([7u8; 16]), e.encode([9u8; 32]));
                let r = guarded(AssertUnwindSafe(|| {
                    let o: PwHash<Vec<u8>, Vec<u8>> = PwHash::from_string(&sstr).map_err(|e| format!("{:?}", e))?;
                    let re = o.to_string();
                    let nr_same = crypto_pwhash_str_needs_rehash(&sstr, t, (m as usize) * 1024).map_err(|e| format!("{:?}", e))?;
                    let nr_diff = crypto_pwhash_str_needs_rehash(&sstr, t, ((m as usize) ^ 1) * 1024).map_err(|e| format!("{:?}", e))?;
                    Ok::<(String, bool, bool), String>((re, nr_same, nr_diff))
                }));
                let ok = matches!(&r, Ok(Ok((re, false, true))) if re == &sstr);
                st.eval(&("costs", alg, m, t), true, if ok { "cost-fields-roundtrip" } else { "cost-fields-wrong" });
                if !ok {
                    fail(&mut st, "cost-fields", if r.is_err() { "panic" } else { "differs" }, format!("'{}': from_string -> to_string / needs_rehash gave {:?}", sstr, r), json!({"sec": "none"}));
                }
            }
        }
    }
    st.sample(json!({"section": "c'", "m_values_KiB": ms, "t_values": ts}));
    ctx.absorb("cost-fields", st);

    // (c'') the two algorithms alternated back to back on ONE thread with identical costs (an
    // old $argon2i$ record verified, then an $argon2id$ one, and the reverse; then a fresh
    // string made and handed to libsodium): every order of <= 3 steps over {verify-i, verify-id, make-id}
    {
        let mut st = Stats::new();
        for &(t, m) in &[(1u32, 8u32), (2, 16), (3, 32), (1, 64)] {
            let (_, _, s_i) = sodium::argon2_raw(t, m, b"pw", &[9u8; 16], 32, 1, true);
            let (_, _, s_id) = sodium::argon2_raw(t, m, b"pw", &[9u8; 16], 32, 2, true);
            let mut orders: Vec<Vec<u8>> = vec![];
            for a in 0..3u8 {
                for b in 0..3u8 {
                    orders.push(vec![a, b]);
                    for c in 0..3u8 {
                        orders.push(vec![a, b, c]);
                    }
                }
            }
            for order in orders {
                let (si, sid, o2) = (s_i.clone(), s_id.clone(), order.clone());
                let res = std::thread::spawn(move || {
                    guarded(AssertUnwindSafe(|| {
                        let mut bad: Option<String> = None;
                        for (k, step) in o2.iter().enumerate() {
                            let ok = match step {
                                0 => crypto_pwhash_str_verify(&si, b"pw").is_ok() && crypto_pwhash_str_verify(&si, b"px").is_err() && PwHash::<Vec<u8>, Vec<u8>>::from_string(&si).map(|x| x.verify(&b"pw".to_vec()).is_ok()).unwrap_or(false),
                                1 => crypto_pwhash_str_verify(&sid, b"pw").is_ok() && crypto_pwhash_str_verify(&sid, b"px").is_err() && PwHash::<Vec<u8>, Vec<u8>>::from_string(&sid).map(|x| x.verify(&b"pw".to_vec()).is_ok()).unwrap_or(false),
                                _ => crypto_pwhash_str(b"pw", t as u64, m as usize * 1024).map(|s| sodium::pwhash_str_verify(&s, b"pw") && !sodium::pwhash_str_verify(&s, b"px")).unwrap_or(false),
                            };
                            if !ok && bad.is_none() {
                                bad = Some(format!("step {} ({})", k + 1, ["verify a libsodium $argon2i$ string", "verify a libsodium $argon2id$ string", "make a string and let libsodium verify it"][*step as usize]));
                            }
                        }
                        bad
                    }))
                })
                .join()
                .unwrap_or(Err("thread died".into()));
                let bad = match res {
                    Err(p) => Some(format!("panicked: {}", p)),
                    Ok(b) => b,
                };
                st.eval(&("alternate", t, m, &order), true, if bad.is_none() { "alternating-algorithms-ok" } else { "alternating-algorithms-bad" });
                if let Some(b) = bad {
                    fail(&mut st, "alternating-algorithms", "wrong", format!("t={} m={} KiB, steps {:?} on one thread: {} gave the wrong answer", t, m, order, b), json!({"sec": "none"}));
                }
            }
        }
        ctx.absorb("alternating-algorithms", st);
    }

    // (d) needs_rehash
    let mut st = Stats::new();
    // multi-digit costs and costs that are decimal prefixes of one another (1/10/12/100, 8/80/81/800)
    let grid: Vec<(u64, usize)> = [1u64, 2, 3, 4, 10, 12, 21, 100].iter().flat_map(|o| [8192usize, 8193, 9215, 9216, 16384, 65536, 65537, 80 * 1024, 81 * 1024, 800 * 1024, 1024 * 1024, 1024 * 1024 + 1023].iter().map(move |m| (*o, *m))).collect();
    for &(o1, m1) in &grid {
        let mut strings: Vec<(String, &str)> = vec![];
        if let Some(s) = sodium::pwhash_str(b"pw", o1, m1) {
            strings.push((s, "sodium-argon2id"));
        }
        match guarded(AssertUnwindSafe(|| crypto_pwhash_str(b"pw", o1, m1))) {
            Ok(Ok(s)) => strings.push((s, "dryoc-argon2id")),
            Ok(Err(_)) => {}
            Err(p) => fail(&mut st, "dryoc-made", "panic", format!("crypto_pwhash_str(ops {}, mem {}) panicked: {}", o1, m1, p), json!({"sec": "none"})),
        }
        let (_, _, s) = sodium::argon2_raw(o1 as u32, (m1 / 1024) as u32, b"pw", &[9u8; 16], 32, 1, true);
        strings.push((s, "sodium-argon2i"));
        for (s, origin) in &strings {
            for &(o2, m2) in &grid {
                let want_by_def = !(o1 == o2 && m1 / 1024 == m2 / 1024);
                let so = sodium::pwhash_str_needs_rehash(s, o2, m2);
                let dr = guarded(AssertUnwindSafe(|| crypto_pwhash_str_needs_rehash(s, o2, m2).ok()));
                let ok = dr == Ok(Some(want_by_def)) && (so.is_none() || so == Some(want_by_def));
                st.eval(&("d", o1, m1, origin, o2, m2), true, if ok { "needs_rehash-correct" } else { "needs_rehash-wrong" });
                if !ok {
                    fail(&mut st, "needs_rehash", "wrong", format!("{} string made with (ops {}, mem {}) asked about (ops {}, mem {}): dryoc {:?}, libsodium {:?}, definition {}", origin, o1, m1, o2, m2, dr, so, want_by_def), json!({"sec": "none"}));
                }
            }
        }
    }
    st.sample(json!({"section": "d", "grid": grid}));
    ctx.absorb("needs-rehash", st);
    ctx.require_outcome("dryoc-string-ok");
    ctx.require_outcome("reencode==original");
    ctx.require_outcome("needs_rehash-correct");
    ctx.finish()
}
