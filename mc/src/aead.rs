//! Shared AEAD machinery: every encrypt and open form of secretbox / box / sealed box,
//! classic and object API, plus libsodium references. Used by C01, C02, C04, C17.
#![allow(dead_code)]

use crate::core::*;
use crate::sodium;
use dryoc::classic::crypto_box as cb;
use dryoc::classic::crypto_secretbox as sb;
use dryoc::dryocbox::DryocBox;
use dryoc::dryocsecretbox::DryocSecretBox;
use dryoc::keypair::KeyPair;
use dryoc::precalc::PrecalcSecretKey;
use dryoc::types::*;
use std::panic::AssertUnwindSafe;

#[derive(Clone, Copy, PartialEq, Eq, Debug, Hash)]
pub enum Fam {
    Sb,
    Bx,
    Seal,
}

#[derive(Clone, Debug)]
pub struct Keys {
    pub k: [u8; 32],
    pub n: [u8; 24],
    pub pk_a: [u8; 32],
    pub sk_a: [u8; 32],
    pub pk_b: [u8; 32],
    pub sk_b: [u8; 32],
    pub pre: [u8; 32],
    pub esk: [u8; 32],
}

impl Keys {
    /// key/nonce alphabet indices ki, ni; key pairs from libsodium's seeded generator
    pub fn make(seed: u64, ki: usize, ni: usize) -> Keys {
        let k: [u8; 32] = karr(seed, ki);
        let n: [u8; 24] = karr(seed ^ 0x9e37, ni);
        let (pk_a, sk_a) = sodium::box_seed_keypair(&karr(seed ^ 0xa, ki));
        let (pk_b, sk_b) = sodium::box_seed_keypair(&karr(seed ^ 0xb, (ki + 1) % 5));
        let pre = sodium::box_beforenm(&pk_b, &sk_a).expect("honest pair");
        let esk: [u8; 32] = karr(seed ^ 0xe5c, 2 + (ki % 3));
        Keys { k, n, pk_a, sk_a, pk_b, sk_b, pre, esk }
    }
    pub fn json(&self) -> serde_json::Value {
        serde_json::json!({"k": hx(&self.k), "n": hx(&self.n), "pk_a": hx(&self.pk_a), "sk_a": hx(&self.sk_a),
            "pk_b": hx(&self.pk_b), "sk_b": hx(&self.sk_b), "pre": hx(&self.pre), "esk": hx(&self.esk)})
    }
    pub fn from_json(v: &serde_json::Value) -> Keys {
        let g = |n: &str| -> [u8; 32] { unhx(&v[n]).try_into().unwrap() };
        Keys { k: g("k"), n: unhx(&v["n"]).try_into().unwrap(), pk_a: g("pk_a"), sk_a: g("sk_a"), pk_b: g("pk_b"), sk_b: g("sk_b"), pre: g("pre"), esk: g("esk") }
    }
}

// ---------------------------------------------------------------------------------------
// libsodium references

pub fn ref_wire(f: Fam, ks: &Keys, m: &[u8]) -> Vec<u8> {
    match f {
        Fam::Sb => sodium::secretbox_easy(m, &ks.n, &ks.k),
        Fam::Bx => sodium::box_easy(m, &ks.n, &ks.pk_b, &ks.sk_a).unwrap(),
        Fam::Seal => {
            // predicted sealed bytes: epk || box_easy(nonce = BLAKE2b-24(epk || rpk), rpk, esk)
            let epk = sodium::scalarmult_base(&ks.esk);
            let mut h = Vec::with_capacity(64);
            h.extend_from_slice(&epk);
            h.extend_from_slice(&ks.pk_b);
            let nonce: [u8; 24] = sodium::generichash(24, &h, None).try_into().unwrap();
            let mut w = epk.to_vec();
            w.extend_from_slice(&sodium::box_easy(m, &nonce, &ks.pk_b, &ks.esk).unwrap());
            w
        }
    }
}

pub fn ref_open(f: Fam, ks: &Keys, w: &[u8]) -> Option<Vec<u8>> {
    match f {
        Fam::Sb => sodium::secretbox_open_easy(w, &ks.n, &ks.k),
        Fam::Bx => sodium::box_open_easy(w, &ks.n, &ks.pk_a, &ks.sk_b),
        Fam::Seal => sodium::box_seal_open(w, &ks.pk_b, &ks.sk_b),
    }
}

pub fn overhead(f: Fam) -> usize {
    match f {
        Fam::Seal => 48,
        _ => 16,
    }
}

fn with_esk<T>(esk: [u8; 32], f: impl FnOnce() -> T) -> T {
    dryoc::rng::verif::set_source(Some(Box::new(move |d: &mut [u8]| {
        for (i, b) in d.iter_mut().enumerate() {
            *b = esk[i % 32];
        }
    })));
    let r = f();
    dryoc::rng::verif::set_source(None);
    r
}

// ---------------------------------------------------------------------------------------
// encrypt forms: every one returns the combined wire format

pub type EncFn = fn(&Keys, &[u8]) -> Vec<u8>;
type SK = dryoc::dryocsecretbox::Key;
type SN = dryoc::dryocsecretbox::Nonce;
type SM = dryoc::dryocsecretbox::Mac;
type BN = dryoc::dryocbox::Nonce;
type BM = dryoc::dryocbox::Mac;
type BPK = dryoc::dryocbox::PublicKey;
type BSK = dryoc::dryocbox::SecretKey;

fn cat(a: &[u8], b: &[u8]) -> Vec<u8> {
    let mut v = a.to_vec();
    v.extend_from_slice(b);
    v
}

pub const ENC: &[(&str, Fam, EncFn)] = &[
    ("secretbox_easy", Fam::Sb, |ks, m| {
        let mut c = vec![0u8; m.len() + 16];
        sb::crypto_secretbox_easy(&mut c, m, &ks.n, &ks.k).unwrap();
        c
    }),
    ("secretbox_detached", Fam::Sb, |ks, m| {
        let mut c = vec![0u8; m.len()];
        let mut mac = [0u8; 16];
        sb::crypto_secretbox_detached(&mut c, &mut mac, m, &ks.n, &ks.k);
        cat(&mac, &c)
    }),
    ("secretbox_easy_inplace", Fam::Sb, |ks, m| {
        let mut d = m.to_vec();
        d.resize(m.len() + 16, 0);
        sb::crypto_secretbox_easy_inplace(&mut d, &ks.n, &ks.k).unwrap();
        d
    }),
    ("DryocSecretBox::encrypt->to_bytes[stack]", Fam::Sb, |ks, m| {
        let b: DryocSecretBox<SM, Vec<u8>> = DryocSecretBox::encrypt(m, &SN::from(&ks.n), &SK::from(&ks.k));
        b.to_bytes::<Vec<u8>>()
    }),
    ("DryocSecretBox::encrypt->to_vec[vec containers]", Fam::Sb, |ks, m| {
        let b: DryocSecretBox<Vec<u8>, Vec<u8>> = DryocSecretBox::encrypt(&m.to_vec(), &ks.n.to_vec(), &ks.k.to_vec());
        b.to_vec()
    }),
    ("DryocSecretBox::encrypt_to_vecbox->into_vec", Fam::Sb, |ks, m| DryocSecretBox::encrypt_to_vecbox(m, &ks.n, &ks.k).into_vec()),
    ("DryocSecretBox::encrypt->into_parts", Fam::Sb, |ks, m| {
        let b: DryocSecretBox<SM, Vec<u8>> = DryocSecretBox::encrypt(m, &ks.n, &ks.k);
        let (t, d) = b.into_parts();
        cat(t.as_slice(), &d)
    }),
    ("box_easy", Fam::Bx, |ks, m| {
        let mut c = vec![0u8; m.len() + 16];
        cb::crypto_box_easy(&mut c, m, &ks.n, &ks.pk_b, &ks.sk_a).unwrap();
        c
    }),
    ("box_detached", Fam::Bx, |ks, m| {
        let mut c = vec![0u8; m.len()];
        let mut mac = [0u8; 16];
        cb::crypto_box_detached(&mut c, &mut mac, m, &ks.n, &ks.pk_b, &ks.sk_a);
        cat(&mac, &c)
    }),
    ("box_detached_inplace", Fam::Bx, |ks, m| {
        let mut d = m.to_vec();
        let mut mac = [0u8; 16];
        cb::crypto_box_detached_inplace(&mut d, &mut mac, &ks.n, &ks.pk_b, &ks.sk_a).unwrap();
        cat(&mac, &d)
    }),
    ("box_easy_inplace", Fam::Bx, |ks, m| {
        let mut d = m.to_vec();
        d.resize(m.len() + 16, 0);
        cb::crypto_box_easy_inplace(&mut d, &ks.n, &ks.pk_b, &ks.sk_a).unwrap();
        d
    }),
    ("box_detached_afternm", Fam::Bx, |ks, m| {
        let mut c = vec![0u8; m.len()];
        let mut mac = [0u8; 16];
        cb::crypto_box_detached_afternm(&mut c, &mut mac, m, &ks.n, &ks.pre);
        cat(&mac, &c)
    }),
    ("box_detached_afternm_inplace", Fam::Bx, |ks, m| {
        let mut d = m.to_vec();
        let mut mac = [0u8; 16];
        cb::crypto_box_detached_afternm_inplace(&mut d, &mut mac, &ks.n, &ks.pre);
        cat(&mac, &d)
    }),
    ("box_beforenm+detached_afternm", Fam::Bx, |ks, m| {
        let pre = cb::crypto_box_beforenm(&ks.pk_b, &ks.sk_a);
        let mut c = vec![0u8; m.len()];
        let mut mac = [0u8; 16];
        cb::crypto_box_detached_afternm(&mut c, &mut mac, m, &ks.n, &pre);
        cat(&mac, &c)
    }),
    ("DryocBox::encrypt->to_bytes[stack]", Fam::Bx, |ks, m| {
        let b: DryocBox<BPK, BM, Vec<u8>> = DryocBox::encrypt(m, &BN::from(&ks.n), &BPK::from(&ks.pk_b), &BSK::from(&ks.sk_a)).unwrap();
        b.to_bytes::<Vec<u8>>()
    }),
    ("DryocBox::encrypt_to_vecbox->to_vec[vec containers]", Fam::Bx, |ks, m| DryocBox::encrypt_to_vecbox(&m.to_vec(), &BN::from(&ks.n), &BPK::from(&ks.pk_b), &ks.sk_a.to_vec()).unwrap().to_vec()),
    ("DryocBox::encrypt->to_vec[all vec containers]", Fam::Bx, |ks, m| {
        let b: DryocBox<Vec<u8>, Vec<u8>, Vec<u8>> = DryocBox::encrypt(&m.to_vec(), &ks.n.to_vec(), &ks.pk_b.to_vec(), &ks.sk_a.to_vec()).unwrap();
        b.to_vec()
    }),
    ("DryocBox::precalc_encrypt->to_bytes", Fam::Bx, |ks, m| {
        let pre = PrecalcSecretKey::precalculate(&BPK::from(&ks.pk_b), &BSK::from(&ks.sk_a));
        let b: DryocBox<BPK, BM, Vec<u8>> = DryocBox::precalc_encrypt(m, &ks.n, &pre).unwrap();
        b.to_bytes::<Vec<u8>>()
    }),
    ("DryocBox::precalc_encrypt_to_vecbox[KeyPair::precalculate]", Fam::Bx, |ks, m| {
        let kp: KeyPair<BPK, BSK> = KeyPair::from_secret_key(BSK::from(&ks.sk_a));
        let pre = kp.precalculate(&BPK::from(&ks.pk_b));
        let b = DryocBox::precalc_encrypt_to_vecbox(m, &BN::from(&ks.n), &pre).unwrap();
        let (t, d, _) = b.into_parts();
        cat(t.as_slice(), &d)
    }),
    ("box_seal", Fam::Seal, |ks, m| {
        with_esk(ks.esk, || {
            let mut c = vec![0u8; m.len() + 48];
            cb::crypto_box_seal(&mut c, m, &ks.pk_b).unwrap();
            c
        })
    }),
    ("DryocBox::seal->to_bytes", Fam::Seal, |ks, m| {
        with_esk(ks.esk, || {
            let b: DryocBox<BPK, BM, Vec<u8>> = DryocBox::seal(m, &BPK::from(&ks.pk_b)).unwrap();
            b.to_bytes::<Vec<u8>>()
        })
    }),
    ("DryocBox::seal_to_vecbox->to_vec", Fam::Seal, |ks, m| with_esk(ks.esk, || DryocBox::seal_to_vecbox(&m.to_vec(), &BPK::from(&ks.pk_b)).unwrap().to_vec())),
];

// ---------------------------------------------------------------------------------------
// open forms

#[derive(Clone, Debug, PartialEq, Eq)]
pub enum Verdict {
    Ok(Vec<u8>),
    Err,
    Panic(String),
    /// the form cannot express this input (e.g. detached form and a wire shorter than a tag)
    NA,
}

#[derive(Clone, Debug)]
pub struct OpenOut {
    pub v: Verdict,
    /// caller-owned buffer the classic function writes to: contents before / after the call
    pub before: Vec<u8>,
    pub after: Vec<u8>,
}

pub const SENTINEL: u8 = 0xC3;

pub type OpenFn = fn(&Keys, &[u8], u8) -> OpenOut;

fn na() -> OpenOut {
    OpenOut { v: Verdict::NA, before: vec![], after: vec![] }
}

/// classic copying form: message buffer prefilled with the sentinel
fn copying(mlen: usize, s: u8, f: impl FnOnce(&mut [u8]) -> Result<(), dryoc::Error>) -> OpenOut {
    let before = vec![s; mlen];
    let mut m = before.clone();
    let r = guarded(AssertUnwindSafe(|| f(&mut m)));
    let v = match r {
        Err(p) => Verdict::Panic(p),
        Ok(Ok(())) => Verdict::Ok(m.clone()),
        Ok(Err(_)) => Verdict::Err,
    };
    OpenOut { v, before, after: m }
}

/// classic in-place form: buffer holds the submitted ciphertext
fn inplace(buf: Vec<u8>, out_range: std::ops::Range<usize>, f: impl FnOnce(&mut [u8]) -> Result<(), dryoc::Error>) -> OpenOut {
    let before = buf.clone();
    let mut b = buf;
    let r = guarded(AssertUnwindSafe(|| f(&mut b)));
    let v = match r {
        Err(p) => Verdict::Panic(p),
        Ok(Ok(())) => Verdict::Ok(b.get(out_range).map(|s| s.to_vec()).unwrap_or_default()),
        Ok(Err(_)) => Verdict::Err,
    };
    OpenOut { v, before, after: b }
}

fn object(f: impl FnOnce() -> Result<Vec<u8>, dryoc::Error>) -> OpenOut {
    let r = guarded(AssertUnwindSafe(f));
    let v = match r {
        Err(p) => Verdict::Panic(p),
        Ok(Ok(m)) => Verdict::Ok(m),
        Ok(Err(_)) => Verdict::Err,
    };
    OpenOut { v, before: vec![], after: vec![] }
}

fn mac16(w: &[u8]) -> [u8; 16] {
    w[..16].try_into().unwrap()
}

pub const OPEN: &[(&str, Fam, OpenFn)] = &[
    ("secretbox_open_easy", Fam::Sb, |ks, w, s| copying(w.len().saturating_sub(16), s, |m| sb::crypto_secretbox_open_easy(m, w, &ks.n, &ks.k))),
    ("secretbox_open_detached", Fam::Sb, |ks, w, s| {
        if w.len() < 16 {
            return na();
        }
        let mac = mac16(w);
        copying(w.len() - 16, s, |m| sb::crypto_secretbox_open_detached(m, &mac, &w[16..], &ks.n, &ks.k))
    }),
    ("secretbox_open_easy_inplace", Fam::Sb, |ks, w, _| inplace(w.to_vec(), 0..w.len().saturating_sub(16), |b| sb::crypto_secretbox_open_easy_inplace(b, &ks.n, &ks.k))),
    ("DryocSecretBox::from_bytes->decrypt[stack]", Fam::Sb, |ks, w, _| {
        object(|| {
            let b: DryocSecretBox<SM, Vec<u8>> = DryocSecretBox::from_bytes(w)?;
            b.decrypt::<Vec<u8>, _, _>(&SN::from(&ks.n), &SK::from(&ks.k))
        })
    }),
    ("DryocSecretBox::from_bytes->decrypt_to_vec[vec keys]", Fam::Sb, |ks, w, _| {
        object(|| {
            let b: dryoc::dryocsecretbox::VecBox = DryocSecretBox::from_bytes(w)?;
            b.decrypt_to_vec(&ks.n.to_vec(), &ks.k.to_vec())
        })
    }),
    ("DryocSecretBox::from_parts->decrypt", Fam::Sb, |ks, w, _| {
        if w.len() < 16 {
            return na();
        }
        object(|| {
            let b: DryocSecretBox<SM, Vec<u8>> = DryocSecretBox::from_parts(SM::from(&mac16(w)), w[16..].to_vec());
            b.decrypt::<Vec<u8>, _, _>(&ks.n, &ks.k)
        })
    }),
    ("box_open_easy", Fam::Bx, |ks, w, s| copying(w.len().saturating_sub(16), s, |m| cb::crypto_box_open_easy(m, w, &ks.n, &ks.pk_a, &ks.sk_b))),
    ("box_open_detached", Fam::Bx, |ks, w, s| {
        if w.len() < 16 {
            return na();
        }
        let mac = mac16(w);
        copying(w.len() - 16, s, |m| cb::crypto_box_open_detached(m, &mac, &w[16..], &ks.n, &ks.pk_a, &ks.sk_b))
    }),
    ("box_open_detached_inplace", Fam::Bx, |ks, w, _| {
        if w.len() < 16 {
            return na();
        }
        let mac = mac16(w);
        inplace(w[16..].to_vec(), 0..w.len() - 16, |b| cb::crypto_box_open_detached_inplace(b, &mac, &ks.n, &ks.pk_a, &ks.sk_b))
    }),
    ("box_open_easy_inplace", Fam::Bx, |ks, w, _| inplace(w.to_vec(), 0..w.len().saturating_sub(16), |b| cb::crypto_box_open_easy_inplace(b, &ks.n, &ks.pk_a, &ks.sk_b))),
    ("box_open_detached_afternm", Fam::Bx, |ks, w, s| {
        if w.len() < 16 {
            return na();
        }
        let mac = mac16(w);
        copying(w.len() - 16, s, |m| cb::crypto_box_open_detached_afternm(m, &mac, &w[16..], &ks.n, &ks.pre))
    }),
    ("box_open_detached_afternm_inplace", Fam::Bx, |ks, w, _| {
        if w.len() < 16 {
            return na();
        }
        let mac = mac16(w);
        inplace(w[16..].to_vec(), 0..w.len() - 16, |b| cb::crypto_box_open_detached_afternm_inplace(b, &mac, &ks.n, &ks.pre))
    }),
    ("DryocBox::from_bytes->decrypt[stack]", Fam::Bx, |ks, w, _| {
        object(|| {
            let b: DryocBox<BPK, BM, Vec<u8>> = DryocBox::from_bytes(w)?;
            b.decrypt::<_, _, _, Vec<u8>>(&BN::from(&ks.n), &BPK::from(&ks.pk_a), &BSK::from(&ks.sk_b))
        })
    }),
    ("DryocBox::from_bytes->decrypt_to_vec[vec keys]", Fam::Bx, |ks, w, _| {
        object(|| {
            let b: dryoc::dryocbox::VecBox = DryocBox::from_bytes(w)?;
            b.decrypt_to_vec(&BN::from(&ks.n), &BPK::from(&ks.pk_a), &ks.sk_b.to_vec())
        })
    }),
    ("DryocBox::from_bytes->decrypt[all vec containers]", Fam::Bx, |ks, w, _| {
        object(|| {
            let b: DryocBox<Vec<u8>, Vec<u8>, Vec<u8>> = DryocBox::from_bytes(w)?;
            b.decrypt::<_, _, _, Vec<u8>>(&ks.n.to_vec(), &ks.pk_a.to_vec(), &ks.sk_b.to_vec())
        })
    }),
    ("DryocBox::from_bytes->precalc_decrypt[given key]", Fam::Bx, |ks, w, _| {
        object(|| {
            let b: DryocBox<BPK, BM, Vec<u8>> = DryocBox::from_bytes(w)?;
            let pre: StackByteArray<32> = ks.pre.into();
            b.precalc_decrypt::<_, _, Vec<u8>>(&ks.n, &pre)
        })
    }),
    ("DryocBox::from_bytes->precalc_decrypt_to_vec[PrecalcSecretKey::precalculate]", Fam::Bx, |ks, w, _| {
        object(|| {
            let b: dryoc::dryocbox::VecBox = DryocBox::from_bytes(w)?;
            let pre = PrecalcSecretKey::precalculate(&BPK::from(&ks.pk_a), &BSK::from(&ks.sk_b));
            b.precalc_decrypt_to_vec(&BN::from(&ks.n), &pre)
        })
    }),
    ("box_seal_open", Fam::Seal, |ks, w, s| copying(w.len().saturating_sub(48), s, |m| cb::crypto_box_seal_open(m, w, &ks.pk_b, &ks.sk_b))),
    ("DryocBox::from_sealed_bytes->unseal", Fam::Seal, |ks, w, _| {
        object(|| {
            let b: DryocBox<BPK, BM, Vec<u8>> = DryocBox::from_sealed_bytes(w)?;
            let kp: KeyPair<BPK, BSK> = KeyPair::from_slices(&ks.pk_b, &ks.sk_b)?;
            b.unseal::<_, _, Vec<u8>>(&kp)
        })
    }),
    ("DryocBox::from_sealed_bytes->unseal_to_vec", Fam::Seal, |ks, w, _| {
        object(|| {
            let b: dryoc::dryocbox::VecBox = DryocBox::from_sealed_bytes(w)?;
            let kp: KeyPair<BPK, BSK> = KeyPair::from_slices(&ks.pk_b, &ks.sk_b)?;
            b.unseal_to_vec(&kp)
        })
    }),
];

/// does this open form consume the precomputed key `Keys::pre` (rather than pk/sk)?
pub fn uses_pre(name: &str) -> bool {
    name.contains("afternm") || name.contains("[given key]")
}

pub fn fam_name(f: Fam) -> &'static str {
    match f {
        Fam::Sb => "secretbox",
        Fam::Bx => "box",
        Fam::Seal => "sealedbox",
    }
}

pub fn enc_by_name(n: &str) -> Option<&'static (&'static str, Fam, EncFn)> {
    ENC.iter().find(|e| e.0 == n)
}
pub fn open_by_name(n: &str) -> Option<&'static (&'static str, Fam, OpenFn)> {
    OPEN.iter().find(|e| e.0 == n)
}
