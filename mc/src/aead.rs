//! Shared AEAD machinery: every encrypt and open form of secretbox / box / sealed box,
//! classic and object API, plus libsodium references. Used by C01, C02, C04, C17.
#![allow(dead_code)]

use crate::core::*;
use crate::sodium;
use dryoc::classic::crypto_box as cb;
use dryoc::classic::crypto_secretbox as sb;
use dryoc::dryocbox::DryocBox;
use dryoc::dryocsecretbox::DryocSecretBox;
use dryoc::keypair::KeyPair;
use dryoc::precalc::PrecalcSecretKey;
use dryoc::types::*;
use std::panic::AssertUnwindSafe;

#[derive(Clone, Copy, PartialEq, Eq, Debug, Hash)]
pub enum Fam {
    Sb,
    Bx,
    Seal,
}

#[derive(Clone, Debug)]
pub struct Keys {
    pub k: [u8; 32],
    pub n: [u8; 24],
    pub pk_a: [u8; 32],
    pub sk_a: [u8; 32],
    pub pk_b: [u8; 32],
    pub sk_b: [u8; 32],
    pub pre: [u8; 32],
    pub esk: [u8; 32],
}

impl Keys {
    /// key/nonce alphabet indices ki, ni; key pairs from libsodium's seeded generator
    pub fn make(seed: u64, ki: usize, ni: usize) -> Keys {
        let k: [u8; 32] = karr(seed, ki);
        let n: [u8; 24] = karr(seed ^ 0x9e37, ni);
        let (pk_a, sk_a) = sodium::box_seed_keypair(&karr(seed ^ 0xa, ki));
        let (pk_b, sk_b) = sodium::box_seed_keypair(&karr(seed ^ 0xb, (ki + 1) % 5));
        let pre = sodium::box_beforenm(&pk_b, &sk_a).expect("honest pair");
        let esk: [u8; 32] = karr(seed ^ 0xe5c, 2 + (ki % 3));
        Keys { k, n, pk_a, sk_a, pk_b, sk_b, pre, esk }
    }
    pub fn json(&self) -> serde_json::Value {
        serde_json::json!({"k": hx(&self.k), "n": hx(&self.n), "pk_a": hx(&self.pk_a), "sk_a": hx(&self.sk_a),
            "pk_b": hx(&self.pk_b), "sk_b": hx(&self.sk_b), "pre": hx(&self.pre), "esk": hx(&self.esk)})
    }
    pub fn from_json(v: &serde_json::Value) -> Keys {
        let g = |n: &str| -> [u8; 32] { unhx(&v[n]).try_into().unwrap() };
        Keys { k: g("k"), n: unhx(&v["n"]).try_into().unwrap(), pk_a: g("pk_a"), sk_a: g("sk_a"), pk_b: g("pk_b"), sk_b: g("sk_b"), pre: g("pre"), esk: g("esk") }
    }
}

// ---------------------------------------------------------------------------------------
// libsodium references

pub fn ref_wire(f: Fam, ks: &Keys, m: &[u8]) -> Vec<u8> {
    match f {
        Fam::Sb => sodium::secretbox_easy(m, &ks.n, &ks.k),
        Fam::Bx => sodium::box_easy(m, &ks.n, &ks.pk_b, &ks.sk_a).unwrap(),
        Fam::Seal => {
            // predicted sealed bytes: epk || box_easy(nonce = BLAKE2b-24(epk || rpk), rpk, esk)
            let epk = sodium::scalarmult_base(&ks.esk);
            let mut h = Vec::with_capacity(64);
            h.extend_from_slice(&epk);
            h.extend_from_slice(&ks.pk_b);
            let nonce: [u8; 24] = sodium::generichash(24, &h, None).try_into().unwrap();
            let mut w = epk.to_vec();
            w.extend_from_slice(&sodium::box_easy(m, &nonce, &ks.pk_b, &ks.esk).unwrap());
            w
        }
    }
}

pub fn ref_open(f: Fam, ks: &Keys, w: &[u8]) -> Option<Vec<u8>> {
    match f {
        Fam::Sb => sodium::secretbox_open_easy(w, &ks.n, &ks.k),
        Fam::Bx => sodium::box_open_easy(w, &ks.n, &ks.pk_a, &ks.sk_b),
        Fam::Seal => sodium::box_seal_open(w, &ks.pk_b, &ks.sk_b),
    }
}

pub fn overhead(f: Fam) -> usize {
    match f {
        Fam::Seal => 48,
        _ => 16,
    }
}

fn with_esk<T>(esk: [u8; 32], f: impl FnOnce() -> T) -> T {
    dryoc::rng::verif::set_source(Some(Box::new(move |d: &mut [u8]| {
        for (i, b) in d.iter_mut().enumerate() {
            *b = esk[i % 32];
        }
    })));
    let r = f();
    dryoc::rng::verif::set_source(None);
    r
}

// ---------------------------------------------------------------------------------------
// encrypt forms: every one returns the combined wire format

pub type EncFn = fn(&Keys, &[u8]) -> Vec<u8>;
type SK = dryoc::dryocsecretbox::Key;
type SN = dryoc::dryocsecretbox::Nonce;
type SM = dryoc::dryocsecretbox::Mac;
type BN = dryoc::dryocbox::Nonce;
type BM = dryoc::dryocbox::Mac;
type BPK = dryoc::dryocbox::PublicKey;
type BSK = dryoc::dryocbox::SecretKey;

fn cat(a: &[u8], b: &[u8]) -> Vec<u8> {
    let mut v = a.to_vec();
    v.extend_from_slice(b);
    v
}

pub const ENC: &[(&str, Fam, EncFn)] = &[
    ("secretbox_easy", Fam::Sb, |ks, m| {
        let mut c = vec![0xC3u8; m.len() + 16];
        sb::crypto_secretbox_easy(&mut c, m, &ks.n, &ks.k).unwrap();
        c
    }),
    ("secretbox_detached", Fam::Sb, |ks, m| {
        let mut c = vec![0xC3u8; m.len()];
        let mut mac = [0xC3u8; 16];
        sb::crypto_secretbox_detached(&mut c, &mut mac, m, &ks.n, &ks.k);
        cat(&mac, &c)
    }),
    ("secretbox_easy_inplace", Fam::Sb, |ks, m| {
        let mut d = m.to_vec();
        d.resize(m.len() + 16, 0);
        sb::crypto_secretbox_easy_inplace(&mut d, &ks.n, &ks.k).unwrap();
        d
    }),
    ("DryocSecretBox::encrypt->to_bytes[stack]", Fam::Sb, |ks, m| {
        let b: DryocSecretBox<SM, Vec<u8>> = DryocSecretBox::encrypt(m, &SN::from(&ks.n), &SK::from(&ks.k));
        b.to_bytes::<Vec<u8>>()
    }),
    ("DryocSecretBox::encrypt->to_vec[vec containers]", Fam::Sb, |ks, m| {
        let b: DryocSecretBox<Vec<u8>, Vec<u8>> = DryocSecretBox::encrypt(&m.to_vec(), &ks.n.to_vec(), &ks.k.to_vec());
        b.to_vec()
    }),
    ("DryocSecretBox::encrypt_to_vecbox->into_vec", Fam::Sb, |ks, m| DryocSecretBox::encrypt_to_vecbox(m, &ks.n, &ks.k).into_vec()),
    ("DryocSecretBox::encrypt->into_parts", Fam::Sb, |ks, m| {
        let b: DryocSecretBox<SM, Vec<u8>> = DryocSecretBox::encrypt(m, &ks.n, &ks.k);
        let (t, d) = b.into_parts();
        cat(t.as_slice(), &d)
    }),
    ("box_easy", Fam::Bx, |ks, m| {
        let mut c = vec![0xC3u8; m.len() + 16];
        cb::crypto_box_easy(&mut c, m, &ks.n, &ks.pk_b, &ks.sk_a).unwrap();
        c
    }),
    ("box_detached", Fam::Bx, |ks, m| {
        let mut c = vec![0xC3u8; m.len()];
        let mut mac = [0xC3u8; 16];
        cb::crypto_box_detached(&mut c, &mut mac, m, &ks.n, &ks.pk_b, &ks.sk_a);
        cat(&mac, &c)
    }),
    ("box_detached_inplace", Fam::Bx, |ks, m| {
        let mut d = m.to_vec();
        let mut mac = [0xC3u8; 16];
        cb::crypto_box_detached_inplace(&mut d, &mut mac, &ks.n, &ks.pk_b, &ks.sk_a).unwrap();
        cat(&mac, &d)
    }),
    ("box_easy_inplace", Fam::Bx, |ks, m| {
        let mut d = m.to_vec();
        d.resize(m.len() + 16, 0);
        cb::crypto_box_easy_inplace(&mut d, &ks.n, &ks.pk_b, &ks.sk_a).unwrap();
        d
    }),
    ("box_detached_afternm", Fam::Bx, |ks, m| {
        let mut c = vec![0xC3u8; m.len()];
        let mut mac = [0xC3u8; 16];
        cb::crypto_box_detached_afternm(&mut c, &mut mac, m, &ks.n, &ks.pre);
        cat(&mac, &c)
    }),
    ("box_detached_afternm_inplace", Fam::Bx, |ks, m| {
        let mut d = m.to_vec();
        let mut mac = [0xC3u8; 16];
        cb::crypto_box_detached_afternm_inplace(&mut d, &mut mac, &ks.n, &ks.pre);
        cat(&mac, &d)
    }),
    ("box_beforenm+detached_afternm", Fam::Bx, |ks, m| {
        let pre = cb::crypto_box_beforenm(&ks.pk_b, &ks.sk_a);
        let mut c = vec![0xC3u8; m.len()];
        let mut mac = [0xC3u8; 16];
        cb::crypto_box_detached_afternm(&mut c, &mut mac, m, &ks.n, &pre);
        cat(&mac, &c)
    }),
    ("DryocBox::encrypt->to_bytes[stack]", Fam::Bx, |ks, m| {
        let b: DryocBox<BPK, BM, Vec<u8>> = DryocBox::encrypt(m, &BN::from(&ks.n), &BPK::from(&ks.pk_b), &BSK::from(&ks.sk_a)).unwrap();
        b.to_bytes::<Vec<u8>>()
    }),
    ("DryocBox::encrypt_to_vecbox->to_vec[vec containers]", Fam::Bx, |ks, m| DryocBox::encrypt_to_vecbox(&m.to_vec(), &BN::from(&ks.n), &BPK::from(&ks.pk_b), &ks.sk_a.to_vec()).unwrap().to_vec()),
    ("DryocBox::encrypt->to_vec[all vec containers]", Fam::Bx, |ks, m| {
        let b: DryocBox<Vec<u8>, Vec<u8>, Vec<u8>> = DryocBox::encrypt(&m.to_vec(), &ks.n.to_vec(), &ks.pk_b.to_vec(), &ks.sk_a.to_vec()).unwrap();
        b.to_vec()
    }),
    ("DryocBox::precalc_encrypt->to_bytes", Fam::Bx, |ks, m| {
        let pre = PrecalcSecretKey::precalculate(&BPK::from(&ks.pk_b), &BSK::from(&ks.sk_a));
        let b: DryocBox<BPK, BM, Vec<u8>> = DryocBox::precalc_encrypt(m, &ks.n, &pre).unwrap();
        b.to_bytes::<Vec<u8>>()
    }),
    ("DryocBox::precalc_encrypt_to_vecbox[KeyPair::precalculate]", Fam::Bx, |ks, m| {
        let kp: KeyPair<BPK, BSK> = KeyPair::from_secret_key(BSK::from(&ks.sk_a));
        let pre = kp.precalculate(&BPK::from(&ks.pk_b));
        let b = DryocBox::precalc_encrypt_to_vecbox(m, &BN::from(&ks.n), &pre).unwrap();
        let (t, d, _) = b.into_parts();
        cat(t.as_slice(), &d)
    }),
    ("box_seal", Fam::Seal, |ks, m| {
        with_esk(ks.esk, || {
            let mut c = vec![0xC3u8; m.len() + 48];
            cb::crypto_box_seal(&mut c, m, &ks.pk_b).unwrap();
            c
        })
    }),
    ("DryocBox::seal->to_bytes", Fam::Seal, |ks, m| {
        with_esk(ks.esk, || {
            let b: DryocBox<BPK, BM, Vec<u8>> = DryocBox::seal(m, &BPK::from(&ks.pk_b)).unwrap();
            b.to_bytes::<Vec<u8>>()
        })
    }),
    ("DryocBox::seal_to_vecbox->to_vec", Fam::Seal, |ks, m| with_esk(ks.esk, || DryocBox::seal_to_vecbox(&m.to_vec(), &BPK::from(&ks.pk_b)).unwrap().to_vec())),
];

// ---------------------------------------------------------------------------------------
// open forms

#[derive(Clone, Debug, PartialEq, Eq)]
pub enum Verdict {
    Ok(Vec<u8>),
    Err,
    Panic(String),
    /// the form cannot express this input (e.g. detached form and a wire shorter than a tag)
    NA,
}

#[derive(Clone, Debug)]
pub struct OpenOut {
    pub v: Verdict,
    /// caller-owned buffer the classic function writes to: contents before / after the call
    pub before: Vec<u8>,
    pub after: Vec<u8>,
}

pub const SENTINEL: u8 = 0xC3;

pub type OpenFn = fn(&Keys, &[u8], u8) -> OpenOut;

fn na() -> OpenOut {
    OpenOut { v: Verdict::NA, before: vec![], after: vec![] }
}

thread_local! {
    /// text (Display and Debug) of the error the last open form returned
    static LAST_ERR: std::cell::RefCell<Option<String>> = const { std::cell::RefCell::new(None) };
}

pub fn note_err(e: &dryoc::Error) {
    LAST_ERR.with(|c| *c.borrow_mut() = Some(format!("{} / {:?}", e, e)));
}

pub fn take_last_err() -> Option<String> {
    LAST_ERR.with(|c| c.borrow_mut().take())
}

thread_local! {
    /// when set, the classic copying forms (and the classic stream pull) are handed a message
    /// buffer of exactly this length instead of one sized from the submitted ciphertext — a
    /// receiver that knows the expected message length, or one that reuses a larger frame buffer
    pub static OUT_LEN: std::cell::Cell<Option<usize>> = const { std::cell::Cell::new(None) };
}

pub fn with_out_len<R>(n: Option<usize>, f: impl FnOnce() -> R) -> R {
    let old = OUT_LEN.with(|c| c.replace(n));
    let r = f();
    OUT_LEN.with(|c| c.set(old));
    r
}

/// is this a classic form that writes the message into a separate caller-sized buffer?
pub fn is_copying(name: &str) -> bool {
    !name.starts_with("Dryoc") && !name.contains("inplace")
}

/// classic copying form: message buffer prefilled with the sentinel
fn copying(mlen: usize, s: u8, f: impl FnOnce(&mut [u8]) -> Result<(), dryoc::Error>) -> OpenOut {
    let mlen = OUT_LEN.with(|c| c.get()).unwrap_or(mlen);
    let before = vec![s; mlen];
    let mut m = before.clone();
    let r = guarded(AssertUnwindSafe(|| f(&mut m)));
    let v = match r {
        Err(p) => Verdict::Panic(p),
        Ok(Ok(())) => Verdict::Ok(m.clone()),
        Ok(Err(e)) => {
            note_err(&e);
            Verdict::Err
        }
    };
    OpenOut { v, before, after: m }
}

/// classic in-place form: buffer holds the submitted ciphertext
fn inplace(buf: Vec<u8>, out_range: std::ops::Range<usize>, f: impl FnOnce(&mut [u8]) -> Result<(), dryoc::Error>) -> OpenOut {
    let before = buf.clone();
    let mut b = buf;
    let r = guarded(AssertUnwindSafe(|| f(&mut b)));
    let v = match r {
        Err(p) => Verdict::Panic(p),
        Ok(Ok(())) => Verdict::Ok(b.get(out_range).map(|s| s.to_vec()).unwrap_or_default()),
        Ok(Err(e)) => {
            note_err(&e);
            Verdict::Err
        }
    };
    OpenOut { v, before, after: b }
}

fn object(f: impl FnOnce() -> Result<Vec<u8>, dryoc::Error>) -> OpenOut {
    let r = guarded(AssertUnwindSafe(f));
    let v = match r {
        Err(p) => Verdict::Panic(p),
        Ok(Ok(m)) => Verdict::Ok(m),
        Ok(Err(e)) => {
            note_err(&e);
            Verdict::Err
        }
    };
    OpenOut { v, before: vec![], after: vec![] }
}

fn mac16(w: &[u8]) -> [u8; 16] {
    w[..16].try_into().unwrap()
}

pub const OPEN: &[(&str, Fam, OpenFn)] = &[
    ("secretbox_open_easy", Fam::Sb, |ks, w, s| copying(w.len().saturating_sub(16), s, |m| sb::crypto_secretbox_open_easy(m, w, &ks.n, &ks.k))),
    ("secretbox_open_detached", Fam::Sb, |ks, w, s| {
        if w.len() < 16 {
            return na();
        }
        let mac = mac16(w);
        copying(w.len() - 16, s, |m| sb::crypto_secretbox_open_detached(m, &mac, &w[16..], &ks.n, &ks.k))
    }),
    ("secretbox_open_easy_inplace", Fam::Sb, |ks, w, _| inplace(w.to_vec(), 0..w.len().saturating_sub(16), |b| sb::crypto_secretbox_open_easy_inplace(b, &ks.n, &ks.k))),
    ("DryocSecretBox::from_bytes->decrypt[stack]", Fam::Sb, |ks, w, _| {
        object(|| {
            let b: DryocSecretBox<SM, Vec<u8>> = DryocSecretBox::from_bytes(w)?;
            b.decrypt::<Vec<u8>, _, _>(&SN::from(&ks.n), &SK::from(&ks.k))
        })
    }),
    ("DryocSecretBox::from_bytes->decrypt_to_vec[vec keys]", Fam::Sb, |ks, w, _| {
        object(|| {
            let b: dryoc::dryocsecretbox::VecBox = DryocSecretBox::from_bytes(w)?;
            b.decrypt_to_vec(&ks.n.to_vec(), &ks.k.to_vec())
        })
    }),
    ("DryocSecretBox::from_bytes->decrypt[all vec containers]", Fam::Sb, |ks, w, _| {
        object(|| {
            let b: DryocSecretBox<Vec<u8>, Vec<u8>> = DryocSecretBox::from_bytes(w)?;
            b.decrypt::<Vec<u8>, _, _>(&ks.n.to_vec(), &ks.k.to_vec())
        })
    }),
    ("DryocSecretBox::from_parts->decrypt", Fam::Sb, |ks, w, _| {
        if w.len() < 16 {
            return na();
        }
        object(|| {
            let b: DryocSecretBox<SM, Vec<u8>> = DryocSecretBox::from_parts(SM::from(&mac16(w)), w[16..].to_vec());
            b.decrypt::<Vec<u8>, _, _>(&ks.n, &ks.k)
        })
    }),
    ("DryocSecretBox::with_data_and_mac->decrypt", Fam::Sb, |ks, w, _| {
        if w.len() < 16 {
            return na();
        }
        object(|| {
            let b: DryocSecretBox<SM, Vec<u8>> = DryocSecretBox::with_data_and_mac(SM::from(&mac16(w)), &w[16..]);
            b.decrypt_to_vec(&ks.n, &ks.k)
        })
    }),
    ("box_open_easy", Fam::Bx, |ks, w, s| copying(w.len().saturating_sub(16), s, |m| cb::crypto_box_open_easy(m, w, &ks.n, &ks.pk_a, &ks.sk_b))),
    ("box_open_detached", Fam::Bx, |ks, w, s| {
        if w.len() < 16 {
            return na();
        }
        let mac = mac16(w);
        copying(w.len() - 16, s, |m| cb::crypto_box_open_detached(m, &mac, &w[16..], &ks.n, &ks.pk_a, &ks.sk_b))
    }),
    ("box_open_detached_inplace", Fam::Bx, |ks, w, _| {
        if w.len() < 16 {
            return na();
        }
        let mac = mac16(w);
        inplace(w[16..].to_vec(), 0..w.len() - 16, |b| cb::crypto_box_open_detached_inplace(b, &mac, &ks.n, &ks.pk_a, &ks.sk_b))
    }),
    ("box_open_easy_inplace", Fam::Bx, |ks, w, _| inplace(w.to_vec(), 0..w.len().saturating_sub(16), |b| cb::crypto_box_open_easy_inplace(b, &ks.n, &ks.pk_a, &ks.sk_b))),
    ("box_open_detached_afternm", Fam::Bx, |ks, w, s| {
        if w.len() < 16 {
            return na();
        }
        let mac = mac16(w);
        copying(w.len() - 16, s, |m| cb::crypto_box_open_detached_afternm(m, &mac, &w[16..], &ks.n, &ks.pre))
    }),
    ("box_open_detached_afternm_inplace", Fam::Bx, |ks, w, _| {
        if w.len() < 16 {
            return na();
        }
        let mac = mac16(w);
        inplace(w[16..].to_vec(), 0..w.len() - 16, |b| cb::crypto_box_open_detached_afternm_inplace(b, &mac, &ks.n, &ks.pre))
    }),
    ("DryocBox::from_bytes->decrypt[stack]", Fam::Bx, |ks, w, _| {
        object(|| {
            let b: DryocBox<BPK, BM, Vec<u8>> = DryocBox::from_bytes(w)?;
            b.decrypt::<_, _, _, Vec<u8>>(&BN::from(&ks.n), &BPK::from(&ks.pk_a), &BSK::from(&ks.sk_b))
        })
    }),
    ("DryocBox::new_with_data_and_mac->decrypt", Fam::Bx, |ks, w, _| {
        if w.len() < 16 {
            return na();
        }
        object(|| {
            let b: DryocBox<BPK, BM, Vec<u8>> = DryocBox::new_with_data_and_mac(BM::from(&mac16(w)), &w[16..]);
            b.decrypt_to_vec(&BN::from(&ks.n), &BPK::from(&ks.pk_a), &BSK::from(&ks.sk_b))
        })
    }),
    ("DryocBox::from_bytes->decrypt_to_vec[vec keys]", Fam::Bx, |ks, w, _| {
        object(|| {
            let b: dryoc::dryocbox::VecBox = DryocBox::from_bytes(w)?;
            b.decrypt_to_vec(&BN::from(&ks.n), &BPK::from(&ks.pk_a), &ks.sk_b.to_vec())
        })
    }),
    ("DryocBox::from_bytes->decrypt[all vec containers]", Fam::Bx, |ks, w, _| {
        object(|| {
            let b: DryocBox<Vec<u8>, Vec<u8>, Vec<u8>> = DryocBox::from_bytes(w)?;
            b.decrypt::<_, _, _, Vec<u8>>(&ks.n.to_vec(), &ks.pk_a.to_vec(), &ks.sk_b.to_vec())
        })
    }),
    ("DryocBox::from_bytes->precalc_decrypt[given key]", Fam::Bx, |ks, w, _| {
        object(|| {
            let b: DryocBox<BPK, BM, Vec<u8>> = DryocBox::from_bytes(w)?;
            let pre: StackByteArray<32> = ks.pre.into();
            b.precalc_decrypt::<_, _, Vec<u8>>(&ks.n, &pre)
        })
    }),
    ("DryocBox::from_bytes->precalc_decrypt_to_vec[PrecalcSecretKey::precalculate]", Fam::Bx, |ks, w, _| {
        object(|| {
            let b: dryoc::dryocbox::VecBox = DryocBox::from_bytes(w)?;
            let pre = PrecalcSecretKey::precalculate(&BPK::from(&ks.pk_a), &BSK::from(&ks.sk_b));
            b.precalc_decrypt_to_vec(&BN::from(&ks.n), &pre)
        })
    }),
    ("box_seal_open", Fam::Seal, |ks, w, s| copying(w.len().saturating_sub(48), s, |m| cb::crypto_box_seal_open(m, w, &ks.pk_b, &ks.sk_b))),
    ("DryocBox::from_sealed_bytes->unseal", Fam::Seal, |ks, w, _| {
        object(|| {
            let b: DryocBox<BPK, BM, Vec<u8>> = DryocBox::from_sealed_bytes(w)?;
            let kp: KeyPair<BPK, BSK> = KeyPair::from_slices(&ks.pk_b, &ks.sk_b)?;
            b.unseal::<_, _, Vec<u8>>(&kp)
        })
    }),
    ("DryocBox::new_with_epk_data_and_mac->unseal_to_vec", Fam::Seal, |ks, w, _| {
        if w.len() < 48 {
            return na();
        }
        object(|| {
            let epk: [u8; 32] = w[..32].try_into().unwrap();
            let mac: [u8; 16] = w[32..48].try_into().unwrap();
            let b: DryocBox<BPK, BM, Vec<u8>> = DryocBox::new_with_epk_data_and_mac(BPK::from(&epk), BM::from(&mac), &w[48..]);
            let kp: KeyPair<BPK, BSK> = KeyPair::from_slices(&ks.pk_b, &ks.sk_b)?;
            b.unseal_to_vec(&kp)
        })
    }),
    ("DryocBox::from_sealed_bytes->unseal[all vec containers]", Fam::Seal, |ks, w, _| {
        object(|| {
            let b: DryocBox<Vec<u8>, Vec<u8>, Vec<u8>> = DryocBox::from_sealed_bytes(w)?;
            let kp: KeyPair<Vec<u8>, Vec<u8>> = KeyPair::from_slices(&ks.pk_b, &ks.sk_b)?;
            b.unseal::<_, _, Vec<u8>>(&kp)
        })
    }),
    ("DryocBox::from_sealed_bytes->unseal_to_vec", Fam::Seal, |ks, w, _| {
        object(|| {
            let b: dryoc::dryocbox::VecBox = DryocBox::from_sealed_bytes(w)?;
            let kp: KeyPair<BPK, BSK> = KeyPair::from_slices(&ks.pk_b, &ks.sk_b)?;
            b.unseal_to_vec(&kp)
        })
    }),
];

pub fn is_heavy(name: &str) -> bool {
    weight(name) > 0
}
/// 0 = stack/Vec form; 1 = heap containers (mprotect per call, contends on the mmap lock);
/// 2 = locked containers (several mlock calls per call — each drains the per-CPU LRU lists
/// system-wide and costs milliseconds). Heavier forms run on reduced grids.
pub fn weight(name: &str) -> u8 {
    if name.contains("[locked") || name.contains("precalculate_locked") || name.contains("precalculate_readonly_locked") {
        2
    } else if name.contains("[heap") {
        1
    } else {
        0
    }
}

/// does this open form consume the precomputed key `Keys::pre` (rather than pk/sk)?
pub fn uses_pre(name: &str) -> bool {
    name.contains("afternm") || name.contains("[given key]")
}

pub fn fam_name(f: Fam) -> &'static str {
    match f {
        Fam::Sb => "secretbox",
        Fam::Bx => "box",
        Fam::Seal => "sealedbox",
    }
}

/// every encrypt form of this build: the stable list plus, in nightly builds, the heap /
/// locked container forms
pub fn enc_all() -> &'static [(&'static str, Fam, EncFn)] {
    static V: std::sync::OnceLock<Vec<(&'static str, Fam, EncFn)>> = std::sync::OnceLock::new();
    V.get_or_init(|| {
        #[allow(unused_mut)]
        let mut v = ENC.to_vec();
        #[cfg(feature = "nightly")]
        v.extend_from_slice(nightly::ENC_N);
        v
    })
}
pub fn open_all() -> &'static [(&'static str, Fam, OpenFn)] {
    static V: std::sync::OnceLock<Vec<(&'static str, Fam, OpenFn)>> = std::sync::OnceLock::new();
    V.get_or_init(|| {
        #[allow(unused_mut)]
        let mut v = OPEN.to_vec();
        #[cfg(feature = "nightly")]
        v.extend_from_slice(nightly::OPEN_N);
        v
    })
}
pub fn enc_by_name(n: &str) -> Option<&'static (&'static str, Fam, EncFn)> {
    enc_all().iter().find(|e| e.0 == n)
}
pub fn open_by_name(n: &str) -> Option<&'static (&'static str, Fam, OpenFn)> {
    open_all().iter().find(|e| e.0 == n)
}

#[cfg(feature = "nightly")]
mod nightly {
    use super::*;
    use dryoc::protected::*;
    type HA<const N: usize> = HeapByteArray<N>;
    type LKP = KeyPair<Locked<HA<32>>, Locked<HA<32>>>;

    fn heap(b: &[u8]) -> HeapBytes {
        let mut h = HeapBytes::default();
        h.resize(b.len(), 0);
        h.as_mut_slice().copy_from_slice(b);
        h
    }
    fn lk<const N: usize>(b: &[u8; N]) -> Locked<HA<N>> {
        HA::<N>::from_slice_into_locked(b).unwrap()
    }
    fn lkro<const N: usize>(b: &[u8; N]) -> LockedRO<HA<N>> {
        HA::<N>::from_slice_into_readonly_locked(b).unwrap()
    }
    fn lbytes(b: &[u8]) -> Locked<HeapBytes> {
        HeapBytes::from_slice_into_locked(b).unwrap()
    }

    pub const ENC_N: &[(&str, Fam, EncFn)] = &[
        ("DryocSecretBox::encrypt[heap containers]", Fam::Sb, |ks, m| {
            let b: DryocSecretBox<HA<16>, HeapBytes> = DryocSecretBox::encrypt(&heap(m), &HA::<24>::from(&ks.n), &HA::<32>::from(&ks.k));
            b.to_bytes::<HeapBytes>().as_slice().to_vec()
        }),
        ("DryocSecretBox::encrypt[locked containers]", Fam::Sb, |ks, m| {
            let b: dryoc::dryocsecretbox::protected::LockedBox = DryocSecretBox::encrypt(&lbytes(m), &lkro(&ks.n), &lk(&ks.k));
            b.to_bytes::<Locked<HeapBytes>>().as_slice().to_vec()
        }),
        ("DryocBox::encrypt[heap containers]", Fam::Bx, |ks, m| {
            let b: DryocBox<HA<32>, HA<16>, HeapBytes> = DryocBox::encrypt(&heap(m), &HA::<24>::from(&ks.n), &HA::<32>::from(&ks.pk_b), &HA::<32>::from(&ks.sk_a)).unwrap();
            b.to_vec()
        }),
        ("DryocBox::encrypt[locked containers]", Fam::Bx, |ks, m| {
            let b: dryoc::dryocbox::protected::LockedBox = DryocBox::encrypt(&lbytes(m), &lk(&ks.n), &lkro(&ks.pk_b), &lk(&ks.sk_a)).unwrap();
            b.to_bytes::<Locked<HeapBytes>>().as_slice().to_vec()
        }),
        ("DryocBox::precalc_encrypt[PrecalcSecretKey::precalculate_locked]", Fam::Bx, |ks, m| {
            let pre = PrecalcSecretKey::precalculate_locked(&ks.pk_b, &lk(&ks.sk_a)).unwrap();
            let b: DryocBox<HA<32>, HA<16>, HeapBytes> = DryocBox::precalc_encrypt(m, &ks.n, &pre).unwrap();
            b.to_vec()
        }),
        ("DryocBox::precalc_encrypt[PrecalcSecretKey::precalculate_readonly_locked]", Fam::Bx, |ks, m| {
            let pre = PrecalcSecretKey::precalculate_readonly_locked(&ks.pk_b, &ks.sk_a).unwrap();
            let b: dryoc::dryocbox::protected::LockedBox = DryocBox::precalc_encrypt(m, &ks.n, &pre).unwrap();
            b.to_vec()
        }),
        ("DryocBox::precalc_encrypt[KeyPair::precalculate_locked]", Fam::Bx, |ks, m| {
            let kp: LKP = KeyPair { public_key: lk(&ks.pk_a), secret_key: lk(&ks.sk_a) };
            let pre = kp.precalculate_locked(&ks.pk_b).unwrap();
            let b: dryoc::dryocbox::VecBox = DryocBox::precalc_encrypt_to_vecbox(m, &BN::from(&ks.n), &pre).unwrap();
            b.to_vec()
        }),
        ("DryocBox::seal[heap containers]", Fam::Seal, |ks, m| {
            with_esk(ks.esk, || {
                let b: DryocBox<HA<32>, HA<16>, HeapBytes> = DryocBox::seal(&heap(m), &HA::<32>::from(&ks.pk_b)).unwrap();
                b.to_vec()
            })
        }),
        ("DryocBox::seal[locked containers]", Fam::Seal, |ks, m| {
            with_esk(ks.esk, || {
                let b: dryoc::dryocbox::protected::LockedBox = DryocBox::seal(&lbytes(m), &lk(&ks.pk_b)).unwrap();
                b.to_vec()
            })
        }),
    ];

    pub const OPEN_N: &[(&str, Fam, OpenFn)] = &[
        ("DryocSecretBox::from_bytes->decrypt[heap containers]", Fam::Sb, |ks, w, _| {
            object(|| {
                let b: DryocSecretBox<HA<16>, HeapBytes> = DryocSecretBox::from_bytes(w)?;
                let o: HeapBytes = b.decrypt(&HA::<24>::from(&ks.n), &HA::<32>::from(&ks.k))?;
                Ok(o.as_slice().to_vec())
            })
        }),
        ("DryocSecretBox::from_parts->decrypt[locked containers]", Fam::Sb, |ks, w, _| {
            if w.len() < 16 {
                return na();
            }
            object(|| {
                let b: dryoc::dryocsecretbox::protected::LockedBox = DryocSecretBox::from_parts(lk(&mac16(w)), lbytes(&w[16..]));
                let o: Locked<HeapBytes> = b.decrypt(&lk(&ks.n), &lkro(&ks.k))?;
                Ok(o.as_slice().to_vec())
            })
        }),
        ("DryocBox::from_bytes->decrypt[heap containers]", Fam::Bx, |ks, w, _| {
            object(|| {
                let b: DryocBox<HA<32>, HA<16>, HeapBytes> = DryocBox::from_bytes(w)?;
                let o: HeapBytes = b.decrypt(&HA::<24>::from(&ks.n), &HA::<32>::from(&ks.pk_a), &HA::<32>::from(&ks.sk_b))?;
                Ok(o.as_slice().to_vec())
            })
        }),
        ("DryocBox::from_parts->decrypt[locked containers]", Fam::Bx, |ks, w, _| {
            if w.len() < 16 {
                return na();
            }
            object(|| {
                let b: dryoc::dryocbox::protected::LockedBox = DryocBox::from_parts(lk(&mac16(w)), lbytes(&w[16..]), None);
                let o: Locked<HeapBytes> = b.decrypt(&ks.n, &lk(&ks.pk_a), &lkro(&ks.sk_b))?;
                Ok(o.as_slice().to_vec())
            })
        }),
        ("DryocBox::from_bytes->precalc_decrypt[precalculate_locked]", Fam::Bx, |ks, w, _| {
            object(|| {
                let b: DryocBox<HA<32>, HA<16>, HeapBytes> = DryocBox::from_bytes(w)?;
                let pre = PrecalcSecretKey::precalculate_locked(&ks.pk_a, &ks.sk_b).map_err(dryoc::Error::from)?;
                let o: HeapBytes = b.precalc_decrypt(&ks.n, &pre)?;
                Ok(o.as_slice().to_vec())
            })
        }),
        ("DryocBox::from_sealed_bytes->unseal[heap containers]", Fam::Seal, |ks, w, _| {
            object(|| {
                let b: DryocBox<HA<32>, HA<16>, HeapBytes> = DryocBox::from_sealed_bytes(w)?;
                let kp: KeyPair<HA<32>, HA<32>> = KeyPair::from_slices(&ks.pk_b, &ks.sk_b)?;
                let o: HeapBytes = b.unseal(&kp)?;
                Ok(o.as_slice().to_vec())
            })
        }),
        ("DryocBox::from_parts->unseal[locked containers]", Fam::Seal, |ks, w, _| {
            if w.len() < 48 {
                return na();
            }
            object(|| {
                let epk: [u8; 32] = w[..32].try_into().unwrap();
                let tag: [u8; 16] = w[32..48].try_into().unwrap();
                let b: dryoc::dryocbox::protected::LockedBox = DryocBox::from_parts(lk(&tag), lbytes(&w[48..]), Some(lk(&epk)));
                let kp: LKP = KeyPair { public_key: lk(&ks.pk_b), secret_key: lk(&ks.sk_b) };
                let o: Locked<HeapBytes> = b.unseal(&kp)?;
                Ok(o.as_slice().to_vec())
            })
        }),
    ];
}
