#![cfg_attr(feature = "nightly", feature(allocator_api))]
mod core;
mod sodium;
mod aead;
mod c01;
mod c02;
mod c03;
mod c04;
mod c05;
mod c06;
mod c07;
mod c08;
mod c09;
mod c10;
mod c11;
mod c12;
mod c13;
mod c16;
mod probe;
mod purity;
#[cfg(feature = "nightly")]
mod pm;

use serde_json::Value;

#[global_allocator]
static GLOBAL: c04::CountingAlloc = c04::CountingAlloc;

fn replay(path: &str) -> i32 {
    sodium::init();
    core::quiet_panics();
    let text = std::fs::read_to_string(path).expect("cannot read replay file");
    let v: Value = serde_json::from_str(&text).expect("replay file is not JSON");
    let check = v["check"].as_str().unwrap_or("");
    let prop = v["property"].as_str().unwrap_or("?");
    let run = |case: &Value| -> Option<String> {
        match check {
            "C01.aead" => c01::replay(case),
            "C02.fault" => c02::replay(case),
            "C05.x25519" => c05::replay(case),
            "C06.ed25519" => c06::replay(case),
            "C07.prim" => c07::replay(case),
            "C08.chunk" => c08::replay(case),
            "C12.kdf" => c12::replay(case),
            "C09.argon2" => c09::replay(case),
            "C10.str" => c10::replay(case),
            "C11.rng" => c11::replay(case),
            "C13.keys" => c13::replay(case),
            "C04.total" => c04::replay(case),
            "C16.codec" => {
                println!("C16 cases are deterministic table cells: re-running the whole check");
                std::process::exit(c16::run());
            }
            "C03.model" => c03::replay_model(case),
            "C03.sweep" => c03::replay_sweep(case),
            #[cfg(feature = "nightly")]
            "C14.pm" | "C15.pm" | "C19.pm" => pm::replay(case),
            c if c.ends_with(".harness") => {
                println!("the recorded violation has no smaller replay unit (a deterministic section or a panic outside the guards): re-running the whole check {}", prop);
                std::process::exit(match std::panic::catch_unwind(|| dispatch(&[String::new(), prop.to_string()])) {
                    Ok(code) => code,
                    Err(_) => {
                        println!("replay reproduces: panic outside guard");
                        println!("VIOLATION property={} replay={}", prop, path);
                        1
                    }
                });
            }
            _ => {
                println!("MACHINERY-ERROR unknown replay check '{}'", check);
                std::process::exit(2);
            }
        }
    };
    let a = run(&v["case"]);
    let b = run(&v["case"]);
    if a != b {
        println!("MACHINERY-ERROR replay diverged between two executions: {:?} vs {:?}", a, b);
        return 2;
    }
    match a {
        Some(obs) => {
            println!("replay reproduces: {}", obs);
            println!("VIOLATION property={} replay={}", prop, path);
            1
        }
        None => {
            println!("replay does not reproduce a violation on this tree (property {})", prop);
            0
        }
    }
}

fn main() {
    let args: Vec<String> = std::env::args().collect();
    if args.len() < 2 {
        eprintln!("usage: mc <C01..C20> | replay <file>");
        std::process::exit(2);
    }
    // A panic that escapes a check's own guards while it drives the crate is the subject
    // misbehaving in a place the harness did not expect to fail: report it as a violation of the
    // property being checked (exit 1 with a replay note) instead of dying with exit 101.
    let is_check = args[1].len() == 3 && args[1].starts_with('C');
    if is_check {
        let a1 = args[1].clone();
        let msg_slot: std::sync::Arc<std::sync::Mutex<Option<String>>> = Default::default();
        let r = std::panic::catch_unwind(move || dispatch(&[String::new(), a1]));
        match r {
            Ok(code) => std::process::exit(code),
            Err(e) => {
                let msg = e.downcast_ref::<&str>().map(|s| s.to_string()).or_else(|| e.downcast_ref::<String>().cloned()).unwrap_or_else(|| "panic (non-string payload)".into());
                let _ = msg_slot;
                let prop = &args[1];
                let f = core::Fail { check: format!("{}.harness", prop), signature: format!("{}/panic-outside-guard", prop), what: format!("the crate panicked in a call the harness does not expect to fail: {}", msg), case: serde_json::json!({"note": "re-run bin/check to reproduce"}) };
                let path = core::write_replay(prop, &f);
                println!("  violation [{}] {}", f.signature, f.what);
                println!("VIOLATION property={} replay={}", prop, path.display());
                std::process::exit(1);
            }
        }
    }
    let code = dispatch(&args);
    std::process::exit(code);
}

fn dispatch(args: &[String]) -> i32 {
    let code = match args[1].as_str() {
        "replay" => replay(&args[2]),
        "C01" => c01::run(),
        "C02" => c02::run(c02::Mode::Tamper),
        "C17" => c02::run(c02::Mode::Leak),
        "C03" => c03::run(),
        "C04" => c04::run(),
        "c04worker" => c04::worker(&args[2..]),
        "C05" => c05::run(),
        "C06" => c06::run(),
        "C07" => c07::run(),
        "C08" => c08::run(),
        "C09" => c09::run(),
        "C10" => c10::run(),
        "C11" => c11::run(),
        "C12" => c12::run(),
        "C13" => c13::run(),
        "C16" => c16::run(),
        "probe" => probe::run(&args[2..]),
        #[cfg(feature = "nightly")]
        "pmworker" => pm::worker(&args[2..]),
        #[cfg(feature = "nightly")]
        "C14" => pm::run_c14(),
        #[cfg(feature = "nightly")]
        "C15" => pm::run_c15(),
        #[cfg(feature = "nightly")]
        "C19" => pm::run_c19(),
        other => {
            eprintln!("unknown check {}", other);
            2
        }
    };
    code
}
