//! C01 — authenticated encryption round-trips and is byte-compatible with libsodium (E-prod).

use crate::aead::*;
use crate::core::*;
use crate::sodium;
use serde_json::{json, Value};

fn lens(tier: Tier) -> Vec<usize> {
    let mut v: Vec<usize> = match tier {
        Tier::Quick => (0..=1500).collect(),
        Tier::Thorough => (0..=4100).collect(),
    };
    match tier {
        Tier::Quick => v.extend([2047, 2048, 2049, 4095, 4096, 4097, 16385]),
        Tier::Thorough => v.extend([16383, 16384, 16385, 65535, 65536, 65537, (1 << 20) + 1]),
    }
    v
}

fn key_sets(f: Fam) -> Vec<(usize, usize)> {
    match f {
        Fam::Sb => (0..5).flat_map(|k| (0..5).map(move |n| (k, n))).collect(),
        _ => vec![(2, 2), (2, 3), (3, 1), (4, 0)],
    }
}

fn check_enc(name: &str, fam: Fam, ks: &Keys, m: &[u8]) -> Option<(String, String)> {
    let e = enc_by_name(name).unwrap();
    let r = guarded(std::panic::AssertUnwindSafe(|| (e.2)(ks, m)));
    let wire = match r {
        Err(p) => return Some(("panic".into(), format!("encrypt form panicked: {}", p))),
        Ok(w) => w,
    };
    let want = ref_wire(fam, ks, m);
    if wire != want {
        let first = wire.iter().zip(want.iter()).position(|(a, b)| a != b).unwrap_or(wire.len().min(want.len()));
        return Some(("bytes-differ".into(), format!("output differs from libsodium at byte {} (len dryoc {} / sodium {})", first, wire.len(), want.len())));
    }
    None
}

fn check_open(name: &str, ks: &Keys, wire: &[u8], m: &[u8]) -> Option<(String, String)> {
    let o = open_by_name(name).unwrap();
    let out = (o.2)(ks, wire, SENTINEL);
    match out.v {
        Verdict::Ok(ref got) if got == m => None,
        Verdict::Ok(_) => Some(("wrong-message".into(), "open returned Ok with a message different from the original".into())),
        Verdict::Err => Some(("rejected-genuine".into(), "open rejected a genuine libsodium ciphertext".into())),
        Verdict::Panic(p) => Some(("panic".into(), format!("open panicked: {}", p))),
        Verdict::NA => None,
    }
}

pub fn replay(case: &Value) -> Option<String> {
    let ks = Keys::from_json(&case["keys"]);
    let m = unhx(&case["msg"]);
    let name = case["form"].as_str().unwrap();
    let r = if case["kind"] == "enc" {
        let fam = enc_by_name(name).unwrap().1;
        check_enc(name, fam, &ks, &m)
    } else {
        let fam = open_by_name(name).unwrap().1;
        let wire = ref_wire(fam, &ks, &m);
        check_open(name, &ks, &wire, &m)
    };
    r.map(|(c, d)| format!("{}: {}", c, d))
}

pub fn run() -> i32 {
    sodium::init();
    quiet_panics();
    let mut ctx = Ctx::new("C01", "exploration");
    let seed = ctx.seed;
    let lens = lens(ctx.tier);
    ctx.rule = format!("full product: every encrypt form ({} forms: classic combined/detached/in-place, precomputed, sealed, object API with stack and Vec containers) x key/nonce alphabet (5x5 for secret-key forms, 4 pairs for public-key forms) x every message length ({} lengths) x 4 content classes, bytes compared with libsodium; every open form ({} forms) on the libsodium-made ciphertext of every cell must return the message; libsodium must open dryoc's output; sealed boxes additionally with the real RNG, cross-opened both ways; heap container forms (nightly build) on the reduced grid lengths 0..=130 + {{1023..1025, 4095..4097}} x 1 key set x 2 contents, locked container forms (several mlock calls each) on lengths {{0,1,15,16,17,63,64,65,128,1024,4097}}; non-trivial = cell executed in both implementations (all)", enc_all().len(), lens.len(), open_all().len());
    ctx.assume("libsodium 1.0.18 is the reference; key/nonce/message VALUES outside the stated alphabets are not covered, lengths and forms are covered completely up to the bound");
    ctx.assume("sealed-box ephemeral key is pinned through RNG seam H3 for the exact-bytes comparison");

    // encrypt forms
    let mut units: Vec<(usize, usize, usize)> = vec![];
    for (i, e) in enc_all().iter().enumerate() {
        for (k, n) in key_sets(e.1) {
            units.push((i, k, n));
        }
    }
    let st = par_units(&units, |&(i, ki, ni), st| {
        let (name, fam, _) = enc_all()[i];
        let ks = Keys::make(seed, ki, ni);
        let heavy = is_heavy(name);
        if heavy && (ki, ni) != key_sets(fam)[0] {
            return;
        }
        for &len in &lens {
            if heavy && !(len <= 130 || [1023usize, 1024, 1025, 4095, 4096, 4097].contains(&len)) {
                continue;
            }
            if weight(name) == 2 && ![0usize, 1, 15, 16, 17, 63, 64, 65, 128, 1024, 4097].contains(&len) {
                continue;
            }
            let contents = if len > 70000 { 1 } else if heavy { 2 } else { 4 };
            for ci in 0..contents {
                let m = cval(seed, ci, len);
                let r = check_enc(name, fam, &ks, &m);
                st.eval(&(0u8, i, ki, ni, len, ci), true, if r.is_none() { "enc==libsodium" } else { "enc-disagrees" });
                if let Some((class, d)) = r {
                    st.fail(Fail {
                        check: "C01.aead".into(),
                        signature: format!("C01/{}/{}/{}", fam_name(fam), name, class),
                        what: format!("{} len {} content {} key {} nonce {}: {}", name, len, C_NAMES[ci], K_NAMES[ki], K_NAMES[ni], d),
                        case: json!({"kind": "enc", "form": name, "keys": ks.json(), "msg": hx(&m)}),
                    });
                }
            }
        }
        if i == 0 && ki == 2 && ni == 3 {
            st.sample(json!({"form": name, "key": K_NAMES[ki], "nonce": K_NAMES[ni], "lengths": format!("{} lengths, first {:?}", lens.len(), &lens[..5]), "contents": C_NAMES}));
        }
    });
    ctx.absorb("encrypt-forms", st);

    // open forms on libsodium-made ciphertexts + libsodium opens dryoc's
    let mut units: Vec<(usize, usize, usize)> = vec![];
    for (i, o) in open_all().iter().enumerate() {
        for (k, n) in key_sets(o.1) {
            units.push((i, k, n));
        }
    }
    let st = par_units(&units, |&(i, ki, ni), st| {
        let (name, fam, _) = open_all()[i];
        let ks = Keys::make(seed, ki, ni);
        let heavy = is_heavy(name);
        if heavy && (ki, ni) != key_sets(fam)[0] {
            return;
        }
        for &len in &lens {
            if heavy && !(len <= 130 || [1023usize, 1024, 1025, 4095, 4096, 4097].contains(&len)) {
                continue;
            }
            if weight(name) == 2 && ![0usize, 1, 15, 16, 17, 63, 64, 65, 128, 1024, 4097].contains(&len) {
                continue;
            }
            let contents = if len > 70000 { 1 } else if heavy { 2 } else { 4 };
            for ci in 0..contents {
                let m = cval(seed, ci, len);
                let wire = ref_wire(fam, &ks, &m);
                let r = check_open(name, &ks, &wire, &m);
                st.eval(&(1u8, i, ki, ni, len, ci), true, if r.is_none() { "open-ok" } else { "open-disagrees" });
                if let Some((class, d)) = r {
                    st.fail(Fail {
                        check: "C01.aead".into(),
                        signature: format!("C01/{}/{}/{}", fam_name(fam), name, class),
                        what: format!("{} len {} content {}: {}", name, len, C_NAMES[ci], d),
                        case: json!({"kind": "open", "form": name, "keys": ks.json(), "msg": hx(&m)}),
                    });
                }
            }
        }
        if i == 2 && ki == 2 {
            st.sample(json!({"open_form": name, "on": "libsodium-made ciphertext", "lengths": lens.len()}));
        }
    });
    ctx.absorb("open-forms", st);

    // libsodium opens dryoc's output (first encrypt form of each family), and sealed boxes with
    // the real RNG in both directions
    let fams = [Fam::Sb, Fam::Bx, Fam::Seal];
    let units: Vec<(usize, usize)> = (0..3).flat_map(|f| (0..lens.len()).map(move |l| (f, l))).collect();
    let st = par_units(&units, |&(fi, li), st| {
        let fam = fams[fi];
        let len = lens[li];
        if len > 70000 {
            return;
        }
        let ks = Keys::make(seed, 3, 2);
        let m = cval(seed, 3, len);
        for e in enc_all().iter().filter(|e| e.1 == fam) {
            if is_heavy(e.0) && (len > 130 || (weight(e.0) == 2 && len % 16 > 1)) {
                continue;
            }
            let wire = (e.2)(&ks, &m);
            let ok = ref_open(fam, &ks, &wire).as_deref() == Some(&m[..]);
            st.eval(&(2u8, e.0, len), true, if ok { "sodium-opens-dryoc" } else { "sodium-rejects-dryoc" });
            if !ok {
                st.fail(Fail {
                    check: "C01.aead".into(),
                    signature: format!("C01/{}/{}/sodium-rejects", fam_name(fam), e.0),
                    what: format!("libsodium does not open the output of {} (len {})", e.0, len),
                    case: json!({"kind": "enc", "form": e.0, "keys": ks.json(), "msg": hx(&m)}),
                });
            }
        }
        if fam == Fam::Seal {
            // real RNG, dryoc seals -> libsodium opens
            let mut c = vec![0u8; len + 48];
            dryoc::classic::crypto_box::crypto_box_seal(&mut c, &m, &ks.pk_b).unwrap();
            let ok1 = sodium::box_seal_open(&c, &ks.pk_b, &ks.sk_b).as_deref() == Some(&m[..]);
            // libsodium seals -> every dryoc unseal form opens
            let w = sodium::box_seal(&m, &ks.pk_b);
            let mut ok2 = true;
            for o in open_all().iter().filter(|o| o.1 == Fam::Seal) {
                if check_open(o.0, &ks, &w, &m).is_some() {
                    ok2 = false;
                }
            }
            st.eval(&(3u8, len), true, if ok1 && ok2 { "seal-real-rng-cross-open" } else { "seal-real-rng-failed" });
            if !(ok1 && ok2) {
                st.fail(Fail {
                    check: "C01.aead".into(),
                    signature: "C01/sealedbox/real-rng-cross-open".into(),
                    what: format!("sealed box with internally chosen ephemeral key does not cross-open (dryoc->sodium {}, sodium->dryoc {}) at len {}", ok1, ok2, len),
                    case: json!({"kind": "enc", "form": "box_seal", "keys": ks.json(), "msg": hx(&m)}),
                });
            }
        }
    });
    ctx.absorb("cross-open", st);
    ctx.require_outcome("enc==libsodium");
    ctx.require_outcome("open-ok");
    ctx.require_outcome("seal-real-rng-cross-open");
    ctx.finish()
}
