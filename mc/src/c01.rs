//! C01 — authenticated encryption round-trips and is byte-compatible with libsodium (E-prod).

use crate::aead::*;
use crate::core::*;
use crate::sodium;
use serde_json::{json, Value};

fn lens(tier: Tier) -> Vec<usize> {
    let mut v: Vec<usize> = match tier {
        Tier::Quick => (0..=1500).collect(),
        Tier::Thorough => (0..=4100).collect(),
    };
    match tier {
        Tier::Quick => v.extend([2047, 2048, 2049, 4095, 4096, 4097, 16385]),
        Tier::Thorough => v.extend([16383, 16384, 16385, 65535, 65536, 65537, (1 << 20) + 1]),
    }
    v
}

fn key_sets(f: Fam) -> Vec<(usize, usize)> {
    match f {
        Fam::Sb => (0..5).flat_map(|k| (0..5).map(move |n| (k, n))).collect(),
        _ => vec![(2, 2), (2, 3), (3, 1), (4, 0)],
    }
}

fn check_enc(name: &str, fam: Fam, ks: &Keys, m: &[u8]) -> Option<(String, String)> {
    let e = enc_by_name(name).unwrap();
    let r = guarded(std::panic::AssertUnwindSafe(|| (e.2)(ks, m)));
    let wire = match r {
        Err(p) => return Some(("panic".into(), format!("encrypt form panicked: {}", p))),
        Ok(w) => w,
    };
    let want = ref_wire(fam, ks, m);
    if wire != want {
        let first = wire.iter().zip(want.iter()).position(|(a, b)| a != b).unwrap_or(wire.len().min(want.len()));
        return Some(("bytes-differ".into(), format!("output differs from libsodium at byte {} (len dryoc {} / sodium {})", first, wire.len(), want.len())));
    }
    None
}

fn check_open(name: &str, ks: &Keys, wire: &[u8], m: &[u8]) -> Option<(String, String)> {
    let o = open_by_name(name).unwrap();
    let out = (o.2)(ks, wire, SENTINEL);
    match out.v {
        Verdict::Ok(ref got) if got == m => None,
        Verdict::Ok(_) => Some(("wrong-message".into(), "open returned Ok with a message different from the original".into())),
        Verdict::Err => Some(("rejected-genuine".into(), "open rejected a genuine libsodium ciphertext".into())),
        Verdict::Panic(p) => Some(("panic".into(), format!("open panicked: {}", p))),
        Verdict::NA => None,
    }
}

pub fn replay(case: &Value) -> Option<String> {
    let ks = Keys::from_json(&case["keys"]);
    let m = unhx(&case["msg"]);
    let name = case["form"].as_str().unwrap();
    let r = if case["kind"] == "enc" {
        let fam = enc_by_name(name).unwrap().1;
        check_enc(name, fam, &ks, &m)
    } else {
        let fam = open_by_name(name).unwrap().1;
        let wire = ref_wire(fam, &ks, &m);
        check_open(name, &ks, &wire, &m)
    };
    r.map(|(c, d)| format!("{}: {}", c, d))
}

pub fn run() -> i32 {
    sodium::init();
    quiet_panics();
    let mut ctx = Ctx::new("C01", "exploration");
    let seed = ctx.seed;
    let lens = lens(ctx.tier);
    ctx.rule = format!("full product: every encrypt form ({} forms: classic combined/detached/in-place, precomputed, sealed, object API with stack and Vec containers) x key/nonce alphabet (5x5 for secret-key forms, 4 pairs for public-key forms) x every message length ({} lengths) x 4 content classes, bytes compared with libsodium; every open form ({} forms) on the libsodium-made ciphertext of every cell must return the message; libsodium must open dryoc's output; four constructed secret-key inputs whose genuine tag is 0^16, ff^16, 1 and 2^127 through every secret-box and precomputed-key form; sealed boxes additionally with the real RNG, cross-opened both ways; all 13 824 sequences of 3 public-key operations over 6 operations x 2 local keys x 2 peers, each on a fresh thread, every result checked against libsodium; heap container forms (nightly build) on the reduced grid lengths 0..=130 + {{1023..1025, 4095..4097}} x 1 key set x 2 contents, locked container forms (several mlock calls each) on lengths {{0,1,15,16,17,63,64,65,128,1024,4097}}; non-trivial = cell executed in both implementations (all)", enc_all().len(), lens.len(), open_all().len());
    ctx.assume("libsodium 1.0.18 is the reference; key/nonce/message VALUES outside the stated alphabets are not covered, lengths and forms are covered completely up to the bound");
    ctx.assume("sealed-box ephemeral key is pinned through RNG seam H3 for the exact-bytes comparison");

    // encrypt forms
    let mut units: Vec<(usize, usize, usize)> = vec![];
    for (i, e) in enc_all().iter().enumerate() {
        for (k, n) in key_sets(e.1) {
            units.push((i, k, n));
        }
    }
    let st = par_units(&units, |&(i, ki, ni), st| {
        let (name, fam, _) = enc_all()[i];
        let ks = Keys::make(seed, ki, ni);
        let heavy = is_heavy(name);
        if heavy && (ki, ni) != key_sets(fam)[0] {
            return;
        }
        for &len in &lens {
            if heavy && !(len <= 130 || [1023usize, 1024, 1025, 4095, 4096, 4097].contains(&len)) {
                continue;
            }
            if weight(name) == 2 && ![0usize, 1, 15, 16, 17, 63, 64, 65, 128, 1024, 4097].contains(&len) {
                continue;
            }
            let contents = if len > 70000 { 1 } else if heavy { 2 } else { 4 };
            for ci in 0..contents {
                let m = cval(seed, ci, len);
                let r = check_enc(name, fam, &ks, &m);
                st.eval(&(0u8, i, ki, ni, len, ci), true, if r.is_none() { "enc==libsodium" } else { "enc-disagrees" });
                if let Some((class, d)) = r {
                    st.fail(Fail {
                        check: "C01.aead".into(),
                        signature: format!("C01/{}/{}/{}", fam_name(fam), name, class),
                        what: format!("{} len {} content {} key {} nonce {}: {}", name, len, C_NAMES[ci], K_NAMES[ki], K_NAMES[ni], d),
                        case: json!({"kind": "enc", "form": name, "keys": ks.json(), "msg": hx(&m)}),
                    });
                }
            }
        }
        if i == 0 && ki == 2 && ni == 3 {
            st.sample(json!({"form": name, "key": K_NAMES[ki], "nonce": K_NAMES[ni], "lengths": format!("{} lengths, first {:?}", lens.len(), &lens[..5]), "contents": C_NAMES}));
        }
    });
    ctx.absorb("encrypt-forms", st);

    // open forms on libsodium-made ciphertexts + libsodium opens dryoc's
    let mut units: Vec<(usize, usize, usize)> = vec![];
    for (i, o) in open_all().iter().enumerate() {
        for (k, n) in key_sets(o.1) {
            units.push((i, k, n));
        }
    }
    let st = par_units(&units, |&(i, ki, ni), st| {
        let (name, fam, _) = open_all()[i];
        let ks = Keys::make(seed, ki, ni);
        let heavy = is_heavy(name);
        if heavy && (ki, ni) != key_sets(fam)[0] {
            return;
        }
        for &len in &lens {
            if heavy && !(len <= 130 || [1023usize, 1024, 1025, 4095, 4096, 4097].contains(&len)) {
                continue;
            }
            if weight(name) == 2 && ![0usize, 1, 15, 16, 17, 63, 64, 65, 128, 1024, 4097].contains(&len) {
                continue;
            }
            let contents = if len > 70000 { 1 } else if heavy { 2 } else { 4 };
            for ci in 0..contents {
                let m = cval(seed, ci, len);
                let wire = ref_wire(fam, &ks, &m);
                let r = check_open(name, &ks, &wire, &m);
                st.eval(&(1u8, i, ki, ni, len, ci), true, if r.is_none() { "open-ok" } else { "open-disagrees" });
                if let Some((class, d)) = r {
                    st.fail(Fail {
                        check: "C01.aead".into(),
                        signature: format!("C01/{}/{}/{}", fam_name(fam), name, class),
                        what: format!("{} len {} content {}: {}", name, len, C_NAMES[ci], d),
                        case: json!({"kind": "open", "form": name, "keys": ks.json(), "msg": hx(&m)}),
                    });
                }
            }
        }
        if i == 2 && ki == 2 {
            st.sample(json!({"open_form": name, "on": "libsodium-made ciphertext", "lengths": lens.len()}));
        }
    });
    ctx.absorb("open-forms", st);

    // libsodium opens dryoc's output (first encrypt form of each family), and sealed boxes with
    // the real RNG in both directions
    let fams = [Fam::Sb, Fam::Bx, Fam::Seal];
    let units: Vec<(usize, usize)> = (0..3).flat_map(|f| (0..lens.len()).map(move |l| (f, l))).collect();
    let st = par_units(&units, |&(fi, li), st| {
        let fam = fams[fi];
        let len = lens[li];
        if len > 70000 {
            return;
        }
        let ks = Keys::make(seed, 3, 2);
        let m = cval(seed, 3, len);
        for e in enc_all().iter().filter(|e| e.1 == fam) {
            if is_heavy(e.0) && (len > 130 || (weight(e.0) == 2 && len % 16 > 1)) {
                continue;
            }
            let wire = (e.2)(&ks, &m);
            let ok = ref_open(fam, &ks, &wire).as_deref() == Some(&m[..]);
            st.eval(&(2u8, e.0, len), true, if ok { "sodium-opens-dryoc" } else { "sodium-rejects-dryoc" });
            if !ok {
                st.fail(Fail {
                    check: "C01.aead".into(),
                    signature: format!("C01/{}/{}/sodium-rejects", fam_name(fam), e.0),
                    what: format!("libsodium does not open the output of {} (len {})", e.0, len),
                    case: json!({"kind": "enc", "form": e.0, "keys": ks.json(), "msg": hx(&m)}),
                });
            }
        }
        if fam == Fam::Seal {
            // real RNG, dryoc seals -> libsodium opens
            let mut c = vec![0xC3u8; len + 48];
            dryoc::classic::crypto_box::crypto_box_seal(&mut c, &m, &ks.pk_b).unwrap();
            let ok1 = sodium::box_seal_open(&c, &ks.pk_b, &ks.sk_b).as_deref() == Some(&m[..]);
            // libsodium seals -> every dryoc unseal form opens
            let w = sodium::box_seal(&m, &ks.pk_b);
            let mut ok2 = true;
            for o in open_all().iter().filter(|o| o.1 == Fam::Seal) {
                if check_open(o.0, &ks, &w, &m).is_some() {
                    ok2 = false;
                }
            }
            st.eval(&(3u8, len), true, if ok1 && ok2 { "seal-real-rng-cross-open" } else { "seal-real-rng-failed" });
            if !(ok1 && ok2) {
                st.fail(Fail {
                    check: "C01.aead".into(),
                    signature: "C01/sealedbox/real-rng-cross-open".into(),
                    what: format!("sealed box with internally chosen ephemeral key does not cross-open (dryoc->sodium {}, sodium->dryoc {}) at len {}", ok1, ok2, len),
                    case: json!({"kind": "enc", "form": "box_seal", "keys": ks.json(), "msg": hx(&m)}),
                });
            }
        }
    });
    ctx.absorb("cross-open", st);
    // authentication tags with special values (all-zero, all-ones, one, 2^127): secret-key inputs
    // solved offline (pure-Python XSalsa20/Poly1305, tools/special_tag_vectors.py) so that the
    // genuine tag is that value; libsodium confirms the tag at run time. Every secret-box form and
    // every precomputed-key box form must produce exactly these bytes and open them.
    {
        let vectors: [(&str, &str, &str, [u8; 16]); 4] = [
            ("zero", "0e0f101112131415161718191a1b1c1d1e1f202122232425", "4b114e2022a8c1c2aa0ff5c512e4e3e9", [0u8; 16]),
            ("ones", "0708090a0b0c0d0e0f101112131415161718191a1b1c1d1e", "e86abba30cabe6d40365674f9d5cf097", [0xffu8; 16]),
            ("one", "0e0f101112131415161718191a1b1c1d1e1f202122232425", "a115698e7d8667552b239fb47c1eaabf", { let mut t = [0u8; 16]; t[0] = 1; t }),
            ("top", "0708090a0b0c0d0e0f101112131415161718191a1b1c1d1e", "2492c4ab363e807b63c192c9eb229b36", { let mut t = [0u8; 16]; t[15] = 0x80; t }),
        ];
        let mut st = Stats::new();
        for (name, nhex, mhex, tag) in vectors {
            let mut ks = Keys::make(seed, 3, 1);
            ks.k = std::array::from_fn(|i| i as u8 + 1);
            ks.pre = ks.k;
            ks.n = unhx(&json!(nhex)).try_into().unwrap();
            let m = unhx(&json!(mhex));
            let wire = sodium::secretbox_easy(&m, &ks.n, &ks.k);
            if wire[..16] != tag {
                println!("MACHINERY-ERROR property=C01 special-tag vector '{}' does not produce the intended tag under libsodium", name);
                return 2;
            }
            for e in enc_all().iter().filter(|e| e.1 == Fam::Sb || (uses_pre(e.0) && !e.0.contains("beforenm"))) {
                if weight(e.0) == 2 && name != "zero" {
                    continue;
                }
                let out = guarded(std::panic::AssertUnwindSafe(|| (e.2)(&ks, &m)));
                let ok = out.as_ref().map(|o| o == &wire).unwrap_or(false);
                st.eval(&("special-tag-enc", name, e.0), true, if ok { "bytes==libsodium" } else { "bytes-differ" });
                if !ok {
                    st.fail(Fail { check: "C01.aead".into(), signature: format!("C01/{}/{}/special-tag", fam_name(e.1), e.0), what: format!("{} on the input whose genuine tag is {}: output differs from libsodium: {:?}", e.0, hx(&tag), out.map(|o| short(&o))), case: json!({"kind": "enc", "form": e.0, "keys": ks.json(), "msg": hx(&m)}) });
                }
            }
            for o in open_all().iter().filter(|o| o.1 == Fam::Sb || (uses_pre(o.0) && !o.0.contains("beforenm"))) {
                if weight(o.0) == 2 && name != "zero" {
                    continue;
                }
                let out = (o.2)(&ks, &wire, SENTINEL);
                let ok = matches!(&out.v, Verdict::Ok(g) if g.len() >= m.len() && g[..m.len()] == m[..]);
                st.eval(&("special-tag-open", name, o.0), true, if ok { "opened==message" } else { "open-failed" });
                if !ok {
                    st.fail(Fail { check: "C01.aead".into(), signature: format!("C01/{}/{}/special-tag/rejected-genuine", fam_name(o.1), o.0), what: format!("{} on the genuine box whose tag is {}: {:?}", o.0, hx(&tag), out.v), case: json!({"kind": "open", "form": o.0, "keys": ks.json(), "msg": hx(&m)}) });
                }
            }
        }
        ctx.absorb("special-tags", st);
    }
    // key sequences: every sequence of 3 public-key operations over 2 local key pairs x 2 peers x
    // 6 operations, executed on one thread, each result checked against libsodium — exposes state
    // carried from one call to the next (a cached shared key, a reused scratch buffer)
    {
        use dryoc::classic::crypto_box::*;
        let kp: Vec<([u8; 32], [u8; 32])> = (0..4).map(|i| sodium::box_seed_keypair(&karr(seed ^ 0x5e9, i + 1))).collect();
        let nonce: [u8; 24] = karr(seed, 3);
        let msg = cval(seed, 3, 33);
        // action = (op 0..6, local 0..2, peer 2..4)
        let do_op = |op: usize, l: usize, p: usize| -> Result<(), String> {
            let (lpk, lsk) = kp[l];
            let (ppk, psk) = kp[p];
            match op {
                0 => {
                    let mut c = vec![0xC3u8; msg.len() + 16];
                    crypto_box_easy(&mut c, &msg, &nonce, &ppk, &lsk).map_err(|e| format!("{:?}", e))?;
                    if Some(c) != sodium::box_easy(&msg, &nonce, &ppk, &lsk) { return Err("crypto_box_easy bytes differ from libsodium".into()); }
                }
                1 => {
                    let c = sodium::box_easy(&msg, &nonce, &lpk, &psk).unwrap();
                    let mut m = vec![0xC3u8; msg.len()];
                    crypto_box_open_easy(&mut m, &c, &nonce, &ppk, &lsk).map_err(|_| "crypto_box_open_easy rejected a genuine libsodium box".to_string())?;
                    if m != msg { return Err("crypto_box_open_easy returned a wrong message".into()); }
                }
                2 => {
                    let mut c = vec![0xC3u8; msg.len() + 48];
                    crypto_box_seal(&mut c, &msg, &ppk).map_err(|e| format!("{:?}", e))?;
                    if sodium::box_seal_open(&c, &ppk, &psk).as_deref() != Some(&msg[..]) { return Err("libsodium cannot open a dryoc sealed box".into()); }
                }
                3 => {
                    let c = sodium::box_seal(&msg, &lpk);
                    let mut m = vec![0xC3u8; msg.len()];
                    crypto_box_seal_open(&mut m, &c, &lpk, &lsk).map_err(|_| "crypto_box_seal_open rejected a genuine libsodium sealed box".to_string())?;
                    if m != msg { return Err("crypto_box_seal_open returned a wrong message".into()); }
                }
                4 => {
                    let b = dryoc::dryocbox::DryocBox::encrypt_to_vecbox(&msg, &dryoc::dryocbox::Nonce::from(&nonce), &dryoc::dryocbox::PublicKey::from(&ppk), &lsk).map_err(|e| format!("{:?}", e))?;
                    if Some(b.to_vec()) != sodium::box_easy(&msg, &nonce, &ppk, &lsk) { return Err("DryocBox::encrypt bytes differ from libsodium".into()); }
                }
                _ => {
                    let mut d = msg.clone();
                    d.resize(msg.len() + 16, 0);
                    crypto_box_easy_inplace(&mut d, &nonce, &ppk, &lsk).map_err(|e| format!("{:?}", e))?;
                    if Some(d) != sodium::box_easy(&msg, &nonce, &ppk, &lsk) { return Err("crypto_box_easy_inplace bytes differ from libsodium".into()); }
                }
            }
            Ok(())
        };
        let opn = ["box_easy", "box_open_easy", "box_seal", "box_seal_open", "DryocBox::encrypt", "box_easy_inplace"];
        let acts: Vec<(usize, usize, usize)> = (0..6).flat_map(|o| (0..2).flat_map(move |l| (2..4).map(move |p| (o, l, p)))).collect();
        let units: Vec<usize> = (0..acts.len()).collect();
        let st = par_units(&units, |&a0, st| {
            // run on a fresh OS thread so that thread-local state starts empty for every sequence
            for &a1 in &units {
                for &a2 in &units {
                    let seq = [acts[a0], acts[a1], acts[a2]];
                    let r = std::thread::scope(|sc| {
                        sc.spawn(|| {
                            for (i, &(o, l, p)) in seq.iter().enumerate() {
                                if let Err(e) = guarded(std::panic::AssertUnwindSafe(|| do_op(o, l, p))).unwrap_or_else(|p| Err(format!("panic: {}", p))) {
                                    return Some((i, e));
                                }
                            }
                            None
                        })
                        .join()
                        .unwrap()
                    });
                    st.eval(&(3u8, a0, a1, a2), true, if r.is_none() { "key-sequence-ok" } else { "key-sequence-wrong" });
                    if let Some((i, e)) = r {
                        st.fail(Fail {
                            check: "C01.aead".into(),
                            signature: format!("C01/key-sequence/{}", opn[seq[i].0]),
                            what: format!("sequence {:?} (op, local key, peer key): step {} ({}) — {}", seq.iter().map(|x| (opn[x.0], x.1, x.2)).collect::<Vec<_>>(), i + 1, opn[seq[i].0], e),
                            case: json!({"kind": "sequence", "note": "re-run bin/check C01 to reproduce", "sequence": seq.iter().map(|x| json!([opn[x.0], x.1, x.2])).collect::<Vec<_>>(), "form": "box_easy", "keys": Keys::make(seed, 3, 2).json(), "msg": ""}),
                        });
                    }
                }
            }
            if a0 == 5 {
                st.sample(json!({"key_sequence_example": [["box_seal", 0, 2], ["box_seal", 1, 2], ["box_open_easy", 0, 3]], "alphabet": {"operations": opn, "local_keys": 2, "peer_keys": 2}, "length": 3}));
            }
        });
        ctx.absorb("key-sequences", st);
    }
    ctx.require_outcome("enc==libsodium");
    ctx.require_outcome("open-ok");
    ctx.require_outcome("seal-real-rng-cross-open");
    ctx.finish()
}
