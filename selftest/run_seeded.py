#!/usr/bin/env python3
"""Regression of detection: apply every seeded/<id>/patch.diff to /repo, run the checks that meta.json
records as having detected it, require VIOLATION again, restore /repo."""
import json, os, re, subprocess, sys
ROOT="/verif"
ONLY=re.compile(os.environ.get("SEEDS", "."))   # e.g. SEEDS='^C(14|15|19|20)' for a targeted regression
def sh(c): return subprocess.run(c, shell=True, capture_output=True, text=True)
missed=[]; n=0
for d in sorted(os.listdir(f"{ROOT}/seeded")):
    mp=f"{ROOT}/seeded/{d}/meta.json"
    if not os.path.exists(mp) or not ONLY.search(d): continue
    m=json.load(open(mp))
    checks=[c for c,v in m.get("checks_run",{}).items() if v.get("detected")]
    if not checks: checks=[m["property"]]
    r=sh(f"python3 {ROOT}/selftest/run.py {ROOT}/seeded/{d}/patch.diff {' '.join(checks)}")
    try: res=json.loads(r.stdout)
    except Exception: res={"error":r.stdout[-300:]+r.stderr[-300:]}
    det={c:v["detected"] for c,v in res.get("checks",{}).items()}
    n+=1
    print(d, det, res.get("error",""), flush=True)
    for c,v in det.items():
        if not v: missed.append((d,c))
    if res.get("error"): missed.append((d,"error"))
print("SEEDED", n, "MISSED:", missed if missed else "none")
sys.exit(1 if missed else 0)
