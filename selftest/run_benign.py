#!/usr/bin/env python3
"""False-alarm regression: apply every benign/<id>/patch.diff (behaviour-preserving refactor) to /repo,
run ALL quick checks, require exit 0 from each, restore /repo."""
import os, subprocess, sys
ROOT="/verif"
def sh(c): return subprocess.run(c, shell=True, capture_output=True, text=True)
bad=[]
for d in sorted(os.listdir(f"{ROOT}/benign")):
    p=f"{ROOT}/benign/{d}/patch.diff"
    if not os.path.exists(p): continue
    if sh("git -C /repo status --porcelain").stdout.strip(): raise SystemExit("/repo not clean")
    if sh(f"git -C /repo apply {p}").returncode: print(d,"patch does not apply (tree moved on)"); continue
    import shutil, tempfile
    keep=tempfile.mkdtemp(prefix="evidence-keep-", dir=f"{ROOT}/logs"); shutil.copytree(f"{ROOT}/evidence", f"{keep}/evidence")
    try:
        out=sh(f"{ROOT}/tools/run_all.sh quick 0").stdout
    finally:
        sh(f"git -C /repo apply -R {p}"); sh("git -C /repo checkout -- .")
        shutil.rmtree(f"{ROOT}/evidence", ignore_errors=True); shutil.copytree(f"{keep}/evidence", f"{ROOT}/evidence"); shutil.rmtree(keep, ignore_errors=True)
    alarms=[l for l in out.splitlines() if " rc=" in l and " rc=0 " not in l]
    print(d, "alarms:", alarms if alarms else "none", flush=True)
    bad+= [(d,a) for a in alarms]
print("FALSE ALARMS:", bad if bad else "none")
sys.exit(1 if bad else 0)
