#!/usr/bin/env python3
"""Detection self-test: apply a property-breaking patch to /repo, (optionally) confirm the
repository's own pinned suite still passes, run the named quick checks, require VIOLATION,
and ALWAYS restore /repo.   usage: selftest/run.py [--suite] <patch.diff> <C..> [<C..> ...]
       selftest/run.py --table        (runs selftest/table.json)"""
import json, os, subprocess, sys, time

ROOT = "/verif"
def sh(cmd, **kw): return subprocess.run(cmd, shell=True, capture_output=True, text=True, **kw)

def clean():
    sh("git -C /repo checkout -- . ")
    st = sh("git -C /repo status --porcelain").stdout.strip()
    return st

def run_one(patch, checks, suite=False, tier="quick"):
    res = dict(patch=os.path.basename(patch), checks={}, suite=None)
    if sh("git -C /repo status --porcelain").stdout.strip():
        raise SystemExit("/repo is not clean; refusing to run")
    a = sh(f"git -C /repo apply {patch}")
    if a.returncode != 0:
        res["error"] = "patch does not apply: " + a.stderr[-300:]; return res
    # evidence files are rewritten by every run: keep the clean-tree ones aside and put them back
    import shutil, tempfile
    keep = tempfile.mkdtemp(prefix="evidence-keep-", dir=f"{ROOT}/logs")
    shutil.copytree(f"{ROOT}/evidence", f"{keep}/evidence")
    try:
        if suite:
            t = sh("cd /repo && cargo test --workspace --no-fail-fast --offline 2>&1 | grep -E '^test result|FAILED|panicked' | head")
            res["suite"] = "pass" if "FAILED" not in t.stdout and "failed" not in t.stdout.replace("0 failed", "") and "test result: ok" in t.stdout else "FAIL: " + t.stdout[-300:]
        for c in checks:
            t0 = time.time()
            r = sh(f"{ROOT}/bin/check {c} {tier}")
            viol = [l for l in r.stdout.splitlines() if l.startswith("VIOLATION")]
            what = [l.strip() for l in r.stdout.splitlines() if l.strip().startswith("violation [")][:2]
            res["checks"][c] = dict(exit=r.returncode, violations=len(viol), detected=(r.returncode == 1 and len(viol) > 0), first=what, wall_s=round(time.time() - t0, 1),
                                    machinery=[l for l in r.stdout.splitlines() if l.startswith("MACHINERY")][:1])
    finally:
        sh(f"git -C /repo apply -R {patch}")
        shutil.rmtree(f"{ROOT}/evidence", ignore_errors=True)
        shutil.copytree(f"{keep}/evidence", f"{ROOT}/evidence")
        shutil.rmtree(keep, ignore_errors=True)
        left = clean()
        if left: res["warning"] = "repo not clean after restore: " + left
    return res

def main():
    args = sys.argv[1:]
    if args and args[0] == "--table":
        table = json.load(open(f"{ROOT}/selftest/table.json"))
        only = args[1:]
        out = []
        for e in table:
            if only and not any(o in e["patch"] for o in only): continue
            r = run_one(f"{ROOT}/{e['patch']}", e["checks"], suite=e.get("suite", False))
            r["expected"] = e["checks"]
            out.append(r)
            det = {c: v["detected"] for c, v in r.get("checks", {}).items()}
            print(f"{r['patch'][:70]:<70} suite={r['suite']} detected={det} {r.get('error','')}")
            os.makedirs(f"{ROOT}/selftest/results", exist_ok=True)
            json.dump(r, open(f"{ROOT}/selftest/results/{os.path.basename(e['patch'])}.json", "w"), indent=1)
        missed = [(r["patch"], c) for r in out for c, v in r.get("checks", {}).items() if not v["detected"]]
        print("MISSED:", missed if missed else "none")
        return 1 if missed else 0
    suite = False
    if args and args[0] == "--suite": suite = True; args = args[1:]
    r = run_one(os.path.abspath(args[0]), args[1:], suite=suite)
    print(json.dumps(r, indent=1))
    return 0 if all(v["detected"] for v in r.get("checks", {}).values()) and "error" not in r else 1
sys.exit(main())
