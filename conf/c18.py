#!/usr/bin/env python3
"""C18 — results independent of backend, build configuration and container: the probe
(mc/src/probe.rs) is built in three configurations; transcripts are compared section by
section, all pairs; on a mismatch the section is dumped case by case and the first differing
case becomes the replay."""
import json, os, subprocess, sys, time, itertools

ROOT = "/verif"
BINS = {"stable-default": f"{ROOT}/target-stable/release/mc", "nightly": f"{ROOT}/target-nightly/release/mc", "nightly+simd_backend": f"{ROOT}/target-simd/release/mc",
        "nightly-plain-release(no debug assertions, no overflow checks)": f"{ROOT}/target-nightly/plain/mc"}
TIER = os.environ.get("VERIF_TIER", "quick"); SEED = int(os.environ.get("VERIF_SEED", "0") or 0)

def probe(b, *args):
    r = subprocess.run([b, "probe", *args], capture_output=True, text=True)
    if r.returncode != 0:
        raise RuntimeError(f"probe {b} failed rc={r.returncode}: {r.stderr[-400:]}")
    return r.stdout

def main():
    t0 = time.time()
    try:
        from concurrent.futures import ThreadPoolExecutor
        with ThreadPoolExecutor(len(BINS)) as ex:
            outs = dict(zip(BINS, ex.map(lambda b: json.loads(probe(b).strip().splitlines()[-1]), BINS.values())))
    except Exception as e:
        print(f"MACHINERY-ERROR property=C18 {e}"); return 2
    viol = []
    secs = list(outs["stable-default"]["sections"].keys())
    total_cases = 0; compared = 0
    for a, b in itertools.combinations(BINS, 2):
        for s in secs:
            x, y = outs[a]["sections"][s], outs[b]["sections"][s]
            compared += 1
            if x["cases"] != y["cases"]:
                print(f"MACHINERY-ERROR property=C18 section {s}: case counts differ between {a} and {b}"); return 2
            if x["digest"] != y["digest"]:
                da = probe(BINS[a], s).splitlines(); db = probe(BINS[b], s).splitlines()
                first = next(((l, m) for l, m in zip(da, db) if l != m), (None, None))
                ndiff = sum(1 for l, m in zip(da, db) if l != m)
                viol.append(dict(sig=f"C18/{s}/{a}-vs-{b}", what=f"section {s}: {ndiff} of {len(da)} cases differ between {a} and {b}; first: {first[0]} vs {first[1]}", case=dict(section=s, a=a, b=b, first_a=first[0], first_b=first[1])))
    for cfg, o in outs.items():
        for mm in o.get("container_mismatches", []):
            viol.append(dict(sig=f"C18/containers/{mm.split(' at ')[0]}", what=f"{cfg}: {mm}", case=dict(configuration=cfg, mismatch=mm)))
    total_cases = sum(v["cases"] for v in outs["stable-default"]["sections"].values())
    container_cases = sum(o.get("container_cases", 0) for o in outs.values())
    known = []
    try: known = [k for k in json.load(open(f"{ROOT}/known_findings.json"))["findings"] if k["property"] == "C18" and k["status"] == "known"]
    except Exception: pass
    real = [v for v in viol if not any((k["signature"].endswith("*") and v["sig"].startswith(k["signature"][:-1])) or k["signature"] == v["sig"] for k in known)]
    for k in known:
        if any((k["signature"].endswith("*") and v["sig"].startswith(k["signature"][:-1])) or k["signature"] == v["sig"] for v in viol):
            print(f"KNOWN-FINDING: property=C18 {k['what']} [{k['signature']}]")
    os.makedirs(f"{ROOT}/replays/C18", exist_ok=True)
    ev = dict(property_id="C18", tier=TIER, seed=SEED, level="exploration",
              coverage=dict(evaluations=total_cases * len(BINS) + container_cases, distinct_nontrivial=total_cases + container_cases,
                            rule="the probe enumerates the same corpus in every build configuration (BLAKE2b (outlen,keylen,len) grid, SHA-512/HMAC lengths, 2-/3-way chunkings of generic hash/SHA-512/auth/signing, Argon2 grids G1-G3 at small cost, KDF grid, X25519 scalar x point table, kx session keys, Ed25519 pure and pre-hashed signatures, every box/secretbox/sealed-box encrypt form at every length 0..=130 with the ephemeral key pinned); section digests (SHA-512 by libsodium over ordered (case id, output)) are compared for all pairs of the 4 configurations (the three of the statement plus the nightly build without debug assertions and overflow checks, i.e. what a downstream --release build executes); nightly builds additionally compute each container-leg operation through stack, Vec, heap and locked containers and require identical bytes; non-trivial = distinct corpus case (each is executed in 4 configurations)",
                            samples=[dict(section=s, cases=outs["stable-default"]["sections"][s]["cases"], digest=outs["stable-default"]["sections"][s]["digest"][:32]) for s in secs[:3]],
                            exhaustive=True, configurations=list(BINS), sections={s: outs["stable-default"]["sections"][s]["cases"] for s in secs}, section_pairs_compared=compared, container_cases=container_cases),
              assumptions=["target-CPU specific intrinsics back-ends of third-party crates are not part of the configuration set", "transcript digests are computed with libsodium's SHA-512, not with the code under test"],
              wall_s=round(time.time() - t0, 2), violations=len(real))
    os.makedirs(f"{ROOT}/evidence", exist_ok=True)
    json.dump(ev, open(f"{ROOT}/evidence/C18.json", "w"), indent=1)
    print(f"[C18] configurations={len(BINS)} sections={len(secs)} corpus_cases={total_cases} container_cases={container_cases} wall={time.time()-t0:.1f}s")
    if real:
        for v in real:
            path = f"{ROOT}/replays/C18/{''.join(c if c.isalnum() else '_' for c in v['sig'])[:80]}.json"
            json.dump(dict(property="C18", check="C18.conf", signature=v["sig"], what=v["what"], case=v["case"]), open(path, "w"), indent=1)
            print(f"  violation [{v['sig']}] {v['what'][:300]}")
            print(f"VIOLATION property=C18 replay={path}")
        return 1
    print("[C18] PASS"); return 0
sys.exit(main())
