#!/usr/bin/env python3
"""Second, independent reference (O-spec) for C05 / C06: RFC 7748 X25519 ladder and RFC 8032
Ed25519 (sign pure + pre-hashed, strict verify) in pure Python big integers, over a corpus dumped
by the Rust check.   usage: curve_check.py <property> <corpus.jsonl> <evidence.json>"""
import sys, json, hashlib, os, time
P = 2**255 - 19; L = 2**252 + 27742317777372353535851937790883648493
A24 = 121665

def x25519(k, u):
    k = bytearray(k); k[0] &= 248; k[31] &= 127; k[31] |= 64
    k = int.from_bytes(k, 'little')
    u = int.from_bytes(u, 'little') & ((1 << 255) - 1)
    x1 = u % P; x2, z2, x3, z3, swap = 1, 0, u % P, 1, 0
    for t in range(254, -1, -1):
        kt = (k >> t) & 1; swap ^= kt
        if swap: x2, x3, z2, z3 = x3, x2, z3, z2
        swap = kt
        A = (x2 + z2) % P; AA = A * A % P; B = (x2 - z2) % P; BB = B * B % P; E = (AA - BB) % P
        C = (x3 + z3) % P; D = (x3 - z3) % P; DA = D * A % P; CB = C * B % P
        x3 = (DA + CB) ** 2 % P; z3 = x1 * (DA - CB) ** 2 % P
        x2 = AA * BB % P; z2 = E * (AA + A24 * E) % P
    if swap: x2, x3, z2, z3 = x3, x2, z3, z2
    return (x2 * pow(z2, P - 2, P) % P).to_bytes(32, 'little')

# ---- Ed25519 (RFC 8032 reference style) ----
D = -121665 * pow(121666, P - 2, P) % P
I = pow(2, (P - 1) // 4, P)
def inv(x): return pow(x, P - 2, P)
def padd(p, q):
    A = (p[1] - p[0]) * (q[1] - q[0]) % P; B = (p[1] + p[0]) * (q[1] + q[0]) % P
    C = 2 * p[3] * q[3] * D % P; Dd = 2 * p[2] * q[2] % P
    E, F, G, H = B - A, Dd - C, Dd + C, B + A
    return (E * F % P, G * H % P, F * G % P, E * H % P)
def pmul(s, p):
    q = (0, 1, 1, 0)
    while s > 0:
        if s & 1: q = padd(q, p)
        p = padd(p, p); s >>= 1
    return q
def peq(p, q): return (p[0] * q[2] - q[0] * p[2]) % P == 0 and (p[1] * q[2] - q[1] * p[2]) % P == 0
def recover_x(y, sign):
    if y >= P: return None
    x2 = (y * y - 1) * inv(D * y * y + 1) % P
    if x2 == 0: return None if sign else 0
    x = pow(x2, (P + 3) // 8, P)
    if (x * x - x2) % P != 0: x = x * I % P
    if (x * x - x2) % P != 0: return None
    if (x & 1) != sign: x = P - x
    return x
GY = 4 * inv(5) % P; GX = recover_x(GY, 0); G = (GX, GY, 1, GX * GY % P)
def compress(p):
    zi = inv(p[2]); x = p[0] * zi % P; y = p[1] * zi % P
    return (y | ((x & 1) << 255)).to_bytes(32, 'little')
def decompress(s, allow_noncanonical=False):
    y = int.from_bytes(s, 'little'); sign = y >> 255; y &= (1 << 255) - 1
    if y >= P:
        if not allow_noncanonical: return None
        y -= P
    x = recover_x(y, sign)
    if x is None: return None
    return (x, y, 1, x * y % P)
H = lambda *a: hashlib.sha512(b''.join(a)).digest()
DOM2 = b"SigEd25519 no Ed25519 collisions\x01\x00"
def expand(seed):
    h = H(seed); a = int.from_bytes(h[:32], 'little'); a &= (1 << 254) - 8; a |= 1 << 254
    return a, h[32:]
def sign(seed, msg, ph):
    a, prefix = expand(seed); Apk = compress(pmul(a, G))
    dom = DOM2 if ph else b''
    m = hashlib.sha512(msg).digest() if ph else msg
    r = int.from_bytes(H(dom, prefix, m), 'little') % L
    R = compress(pmul(r, G))
    h = int.from_bytes(H(dom, R, Apk, m), 'little') % L
    return Apk, R + ((r + h * a) % L).to_bytes(32, 'little')
IDENT = (0, 1, 1, 0)
def small_order(p): return peq(pmul(8, p), IDENT)
def verify(pk, msg, sig, ph):
    """libsodium-style strict verification"""
    Rb, S = sig[:32], int.from_bytes(sig[32:], 'little')
    if S >= L: return False
    yA = int.from_bytes(pk, 'little') & ((1 << 255) - 1)
    if yA >= P: return False                      # non-canonical public key
    A = decompress(pk)
    if A is None or small_order(A): return False
    R = decompress(Rb, allow_noncanonical=True)
    if R is not None and small_order(R): return False
    dom = DOM2 if ph else b''
    m = hashlib.sha512(msg).digest() if ph else msg
    h = int.from_bytes(H(dom, Rb, pk, m), 'little') % L
    negA = (P - A[0], A[1], A[2], P - A[3])
    Rc = padd(pmul(S, G), pmul(h, negA))
    return compress(Rc) == Rb

def _one(c):
    Hx = bytes.fromhex; k = c['p']
    if k == 'x25519':
        w = x25519(Hx(c['n']), Hx(c['u'])).hex()
        return None if w == c['out'] else w
    if k == 'ed25519-sign':
        pk, sg = sign(Hx(c['seed']), Hx(c['m']), c['ph'])
        return None if (pk.hex() == c['pk'] and sg.hex() == c['sig']) else pk.hex() + '/' + sg.hex()
    if k == 'ed25519-verify':
        v = verify(Hx(c['pk']), Hx(c['m']), Hx(c['sig']), c['ph'])
        return None if v == c['accepted'] else str(v)
    return 'unknown record kind'
def main():
    prop, corpus, evidence = sys.argv[1:4]
    t0 = time.time(); counts = {}; bad = []
    Hx = bytes.fromhex
    try:
        import multiprocessing as mp
        cases = [json.loads(l) for l in open(corpus)]
        for c in cases: counts[c['p']] = counts.get(c['p'], 0) + 1
        with mp.Pool(min(16, os.cpu_count() or 1)) as pool:
            outs = pool.map(_one, cases, chunksize=16)
        bad = [(c, w) for c, w in zip(cases, outs) if w is not None]
    except Exception as e:
        print(f"MACHINERY-ERROR property={prop} second reference failed: {e!r}"); return 2
    total = sum(counts.values())
    try:
        ev = json.load(open(evidence))
        ev['coverage']['second_reference'] = {'tool': 'pure-Python RFC 7748 / RFC 8032 (ref/curve_check.py)', 'cases_recomputed': total, 'per_kind': counts, 'mismatches': len(bad), 'wall_s': round(time.time() - t0, 2)}
        if bad: ev['violations'] = ev.get('violations', 0) + 1
        json.dump(ev, open(evidence, 'w'), indent=1)
    except Exception as e:
        print(f"MACHINERY-ERROR property={prop} cannot update evidence: {e!r}"); return 2
    print(f"[{prop}] second reference (python RFC re-computation): {total} cases {counts} mismatches={len(bad)} {time.time()-t0:.1f}s")
    if bad:
        c, want = bad[0]
        d = f"/verif/replays/{prop}"; os.makedirs(d, exist_ok=True)
        path = f"{d}/spec-mismatch-{c['p']}.json"
        json.dump({'property': prop, 'check': f'{prop}.spec', 'signature': f"{prop}/spec/{c['p']}", 'what': f"dryoc's result differs from the Python RFC reference (reference says {want})", 'case': c}, open(path, 'w'), indent=1)
        print(f"VIOLATION property={prop} replay={path}")
        return 1
    return 0
sys.exit(main())
