#!/usr/bin/env python3
"""Second, independent reference (O-spec) for C07/C12: recompute a dumped corpus from the
published specifications with hashlib/hmac/big integers and pure-Python cores.
usage: spec_check.py <property> <corpus.jsonl> <evidence.json>
exit 0 = all agree, 1 = VIOLATION (replay written), 2 = machinery error."""
import sys, json, hashlib, hmac, struct, os, time

def poly1305(k, m):
    r = int.from_bytes(k[:16], 'little') & 0x0ffffffc0ffffffc0ffffffc0fffffff
    s = int.from_bytes(k[16:], 'little')
    p = (1 << 130) - 5
    h = 0
    for i in range(0, len(m), 16):
        blk = m[i:i+16]
        n = int.from_bytes(blk + b'\x01', 'little')
        h = (h + n) * r % p
    return ((h + s) & ((1 << 128) - 1)).to_bytes(16, 'little')

M64 = (1 << 64) - 1
def rotl64(x, b): return ((x << b) | (x >> (64 - b))) & M64
def siphash24(k, m):
    k0, k1 = struct.unpack('<QQ', k)
    v0 = k0 ^ 0x736f6d6570736575; v1 = k1 ^ 0x646f72616e646f6d
    v2 = k0 ^ 0x6c7967656e657261; v3 = k1 ^ 0x7465646279746573
    def rnd(v0, v1, v2, v3):
        v0 = (v0 + v1) & M64; v1 = rotl64(v1, 13); v1 ^= v0; v0 = rotl64(v0, 32)
        v2 = (v2 + v3) & M64; v3 = rotl64(v3, 16); v3 ^= v2
        v0 = (v0 + v3) & M64; v3 = rotl64(v3, 21); v3 ^= v0
        v2 = (v2 + v1) & M64; v1 = rotl64(v1, 17); v1 ^= v2; v2 = rotl64(v2, 32)
        return v0, v1, v2, v3
    n = len(m); end = n - n % 8
    for i in range(0, end, 8):
        w = struct.unpack_from('<Q', m, i)[0]
        v3 ^= w
        v0, v1, v2, v3 = rnd(v0, v1, v2, v3); v0, v1, v2, v3 = rnd(v0, v1, v2, v3)
        v0 ^= w
    b = (n & 0xff) << 56
    for i, c in enumerate(m[end:]): b |= c << (8 * i)
    v3 ^= b
    v0, v1, v2, v3 = rnd(v0, v1, v2, v3); v0, v1, v2, v3 = rnd(v0, v1, v2, v3)
    v0 ^= b; v2 ^= 0xff
    for _ in range(4): v0, v1, v2, v3 = rnd(v0, v1, v2, v3)
    return struct.pack('<Q', v0 ^ v1 ^ v2 ^ v3)

M32 = 0xffffffff
def rotl32(x, b): return ((x << b) | (x >> (32 - b))) & M32
SIGMA = (0x61707865, 0x3320646e, 0x79622d32, 0x6b206574)
def hsalsa20(k, i, c):
    cs = struct.unpack('<4I', c) if c else SIGMA
    kw = struct.unpack('<8I', k); iw = struct.unpack('<4I', i)
    x = [cs[0], kw[0], kw[1], kw[2], kw[3], cs[1], iw[0], iw[1], iw[2], iw[3], cs[2], kw[4], kw[5], kw[6], kw[7], cs[3]]
    def qr(a, b, c_, d):
        x[b] ^= rotl32((x[a] + x[d]) & M32, 7); x[c_] ^= rotl32((x[b] + x[a]) & M32, 9)
        x[d] ^= rotl32((x[c_] + x[b]) & M32, 13); x[a] ^= rotl32((x[d] + x[c_]) & M32, 18)
    for _ in range(10):
        qr(0, 4, 8, 12); qr(5, 9, 13, 1); qr(10, 14, 2, 6); qr(15, 3, 7, 11)
        qr(0, 1, 2, 3); qr(5, 6, 7, 4); qr(10, 11, 8, 9); qr(15, 12, 13, 14)
    return struct.pack('<8I', x[0], x[5], x[10], x[15], x[6], x[7], x[8], x[9])
def hchacha20(k, i, c):
    cs = struct.unpack('<4I', c) if c else SIGMA
    x = list(cs) + list(struct.unpack('<8I', k)) + list(struct.unpack('<4I', i))
    def qr(a, b, c_, d):
        x[a] = (x[a] + x[b]) & M32; x[d] = rotl32(x[d] ^ x[a], 16)
        x[c_] = (x[c_] + x[d]) & M32; x[b] = rotl32(x[b] ^ x[c_], 12)
        x[a] = (x[a] + x[b]) & M32; x[d] = rotl32(x[d] ^ x[a], 8)
        x[c_] = (x[c_] + x[d]) & M32; x[b] = rotl32(x[b] ^ x[c_], 7)
    for _ in range(10):
        qr(0, 4, 8, 12); qr(1, 5, 9, 13); qr(2, 6, 10, 14); qr(3, 7, 11, 15)
        qr(0, 5, 10, 15); qr(1, 6, 11, 12); qr(2, 7, 8, 13); qr(3, 4, 9, 14)
    return struct.pack('<8I', *(x[0:4] + x[12:16]))

def compute(c):
    H = bytes.fromhex
    p = c['p']
    if p == 'blake2b':
        return hashlib.blake2b(H(c['m']), digest_size=c['outlen'], key=H(c['key']) if c.get('key') else b'').digest()
    if p == 'sha512': return hashlib.sha512(H(c['m'])).digest()
    if p == 'hmac': return hmac.new(H(c['k']), H(c['m']), hashlib.sha512).digest()[:32]
    if p == 'poly1305': return poly1305(H(c['k']), H(c['m']))
    if p == 'siphash': return siphash24(H(c['k']), H(c['m']))
    if p == 'hsalsa20': return hsalsa20(H(c['k']), H(c['i']), H(c['c']) if c.get('c') else None)
    if p == 'hchacha20': return hchacha20(H(c['k']), H(c['i']), H(c['c']) if c.get('c') else None)
    if p == 'kdf':
        salt = struct.pack('<Q', c['id']) + b'\0' * 8
        person = H(c['ctx']) + b'\0' * 8
        return hashlib.blake2b(b'', digest_size=c['len'], key=H(c['key']), salt=salt, person=person).digest()
    raise ValueError(p)

def main():
    prop, corpus, evidence = sys.argv[1:4]
    t0 = time.time()
    counts = {}; bad = []
    try:
        with open(corpus) as f:
            for line in f:
                c = json.loads(line)
                want = compute(c)
                counts[c['p']] = counts.get(c['p'], 0) + 1
                if want.hex() != c['out']:
                    bad.append((c, want.hex()))
    except Exception as e:
        print(f"MACHINERY-ERROR property={prop} second reference failed: {e!r}")
        return 2
    total = sum(counts.values())
    try:
        ev = json.load(open(evidence))
        ev['coverage']['second_reference'] = {'tool': 'python3 hashlib/hmac/big-int (ref/spec_check.py)', 'cases_recomputed': total, 'per_primitive': counts, 'mismatches': len(bad), 'wall_s': round(time.time() - t0, 2)}
        if bad: ev['violations'] = ev.get('violations', 0) + 1
        json.dump(ev, open(evidence, 'w'), indent=1)
    except Exception as e:
        print(f"MACHINERY-ERROR property={prop} cannot update evidence: {e!r}")
        return 2
    print(f"[{prop}] second reference (python spec re-computation): {total} cases {counts} mismatches={len(bad)} {time.time()-t0:.1f}s")
    if bad:
        c, want = bad[0]
        d = f"/verif/replays/{prop}"; os.makedirs(d, exist_ok=True)
        path = f"{d}/spec-mismatch-{c['p']}.json"
        json.dump({'property': prop, 'check': f'{prop}.spec', 'signature': f"{prop}/spec/{c['p']}", 'what': f"output differs from the Python specification reference: got {c['out']} want {want}", 'case': c}, open(path, 'w'), indent=1)
        print(f"VIOLATION property={prop} replay={path}")
        return 1
    return 0
sys.exit(main())
