#!/usr/bin/env python3
"""Second, independent reference (O-spec) for C09: Argon2i / Argon2id v1.3, one lane, written
from RFC 9106 in pure Python (hashlib.blake2b for H).   usage: argon2_check.py C09 corpus evidence"""
import sys, json, hashlib, struct, os, time
M64 = (1 << 64) - 1
def le32(x): return struct.pack('<I', x)
def Hprime(T, X):
    if T <= 64: return hashlib.blake2b(le32(T) + X, digest_size=T).digest()
    r = -(-T // 32) - 2
    V = hashlib.blake2b(le32(T) + X, digest_size=64).digest(); out = V[:32]
    for _ in range(2, r + 1):
        V = hashlib.blake2b(V, digest_size=64).digest(); out += V[:32]
    out += hashlib.blake2b(V, digest_size=T - 32 * r).digest()
    return out
def rotr(x, n): return ((x >> n) | (x << (64 - n))) & M64
def GB(v, a, b, c, d):
    va, vb, vc, vd = v[a], v[b], v[c], v[d]
    va = (va + vb + 2 * (va & 0xffffffff) * (vb & 0xffffffff)) & M64; vd = rotr(vd ^ va, 32)
    vc = (vc + vd + 2 * (vc & 0xffffffff) * (vd & 0xffffffff)) & M64; vb = rotr(vb ^ vc, 24)
    va = (va + vb + 2 * (va & 0xffffffff) * (vb & 0xffffffff)) & M64; vd = rotr(vd ^ va, 16)
    vc = (vc + vd + 2 * (vc & 0xffffffff) * (vd & 0xffffffff)) & M64; vb = rotr(vb ^ vc, 63)
    v[a], v[b], v[c], v[d] = va, vb, vc, vd
def Pperm(v, idx):
    w = [v[i] for i in idx]
    GB(w, 0, 4, 8, 12); GB(w, 1, 5, 9, 13); GB(w, 2, 6, 10, 14); GB(w, 3, 7, 11, 15)
    GB(w, 0, 5, 10, 15); GB(w, 1, 6, 11, 12); GB(w, 2, 7, 8, 13); GB(w, 3, 4, 9, 14)
    for k, i in enumerate(idx): v[i] = w[k]
def G(X, Y):
    R = [a ^ b for a, b in zip(X, Y)]; Z = R[:]
    for i in range(8): Pperm(Z, [16 * i + k for k in range(16)])
    for i in range(8): Pperm(Z, [2 * i + 16 * (k // 2) + (k % 2) for k in range(16)])
    return [a ^ b for a, b in zip(Z, R)]
def argon2(P, S, t, m, T, y):
    H0 = hashlib.blake2b(le32(1) + le32(T) + le32(m) + le32(t) + le32(0x13) + le32(y) + le32(len(P)) + P + le32(len(S)) + S + le32(0) + le32(0), digest_size=64).digest()
    mp = 4 * (m // 4)
    if mp < 8: mp = 8
    q = mp; seg = q // 4
    B = [None] * q
    B[0] = list(struct.unpack('<128Q', Hprime(1024, H0 + le32(0) + le32(0))))
    B[1] = list(struct.unpack('<128Q', Hprime(1024, H0 + le32(1) + le32(0))))
    zero = [0] * 128
    for r in range(t):
        for sl in range(4):
            indep = (y == 1) or (y == 2 and r == 0 and sl < 2)
            addr = None; ctr = 0
            inp = [r, 0, sl, mp, t, y, 0] + [0] * 121
            start_i = 2 if (r == 0 and sl == 0) else 0
            if indep and start_i != 0:
                ctr += 1; inp[6] = ctr; addr = G(zero, G(zero, inp))
            for i in range(start_i, seg):
                j = sl * seg + i; prev = j - 1 if j > 0 else q - 1
                if indep:
                    if i % 128 == 0:
                        ctr += 1; inp[6] = ctr; addr = G(zero, G(zero, inp))
                    pr = addr[i % 128]
                else:
                    pr = B[prev][0]
                J1 = pr & 0xffffffff
                if r == 0:
                    W = (i - 1) if sl == 0 else (sl * seg + i - 1)
                else:
                    W = q - seg + i - 1
                x = (J1 * J1) >> 32; yv = (W * x) >> 32; zz = W - 1 - yv
                start = 0 if (r == 0 or sl == 3) else (sl + 1) * seg
                ref = (start + zz) % q
                nb = G(B[prev], B[ref])
                if r > 0: nb = [a ^ b for a, b in zip(nb, B[j])]
                B[j] = nb
    return Hprime(T, struct.pack('<128Q', *B[q - 1]))
def _one(c):
    return argon2(bytes.fromhex(c['pwd']), bytes.fromhex(c['salt']), c['t'], c['m'], c['outlen'], c['typ']).hex()
def main():
    prop, corpus, evidence = sys.argv[1:4]
    t0 = time.time(); n = 0; bad = []
    try:
        import multiprocessing as mp
        cases = [json.loads(l) for l in open(corpus)]
        n = len(cases)
        with mp.Pool(min(16, os.cpu_count() or 1)) as pool:
            outs = pool.map(_one, cases, chunksize=8)
        bad = [(c, w) for c, w in zip(cases, outs) if w != c['out']]
    except Exception as e:
        print(f"MACHINERY-ERROR property={prop} second reference failed: {e!r}"); return 2
    try:
        ev = json.load(open(evidence))
        ev['coverage']['second_reference'] = {'tool': 'pure-Python Argon2 from RFC 9106 (ref/argon2_check.py)', 'cases_recomputed': n, 'mismatches': len(bad), 'wall_s': round(time.time() - t0, 2)}
        if bad: ev['violations'] = ev.get('violations', 0) + 1
        json.dump(ev, open(evidence, 'w'), indent=1)
    except Exception as e:
        print(f"MACHINERY-ERROR property={prop} cannot update evidence: {e!r}"); return 2
    print(f"[{prop}] second reference (python RFC 9106 re-computation): {n} cases mismatches={len(bad)} {time.time()-t0:.1f}s")
    if bad:
        c, want = bad[0]
        d = f"/verif/replays/{prop}"; os.makedirs(d, exist_ok=True); path = f"{d}/spec-mismatch-argon2.json"
        json.dump({'property': prop, 'check': f'{prop}.spec', 'signature': f"{prop}/spec/argon2", 'what': f"dryoc's Argon2 output differs from the Python RFC 9106 reference ({want[:32]}..)", 'case': c}, open(path, 'w'), indent=1)
        print(f"VIOLATION property={prop} replay={path}"); return 1
    return 0
if __name__ == "__main__": sys.exit(main())
