#![allow(unused_imports, unused_mut, unused_variables, dead_code)]
use dryoc::protected::*;
use dryoc::types::*;

pub fn run() {
    let mut p = HeapByteArray::<32>::from_slice_into_locked(&[1u8; 32]).unwrap().munlock().unwrap().mprotect_noaccess().unwrap();
    use zeroize::Zeroize; p.zeroize(); let q = p.mprotect_readwrite().unwrap(); std::hint::black_box(&q);
}
