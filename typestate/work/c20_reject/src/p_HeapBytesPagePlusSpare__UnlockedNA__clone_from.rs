#![allow(unused_imports, unused_mut, unused_variables, dead_code)]
use dryoc::protected::*;
use dryoc::types::*;

pub fn run() {
    let p = { let mut u = HeapBytes::from_slice_into_locked(&[1u8; 32]).unwrap().munlock().unwrap(); u.resize(8192, 1); u.resize(4096, 1); u.mlock().unwrap() }.munlock().unwrap().mprotect_noaccess().unwrap();
    let mut q = { let mut u = HeapBytes::from_slice_into_locked(&[1u8; 32]).unwrap().munlock().unwrap(); u.resize(8192, 1); u.resize(4096, 1); u.mlock().unwrap() }.munlock().unwrap().mprotect_noaccess().unwrap(); q.clone_from(&p); std::hint::black_box(&q);
}
