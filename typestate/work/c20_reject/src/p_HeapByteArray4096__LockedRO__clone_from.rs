#![allow(unused_imports, unused_mut, unused_variables, dead_code)]
use dryoc::protected::*;
use dryoc::types::*;

pub fn run() {
    let p = HeapByteArray::<4096>::from_slice_into_locked(&[1u8; 4096]).unwrap().mprotect_readonly().unwrap();
    let mut q = HeapByteArray::<4096>::from_slice_into_locked(&[1u8; 4096]).unwrap().mprotect_readonly().unwrap(); q.clone_from(&p); std::hint::black_box(&q);
}
