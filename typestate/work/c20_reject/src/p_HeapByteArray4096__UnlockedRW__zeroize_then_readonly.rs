#![allow(unused_imports, unused_mut, unused_variables, dead_code)]
use dryoc::protected::*;
use dryoc::types::*;

pub fn run() {
    let mut p = HeapByteArray::<4096>::from_slice_into_locked(&[1u8; 4096]).unwrap().munlock().unwrap();
    use zeroize::Zeroize; p.zeroize(); let q = p.mprotect_readonly().unwrap(); std::hint::black_box(&q);
}
