#![allow(unused_imports, unused_mut, unused_variables, dead_code)]
use dryoc::protected::*;
use dryoc::types::*;

pub fn run() {
    let key = dryoc::dryocstream::Key::from(&[7u8; 32]);
    let (mut push, header): (dryoc::dryocstream::DryocStream<dryoc::dryocstream::Push>, dryoc::dryocstream::Header) = dryoc::dryocstream::DryocStream::init_push(&key);
    let r = push.pull_to_vec(&vec![0u8; 40], None); std::hint::black_box(r.is_ok()); std::hint::black_box(header);
}
