#![feature(allocator_api)]
pub mod p_HeapBytes__LockedRW__read_as_slice;
pub mod p_HeapBytes__LockedRW__read_deref;
pub mod p_HeapBytes__LockedRW__read_as_ref;
pub mod p_HeapBytes__LockedRW__read_len;
pub mod p_HeapBytes__LockedRW__read_index;
pub mod p_HeapBytes__LockedRW__read_range;
pub mod p_HeapBytes__LockedRW__write_as_mut_slice;
pub mod p_HeapBytes__LockedRW__write_deref_mut;
pub mod p_HeapBytes__LockedRW__write_as_mut;
pub mod p_HeapBytes__LockedRW__write_copy_from_slice;
pub mod p_HeapBytes__LockedRW__write_index;
pub mod p_HeapBytes__LockedRW__write_fill;
pub mod p_HeapBytes__LockedRW__resize;
pub mod p_HeapBytes__LockedRW__clone;
pub mod p_HeapBytes__LockedRW__clone_from;
pub mod p_HeapBytes__LockedRW__t_munlock;
pub mod p_HeapBytes__LockedRW__t_mprotect_readonly;
pub mod p_HeapBytes__LockedRW__t_mprotect_readwrite;
pub mod p_HeapBytes__LockedRW__use_result_of_munlock;
pub mod p_HeapBytes__LockedRW__use_result_of_mprotect_readonly;
pub mod p_HeapBytes__LockedRW__use_result_of_mprotect_readwrite;
pub mod p_HeapBytes__LockedRO__read_as_slice;
pub mod p_HeapBytes__LockedRO__read_deref;
pub mod p_HeapBytes__LockedRO__read_as_ref;
pub mod p_HeapBytes__LockedRO__read_len;
pub mod p_HeapBytes__LockedRO__read_index;
pub mod p_HeapBytes__LockedRO__read_range;
pub mod p_HeapBytes__LockedRO__clone;
pub mod p_HeapBytes__LockedRO__clone_from;
pub mod p_HeapBytes__LockedRO__t_munlock;
pub mod p_HeapBytes__LockedRO__t_mprotect_readonly;
pub mod p_HeapBytes__LockedRO__t_mprotect_readwrite;
pub mod p_HeapBytes__LockedRO__use_result_of_munlock;
pub mod p_HeapBytes__LockedRO__use_result_of_mprotect_readonly;
pub mod p_HeapBytes__LockedRO__use_result_of_mprotect_readwrite;
pub mod p_HeapBytes__UnlockedRW__read_as_slice;
pub mod p_HeapBytes__UnlockedRW__read_deref;
pub mod p_HeapBytes__UnlockedRW__read_as_ref;
pub mod p_HeapBytes__UnlockedRW__read_len;
pub mod p_HeapBytes__UnlockedRW__read_index;
pub mod p_HeapBytes__UnlockedRW__read_range;
pub mod p_HeapBytes__UnlockedRW__write_as_mut_slice;
pub mod p_HeapBytes__UnlockedRW__write_deref_mut;
pub mod p_HeapBytes__UnlockedRW__write_as_mut;
pub mod p_HeapBytes__UnlockedRW__write_copy_from_slice;
pub mod p_HeapBytes__UnlockedRW__write_index;
pub mod p_HeapBytes__UnlockedRW__write_fill;
pub mod p_HeapBytes__UnlockedRW__resize;
pub mod p_HeapBytes__UnlockedRW__clone;
pub mod p_HeapBytes__UnlockedRW__clone_from;
pub mod p_HeapBytes__UnlockedRW__t_mlock;
pub mod p_HeapBytes__UnlockedRW__t_munlock;
pub mod p_HeapBytes__UnlockedRW__t_mprotect_readonly;
pub mod p_HeapBytes__UnlockedRW__t_mprotect_readwrite;
pub mod p_HeapBytes__UnlockedRW__t_mprotect_noaccess;
pub mod p_HeapBytes__UnlockedRW__use_result_of_munlock;
pub mod p_HeapBytes__UnlockedRW__use_result_of_mprotect_readonly;
pub mod p_HeapBytes__UnlockedRW__use_result_of_mprotect_readwrite;
pub mod p_HeapBytes__UnlockedRW__use_result_of_mlock;
pub mod p_HeapBytes__UnlockedRW__use_result_of_mprotect_noaccess;
pub mod p_HeapBytes__UnlockedRO__read_as_slice;
pub mod p_HeapBytes__UnlockedRO__read_deref;
pub mod p_HeapBytes__UnlockedRO__read_as_ref;
pub mod p_HeapBytes__UnlockedRO__read_len;
pub mod p_HeapBytes__UnlockedRO__read_index;
pub mod p_HeapBytes__UnlockedRO__read_range;
pub mod p_HeapBytes__UnlockedRO__clone;
pub mod p_HeapBytes__UnlockedRO__clone_from;
pub mod p_HeapBytes__UnlockedRO__t_mlock;
pub mod p_HeapBytes__UnlockedRO__t_munlock;
pub mod p_HeapBytes__UnlockedRO__t_mprotect_readonly;
pub mod p_HeapBytes__UnlockedRO__t_mprotect_readwrite;
pub mod p_HeapBytes__UnlockedRO__t_mprotect_noaccess;
pub mod p_HeapBytes__UnlockedRO__use_result_of_munlock;
pub mod p_HeapBytes__UnlockedRO__use_result_of_mprotect_readonly;
pub mod p_HeapBytes__UnlockedRO__use_result_of_mprotect_readwrite;
pub mod p_HeapBytes__UnlockedRO__use_result_of_mlock;
pub mod p_HeapBytes__UnlockedRO__use_result_of_mprotect_noaccess;
pub mod p_HeapBytes__UnlockedNA__t_munlock;
pub mod p_HeapBytes__UnlockedNA__t_mprotect_readonly;
pub mod p_HeapBytes__UnlockedNA__t_mprotect_readwrite;
pub mod p_HeapBytes__UnlockedNA__t_mprotect_noaccess;
pub mod p_HeapBytes__UnlockedNA__use_result_of_munlock;
pub mod p_HeapBytes__UnlockedNA__use_result_of_mprotect_readonly;
pub mod p_HeapBytes__UnlockedNA__use_result_of_mprotect_readwrite;
pub mod p_HeapBytes__UnlockedNA__use_result_of_mprotect_noaccess;
pub mod p_HeapByteArray32__LockedRW__read_as_slice;
pub mod p_HeapByteArray32__LockedRW__read_deref;
pub mod p_HeapByteArray32__LockedRW__read_as_ref;
pub mod p_HeapByteArray32__LockedRW__read_len;
pub mod p_HeapByteArray32__LockedRW__read_index;
pub mod p_HeapByteArray32__LockedRW__read_range;
pub mod p_HeapByteArray32__LockedRW__write_as_mut_slice;
pub mod p_HeapByteArray32__LockedRW__write_deref_mut;
pub mod p_HeapByteArray32__LockedRW__write_as_mut;
pub mod p_HeapByteArray32__LockedRW__write_copy_from_slice;
pub mod p_HeapByteArray32__LockedRW__write_index;
pub mod p_HeapByteArray32__LockedRW__write_fill;
pub mod p_HeapByteArray32__LockedRW__array_as_array;
pub mod p_HeapByteArray32__LockedRW__array_as_mut_array;
pub mod p_HeapByteArray32__LockedRW__t_munlock;
pub mod p_HeapByteArray32__LockedRW__t_mprotect_readonly;
pub mod p_HeapByteArray32__LockedRW__t_mprotect_readwrite;
pub mod p_HeapByteArray32__LockedRW__use_result_of_munlock;
pub mod p_HeapByteArray32__LockedRW__use_result_of_mprotect_readonly;
pub mod p_HeapByteArray32__LockedRW__use_result_of_mprotect_readwrite;
pub mod p_HeapByteArray32__LockedRO__read_as_slice;
pub mod p_HeapByteArray32__LockedRO__read_deref;
pub mod p_HeapByteArray32__LockedRO__read_as_ref;
pub mod p_HeapByteArray32__LockedRO__read_len;
pub mod p_HeapByteArray32__LockedRO__read_index;
pub mod p_HeapByteArray32__LockedRO__read_range;
pub mod p_HeapByteArray32__LockedRO__array_as_array;
pub mod p_HeapByteArray32__LockedRO__t_munlock;
pub mod p_HeapByteArray32__LockedRO__t_mprotect_readonly;
pub mod p_HeapByteArray32__LockedRO__t_mprotect_readwrite;
pub mod p_HeapByteArray32__LockedRO__use_result_of_munlock;
pub mod p_HeapByteArray32__LockedRO__use_result_of_mprotect_readonly;
pub mod p_HeapByteArray32__LockedRO__use_result_of_mprotect_readwrite;
pub mod p_HeapByteArray32__UnlockedRW__read_as_slice;
pub mod p_HeapByteArray32__UnlockedRW__read_deref;
pub mod p_HeapByteArray32__UnlockedRW__read_as_ref;
pub mod p_HeapByteArray32__UnlockedRW__read_len;
pub mod p_HeapByteArray32__UnlockedRW__read_index;
pub mod p_HeapByteArray32__UnlockedRW__read_range;
pub mod p_HeapByteArray32__UnlockedRW__write_as_mut_slice;
pub mod p_HeapByteArray32__UnlockedRW__write_deref_mut;
pub mod p_HeapByteArray32__UnlockedRW__write_as_mut;
pub mod p_HeapByteArray32__UnlockedRW__write_copy_from_slice;
pub mod p_HeapByteArray32__UnlockedRW__write_index;
pub mod p_HeapByteArray32__UnlockedRW__write_fill;
pub mod p_HeapByteArray32__UnlockedRW__array_as_array;
pub mod p_HeapByteArray32__UnlockedRW__array_as_mut_array;
pub mod p_HeapByteArray32__UnlockedRW__clone;
pub mod p_HeapByteArray32__UnlockedRW__clone_from;
pub mod p_HeapByteArray32__UnlockedRW__t_mlock;
pub mod p_HeapByteArray32__UnlockedRW__t_munlock;
pub mod p_HeapByteArray32__UnlockedRW__t_mprotect_readonly;
pub mod p_HeapByteArray32__UnlockedRW__t_mprotect_readwrite;
pub mod p_HeapByteArray32__UnlockedRW__t_mprotect_noaccess;
pub mod p_HeapByteArray32__UnlockedRW__use_result_of_munlock;
pub mod p_HeapByteArray32__UnlockedRW__use_result_of_mprotect_readonly;
pub mod p_HeapByteArray32__UnlockedRW__use_result_of_mprotect_readwrite;
pub mod p_HeapByteArray32__UnlockedRW__use_result_of_mlock;
pub mod p_HeapByteArray32__UnlockedRW__use_result_of_mprotect_noaccess;
pub mod p_HeapByteArray32__UnlockedRO__read_as_slice;
pub mod p_HeapByteArray32__UnlockedRO__read_deref;
pub mod p_HeapByteArray32__UnlockedRO__read_as_ref;
pub mod p_HeapByteArray32__UnlockedRO__read_len;
pub mod p_HeapByteArray32__UnlockedRO__read_index;
pub mod p_HeapByteArray32__UnlockedRO__read_range;
pub mod p_HeapByteArray32__UnlockedRO__array_as_array;
pub mod p_HeapByteArray32__UnlockedRO__clone;
pub mod p_HeapByteArray32__UnlockedRO__clone_from;
pub mod p_HeapByteArray32__UnlockedRO__t_mlock;
pub mod p_HeapByteArray32__UnlockedRO__t_munlock;
pub mod p_HeapByteArray32__UnlockedRO__t_mprotect_readonly;
pub mod p_HeapByteArray32__UnlockedRO__t_mprotect_readwrite;
pub mod p_HeapByteArray32__UnlockedRO__t_mprotect_noaccess;
pub mod p_HeapByteArray32__UnlockedRO__use_result_of_munlock;
pub mod p_HeapByteArray32__UnlockedRO__use_result_of_mprotect_readonly;
pub mod p_HeapByteArray32__UnlockedRO__use_result_of_mprotect_readwrite;
pub mod p_HeapByteArray32__UnlockedRO__use_result_of_mlock;
pub mod p_HeapByteArray32__UnlockedRO__use_result_of_mprotect_noaccess;
pub mod p_HeapByteArray32__UnlockedNA__t_munlock;
pub mod p_HeapByteArray32__UnlockedNA__t_mprotect_readonly;
pub mod p_HeapByteArray32__UnlockedNA__t_mprotect_readwrite;
pub mod p_HeapByteArray32__UnlockedNA__t_mprotect_noaccess;
pub mod p_HeapByteArray32__UnlockedNA__use_result_of_munlock;
pub mod p_HeapByteArray32__UnlockedNA__use_result_of_mprotect_readonly;
pub mod p_HeapByteArray32__UnlockedNA__use_result_of_mprotect_readwrite;
pub mod p_HeapByteArray32__UnlockedNA__use_result_of_mprotect_noaccess;
pub mod p_HeapByteArray4096__LockedRW__read_as_slice;
pub mod p_HeapByteArray4096__LockedRW__read_deref;
pub mod p_HeapByteArray4096__LockedRW__read_as_ref;
pub mod p_HeapByteArray4096__LockedRW__read_len;
pub mod p_HeapByteArray4096__LockedRW__read_index;
pub mod p_HeapByteArray4096__LockedRW__read_range;
pub mod p_HeapByteArray4096__LockedRW__write_as_mut_slice;
pub mod p_HeapByteArray4096__LockedRW__write_deref_mut;
pub mod p_HeapByteArray4096__LockedRW__write_as_mut;
pub mod p_HeapByteArray4096__LockedRW__write_copy_from_slice;
pub mod p_HeapByteArray4096__LockedRW__write_index;
pub mod p_HeapByteArray4096__LockedRW__write_fill;
pub mod p_HeapByteArray4096__LockedRW__array_as_array;
pub mod p_HeapByteArray4096__LockedRW__array_as_mut_array;
pub mod p_HeapByteArray4096__LockedRW__t_munlock;
pub mod p_HeapByteArray4096__LockedRW__t_mprotect_readonly;
pub mod p_HeapByteArray4096__LockedRW__t_mprotect_readwrite;
pub mod p_HeapByteArray4096__LockedRW__use_result_of_munlock;
pub mod p_HeapByteArray4096__LockedRW__use_result_of_mprotect_readonly;
pub mod p_HeapByteArray4096__LockedRW__use_result_of_mprotect_readwrite;
pub mod p_HeapByteArray4096__LockedRO__read_as_slice;
pub mod p_HeapByteArray4096__LockedRO__read_deref;
pub mod p_HeapByteArray4096__LockedRO__read_as_ref;
pub mod p_HeapByteArray4096__LockedRO__read_len;
pub mod p_HeapByteArray4096__LockedRO__read_index;
pub mod p_HeapByteArray4096__LockedRO__read_range;
pub mod p_HeapByteArray4096__LockedRO__array_as_array;
pub mod p_HeapByteArray4096__LockedRO__t_munlock;
pub mod p_HeapByteArray4096__LockedRO__t_mprotect_readonly;
pub mod p_HeapByteArray4096__LockedRO__t_mprotect_readwrite;
pub mod p_HeapByteArray4096__LockedRO__use_result_of_munlock;
pub mod p_HeapByteArray4096__LockedRO__use_result_of_mprotect_readonly;
pub mod p_HeapByteArray4096__LockedRO__use_result_of_mprotect_readwrite;
pub mod p_HeapByteArray4096__UnlockedRW__read_as_slice;
pub mod p_HeapByteArray4096__UnlockedRW__read_deref;
pub mod p_HeapByteArray4096__UnlockedRW__read_as_ref;
pub mod p_HeapByteArray4096__UnlockedRW__read_len;
pub mod p_HeapByteArray4096__UnlockedRW__read_index;
pub mod p_HeapByteArray4096__UnlockedRW__read_range;
pub mod p_HeapByteArray4096__UnlockedRW__write_as_mut_slice;
pub mod p_HeapByteArray4096__UnlockedRW__write_deref_mut;
pub mod p_HeapByteArray4096__UnlockedRW__write_as_mut;
pub mod p_HeapByteArray4096__UnlockedRW__write_copy_from_slice;
pub mod p_HeapByteArray4096__UnlockedRW__write_index;
pub mod p_HeapByteArray4096__UnlockedRW__write_fill;
pub mod p_HeapByteArray4096__UnlockedRW__array_as_array;
pub mod p_HeapByteArray4096__UnlockedRW__array_as_mut_array;
pub mod p_HeapByteArray4096__UnlockedRW__clone;
pub mod p_HeapByteArray4096__UnlockedRW__clone_from;
pub mod p_HeapByteArray4096__UnlockedRW__t_mlock;
pub mod p_HeapByteArray4096__UnlockedRW__t_munlock;
pub mod p_HeapByteArray4096__UnlockedRW__t_mprotect_readonly;
pub mod p_HeapByteArray4096__UnlockedRW__t_mprotect_readwrite;
pub mod p_HeapByteArray4096__UnlockedRW__t_mprotect_noaccess;
pub mod p_HeapByteArray4096__UnlockedRW__use_result_of_munlock;
pub mod p_HeapByteArray4096__UnlockedRW__use_result_of_mprotect_readonly;
pub mod p_HeapByteArray4096__UnlockedRW__use_result_of_mprotect_readwrite;
pub mod p_HeapByteArray4096__UnlockedRW__use_result_of_mlock;
pub mod p_HeapByteArray4096__UnlockedRW__use_result_of_mprotect_noaccess;
pub mod p_HeapByteArray4096__UnlockedRO__read_as_slice;
pub mod p_HeapByteArray4096__UnlockedRO__read_deref;
pub mod p_HeapByteArray4096__UnlockedRO__read_as_ref;
pub mod p_HeapByteArray4096__UnlockedRO__read_len;
pub mod p_HeapByteArray4096__UnlockedRO__read_index;
pub mod p_HeapByteArray4096__UnlockedRO__read_range;
pub mod p_HeapByteArray4096__UnlockedRO__array_as_array;
pub mod p_HeapByteArray4096__UnlockedRO__clone;
pub mod p_HeapByteArray4096__UnlockedRO__clone_from;
pub mod p_HeapByteArray4096__UnlockedRO__t_mlock;
pub mod p_HeapByteArray4096__UnlockedRO__t_munlock;
pub mod p_HeapByteArray4096__UnlockedRO__t_mprotect_readonly;
pub mod p_HeapByteArray4096__UnlockedRO__t_mprotect_readwrite;
pub mod p_HeapByteArray4096__UnlockedRO__t_mprotect_noaccess;
pub mod p_HeapByteArray4096__UnlockedRO__use_result_of_munlock;
pub mod p_HeapByteArray4096__UnlockedRO__use_result_of_mprotect_readonly;
pub mod p_HeapByteArray4096__UnlockedRO__use_result_of_mprotect_readwrite;
pub mod p_HeapByteArray4096__UnlockedRO__use_result_of_mlock;
pub mod p_HeapByteArray4096__UnlockedRO__use_result_of_mprotect_noaccess;
pub mod p_HeapByteArray4096__UnlockedNA__t_munlock;
pub mod p_HeapByteArray4096__UnlockedNA__t_mprotect_readonly;
pub mod p_HeapByteArray4096__UnlockedNA__t_mprotect_readwrite;
pub mod p_HeapByteArray4096__UnlockedNA__t_mprotect_noaccess;
pub mod p_HeapByteArray4096__UnlockedNA__use_result_of_munlock;
pub mod p_HeapByteArray4096__UnlockedNA__use_result_of_mprotect_readonly;
pub mod p_HeapByteArray4096__UnlockedNA__use_result_of_mprotect_readwrite;
pub mod p_HeapByteArray4096__UnlockedNA__use_result_of_mprotect_noaccess;
pub mod p_HeapBytesPagePlusSpare__LockedRW__read_as_slice;
pub mod p_HeapBytesPagePlusSpare__LockedRW__read_deref;
pub mod p_HeapBytesPagePlusSpare__LockedRW__read_as_ref;
pub mod p_HeapBytesPagePlusSpare__LockedRW__read_len;
pub mod p_HeapBytesPagePlusSpare__LockedRW__read_index;
pub mod p_HeapBytesPagePlusSpare__LockedRW__read_range;
pub mod p_HeapBytesPagePlusSpare__LockedRW__write_as_mut_slice;
pub mod p_HeapBytesPagePlusSpare__LockedRW__write_deref_mut;
pub mod p_HeapBytesPagePlusSpare__LockedRW__write_as_mut;
pub mod p_HeapBytesPagePlusSpare__LockedRW__write_copy_from_slice;
pub mod p_HeapBytesPagePlusSpare__LockedRW__write_index;
pub mod p_HeapBytesPagePlusSpare__LockedRW__write_fill;
pub mod p_HeapBytesPagePlusSpare__LockedRW__resize;
pub mod p_HeapBytesPagePlusSpare__LockedRW__clone;
pub mod p_HeapBytesPagePlusSpare__LockedRW__clone_from;
pub mod p_HeapBytesPagePlusSpare__LockedRW__t_munlock;
pub mod p_HeapBytesPagePlusSpare__LockedRW__t_mprotect_readonly;
pub mod p_HeapBytesPagePlusSpare__LockedRW__t_mprotect_readwrite;
pub mod p_HeapBytesPagePlusSpare__LockedRW__use_result_of_munlock;
pub mod p_HeapBytesPagePlusSpare__LockedRW__use_result_of_mprotect_readonly;
pub mod p_HeapBytesPagePlusSpare__LockedRW__use_result_of_mprotect_readwrite;
pub mod p_HeapBytesPagePlusSpare__LockedRO__read_as_slice;
pub mod p_HeapBytesPagePlusSpare__LockedRO__read_deref;
pub mod p_HeapBytesPagePlusSpare__LockedRO__read_as_ref;
pub mod p_HeapBytesPagePlusSpare__LockedRO__read_len;
pub mod p_HeapBytesPagePlusSpare__LockedRO__read_index;
pub mod p_HeapBytesPagePlusSpare__LockedRO__read_range;
pub mod p_HeapBytesPagePlusSpare__LockedRO__clone;
pub mod p_HeapBytesPagePlusSpare__LockedRO__clone_from;
pub mod p_HeapBytesPagePlusSpare__LockedRO__t_munlock;
pub mod p_HeapBytesPagePlusSpare__LockedRO__t_mprotect_readonly;
pub mod p_HeapBytesPagePlusSpare__LockedRO__t_mprotect_readwrite;
pub mod p_HeapBytesPagePlusSpare__LockedRO__use_result_of_munlock;
pub mod p_HeapBytesPagePlusSpare__LockedRO__use_result_of_mprotect_readonly;
pub mod p_HeapBytesPagePlusSpare__LockedRO__use_result_of_mprotect_readwrite;
pub mod p_HeapBytesPagePlusSpare__UnlockedRW__read_as_slice;
pub mod p_HeapBytesPagePlusSpare__UnlockedRW__read_deref;
pub mod p_HeapBytesPagePlusSpare__UnlockedRW__read_as_ref;
pub mod p_HeapBytesPagePlusSpare__UnlockedRW__read_len;
pub mod p_HeapBytesPagePlusSpare__UnlockedRW__read_index;
pub mod p_HeapBytesPagePlusSpare__UnlockedRW__read_range;
pub mod p_HeapBytesPagePlusSpare__UnlockedRW__write_as_mut_slice;
pub mod p_HeapBytesPagePlusSpare__UnlockedRW__write_deref_mut;
pub mod p_HeapBytesPagePlusSpare__UnlockedRW__write_as_mut;
pub mod p_HeapBytesPagePlusSpare__UnlockedRW__write_copy_from_slice;
pub mod p_HeapBytesPagePlusSpare__UnlockedRW__write_index;
pub mod p_HeapBytesPagePlusSpare__UnlockedRW__write_fill;
pub mod p_HeapBytesPagePlusSpare__UnlockedRW__resize;
pub mod p_HeapBytesPagePlusSpare__UnlockedRW__clone;
pub mod p_HeapBytesPagePlusSpare__UnlockedRW__clone_from;
pub mod p_HeapBytesPagePlusSpare__UnlockedRW__t_mlock;
pub mod p_HeapBytesPagePlusSpare__UnlockedRW__t_munlock;
pub mod p_HeapBytesPagePlusSpare__UnlockedRW__t_mprotect_readonly;
pub mod p_HeapBytesPagePlusSpare__UnlockedRW__t_mprotect_readwrite;
pub mod p_HeapBytesPagePlusSpare__UnlockedRW__t_mprotect_noaccess;
pub mod p_HeapBytesPagePlusSpare__UnlockedRW__use_result_of_munlock;
pub mod p_HeapBytesPagePlusSpare__UnlockedRW__use_result_of_mprotect_readonly;
pub mod p_HeapBytesPagePlusSpare__UnlockedRW__use_result_of_mprotect_readwrite;
pub mod p_HeapBytesPagePlusSpare__UnlockedRW__use_result_of_mlock;
pub mod p_HeapBytesPagePlusSpare__UnlockedRW__use_result_of_mprotect_noaccess;
pub mod p_HeapBytesPagePlusSpare__UnlockedRO__read_as_slice;
pub mod p_HeapBytesPagePlusSpare__UnlockedRO__read_deref;
pub mod p_HeapBytesPagePlusSpare__UnlockedRO__read_as_ref;
pub mod p_HeapBytesPagePlusSpare__UnlockedRO__read_len;
pub mod p_HeapBytesPagePlusSpare__UnlockedRO__read_index;
pub mod p_HeapBytesPagePlusSpare__UnlockedRO__read_range;
pub mod p_HeapBytesPagePlusSpare__UnlockedRO__clone;
pub mod p_HeapBytesPagePlusSpare__UnlockedRO__clone_from;
pub mod p_HeapBytesPagePlusSpare__UnlockedRO__t_mlock;
pub mod p_HeapBytesPagePlusSpare__UnlockedRO__t_munlock;
pub mod p_HeapBytesPagePlusSpare__UnlockedRO__t_mprotect_readonly;
pub mod p_HeapBytesPagePlusSpare__UnlockedRO__t_mprotect_readwrite;
pub mod p_HeapBytesPagePlusSpare__UnlockedRO__t_mprotect_noaccess;
pub mod p_HeapBytesPagePlusSpare__UnlockedRO__use_result_of_munlock;
pub mod p_HeapBytesPagePlusSpare__UnlockedRO__use_result_of_mprotect_readonly;
pub mod p_HeapBytesPagePlusSpare__UnlockedRO__use_result_of_mprotect_readwrite;
pub mod p_HeapBytesPagePlusSpare__UnlockedRO__use_result_of_mlock;
pub mod p_HeapBytesPagePlusSpare__UnlockedRO__use_result_of_mprotect_noaccess;
pub mod p_HeapBytesPagePlusSpare__UnlockedNA__t_munlock;
pub mod p_HeapBytesPagePlusSpare__UnlockedNA__t_mprotect_readonly;
pub mod p_HeapBytesPagePlusSpare__UnlockedNA__t_mprotect_readwrite;
pub mod p_HeapBytesPagePlusSpare__UnlockedNA__t_mprotect_noaccess;
pub mod p_HeapBytesPagePlusSpare__UnlockedNA__use_result_of_munlock;
pub mod p_HeapBytesPagePlusSpare__UnlockedNA__use_result_of_mprotect_readonly;
pub mod p_HeapBytesPagePlusSpare__UnlockedNA__use_result_of_mprotect_readwrite;
pub mod p_HeapBytesPagePlusSpare__UnlockedNA__use_result_of_mprotect_noaccess;
pub mod p_stream__Push__push;
pub mod p_stream__Push__push_to_vec;
pub mod p_stream__Pull__pull;
pub mod p_stream__Pull__pull_to_vec;
pub mod p_HeapBytes__LockedRW__view_serde_json;
pub mod p_HeapBytes__LockedRW__view_bincode;
pub mod p_HeapBytes__LockedRW__view_to_vec;
pub mod p_HeapBytes__LockedRW__view_iter;
pub mod p_HeapBytes__LockedRW__zeroize_then_readonly;
pub mod p_HeapBytes__LockedRW__zeroize_then_readwrite;
pub mod p_HeapBytes__LockedRO__view_serde_json;
pub mod p_HeapBytes__LockedRO__view_bincode;
pub mod p_HeapBytes__LockedRO__view_to_vec;
pub mod p_HeapBytes__LockedRO__view_iter;
pub mod p_HeapBytes__LockedRO__zeroize_then_readonly;
pub mod p_HeapBytes__LockedRO__zeroize_then_readwrite;
pub mod p_HeapBytes__UnlockedRW__view_to_vec;
pub mod p_HeapBytes__UnlockedRW__view_iter;
pub mod p_HeapBytes__UnlockedRW__zeroize_then_readonly;
pub mod p_HeapBytes__UnlockedRW__zeroize_then_readwrite;
pub mod p_HeapBytes__UnlockedRO__view_to_vec;
pub mod p_HeapBytes__UnlockedRO__view_iter;
pub mod p_HeapBytes__UnlockedRO__zeroize_then_readonly;
pub mod p_HeapBytes__UnlockedRO__zeroize_then_readwrite;
pub mod p_HeapBytes__UnlockedNA__zeroize_then_readonly;
pub mod p_HeapBytes__UnlockedNA__zeroize_then_readwrite;
pub mod p_HeapBytes__UnlockedNA__t_mlock;
pub mod p_HeapByteArray32__LockedRW__view_serde_json;
pub mod p_HeapByteArray32__LockedRW__view_bincode;
pub mod p_HeapByteArray32__LockedRW__view_to_vec;
pub mod p_HeapByteArray32__LockedRW__view_iter;
pub mod p_HeapByteArray32__LockedRW__zeroize_then_readonly;
pub mod p_HeapByteArray32__LockedRW__zeroize_then_readwrite;
pub mod p_HeapByteArray32__LockedRO__view_to_vec;
pub mod p_HeapByteArray32__LockedRO__view_iter;
pub mod p_HeapByteArray32__LockedRO__zeroize_then_readonly;
pub mod p_HeapByteArray32__LockedRO__zeroize_then_readwrite;
pub mod p_HeapByteArray32__UnlockedRW__view_to_vec;
pub mod p_HeapByteArray32__UnlockedRW__view_iter;
pub mod p_HeapByteArray32__UnlockedRW__zeroize_then_readonly;
pub mod p_HeapByteArray32__UnlockedRW__zeroize_then_readwrite;
pub mod p_HeapByteArray32__UnlockedRO__view_to_vec;
pub mod p_HeapByteArray32__UnlockedRO__view_iter;
pub mod p_HeapByteArray32__UnlockedRO__zeroize_then_readonly;
pub mod p_HeapByteArray32__UnlockedRO__zeroize_then_readwrite;
pub mod p_HeapByteArray32__UnlockedNA__zeroize_then_readonly;
pub mod p_HeapByteArray32__UnlockedNA__zeroize_then_readwrite;
pub mod p_HeapByteArray32__UnlockedNA__t_mlock;
pub mod p_HeapByteArray4096__LockedRW__view_serde_json;
pub mod p_HeapByteArray4096__LockedRW__view_bincode;
pub mod p_HeapByteArray4096__LockedRW__view_to_vec;
pub mod p_HeapByteArray4096__LockedRW__view_iter;
pub mod p_HeapByteArray4096__LockedRW__zeroize_then_readonly;
pub mod p_HeapByteArray4096__LockedRW__zeroize_then_readwrite;
pub mod p_HeapByteArray4096__LockedRO__view_to_vec;
pub mod p_HeapByteArray4096__LockedRO__view_iter;
pub mod p_HeapByteArray4096__LockedRO__zeroize_then_readonly;
pub mod p_HeapByteArray4096__LockedRO__zeroize_then_readwrite;
pub mod p_HeapByteArray4096__UnlockedRW__view_to_vec;
pub mod p_HeapByteArray4096__UnlockedRW__view_iter;
pub mod p_HeapByteArray4096__UnlockedRW__zeroize_then_readonly;
pub mod p_HeapByteArray4096__UnlockedRW__zeroize_then_readwrite;
pub mod p_HeapByteArray4096__UnlockedRO__view_to_vec;
pub mod p_HeapByteArray4096__UnlockedRO__view_iter;
pub mod p_HeapByteArray4096__UnlockedRO__zeroize_then_readonly;
pub mod p_HeapByteArray4096__UnlockedRO__zeroize_then_readwrite;
pub mod p_HeapByteArray4096__UnlockedNA__zeroize_then_readonly;
pub mod p_HeapByteArray4096__UnlockedNA__zeroize_then_readwrite;
pub mod p_HeapByteArray4096__UnlockedNA__t_mlock;
pub mod p_HeapBytesPagePlusSpare__LockedRW__view_serde_json;
pub mod p_HeapBytesPagePlusSpare__LockedRW__view_bincode;
pub mod p_HeapBytesPagePlusSpare__LockedRW__view_to_vec;
pub mod p_HeapBytesPagePlusSpare__LockedRW__view_iter;
pub mod p_HeapBytesPagePlusSpare__LockedRW__zeroize_then_readonly;
pub mod p_HeapBytesPagePlusSpare__LockedRW__zeroize_then_readwrite;
pub mod p_HeapBytesPagePlusSpare__LockedRO__view_serde_json;
pub mod p_HeapBytesPagePlusSpare__LockedRO__view_bincode;
pub mod p_HeapBytesPagePlusSpare__LockedRO__view_to_vec;
pub mod p_HeapBytesPagePlusSpare__LockedRO__view_iter;
pub mod p_HeapBytesPagePlusSpare__LockedRO__zeroize_then_readonly;
pub mod p_HeapBytesPagePlusSpare__LockedRO__zeroize_then_readwrite;
pub mod p_HeapBytesPagePlusSpare__UnlockedRW__view_to_vec;
pub mod p_HeapBytesPagePlusSpare__UnlockedRW__view_iter;
pub mod p_HeapBytesPagePlusSpare__UnlockedRW__zeroize_then_readonly;
pub mod p_HeapBytesPagePlusSpare__UnlockedRW__zeroize_then_readwrite;
pub mod p_HeapBytesPagePlusSpare__UnlockedRO__view_to_vec;
pub mod p_HeapBytesPagePlusSpare__UnlockedRO__view_iter;
pub mod p_HeapBytesPagePlusSpare__UnlockedRO__zeroize_then_readonly;
pub mod p_HeapBytesPagePlusSpare__UnlockedRO__zeroize_then_readwrite;
pub mod p_HeapBytesPagePlusSpare__UnlockedNA__zeroize_then_readonly;
pub mod p_HeapBytesPagePlusSpare__UnlockedNA__zeroize_then_readwrite;
pub mod p_HeapBytesPagePlusSpare__UnlockedNA__t_mlock;

const PROGS: &[(&str, fn())] = &[
    ("HeapBytes__LockedRW__read_as_slice", p_HeapBytes__LockedRW__read_as_slice::run as fn()),
    ("HeapBytes__LockedRW__read_deref", p_HeapBytes__LockedRW__read_deref::run as fn()),
    ("HeapBytes__LockedRW__read_as_ref", p_HeapBytes__LockedRW__read_as_ref::run as fn()),
    ("HeapBytes__LockedRW__read_len", p_HeapBytes__LockedRW__read_len::run as fn()),
    ("HeapBytes__LockedRW__read_index", p_HeapBytes__LockedRW__read_index::run as fn()),
    ("HeapBytes__LockedRW__read_range", p_HeapBytes__LockedRW__read_range::run as fn()),
    ("HeapBytes__LockedRW__write_as_mut_slice", p_HeapBytes__LockedRW__write_as_mut_slice::run as fn()),
    ("HeapBytes__LockedRW__write_deref_mut", p_HeapBytes__LockedRW__write_deref_mut::run as fn()),
    ("HeapBytes__LockedRW__write_as_mut", p_HeapBytes__LockedRW__write_as_mut::run as fn()),
    ("HeapBytes__LockedRW__write_copy_from_slice", p_HeapBytes__LockedRW__write_copy_from_slice::run as fn()),
    ("HeapBytes__LockedRW__write_index", p_HeapBytes__LockedRW__write_index::run as fn()),
    ("HeapBytes__LockedRW__write_fill", p_HeapBytes__LockedRW__write_fill::run as fn()),
    ("HeapBytes__LockedRW__resize", p_HeapBytes__LockedRW__resize::run as fn()),
    ("HeapBytes__LockedRW__clone", p_HeapBytes__LockedRW__clone::run as fn()),
    ("HeapBytes__LockedRW__clone_from", p_HeapBytes__LockedRW__clone_from::run as fn()),
    ("HeapBytes__LockedRW__t_munlock", p_HeapBytes__LockedRW__t_munlock::run as fn()),
    ("HeapBytes__LockedRW__t_mprotect_readonly", p_HeapBytes__LockedRW__t_mprotect_readonly::run as fn()),
    ("HeapBytes__LockedRW__t_mprotect_readwrite", p_HeapBytes__LockedRW__t_mprotect_readwrite::run as fn()),
    ("HeapBytes__LockedRW__use_result_of_munlock", p_HeapBytes__LockedRW__use_result_of_munlock::run as fn()),
    ("HeapBytes__LockedRW__use_result_of_mprotect_readonly", p_HeapBytes__LockedRW__use_result_of_mprotect_readonly::run as fn()),
    ("HeapBytes__LockedRW__use_result_of_mprotect_readwrite", p_HeapBytes__LockedRW__use_result_of_mprotect_readwrite::run as fn()),
    ("HeapBytes__LockedRO__read_as_slice", p_HeapBytes__LockedRO__read_as_slice::run as fn()),
    ("HeapBytes__LockedRO__read_deref", p_HeapBytes__LockedRO__read_deref::run as fn()),
    ("HeapBytes__LockedRO__read_as_ref", p_HeapBytes__LockedRO__read_as_ref::run as fn()),
    ("HeapBytes__LockedRO__read_len", p_HeapBytes__LockedRO__read_len::run as fn()),
    ("HeapBytes__LockedRO__read_index", p_HeapBytes__LockedRO__read_index::run as fn()),
    ("HeapBytes__LockedRO__read_range", p_HeapBytes__LockedRO__read_range::run as fn()),
    ("HeapBytes__LockedRO__clone", p_HeapBytes__LockedRO__clone::run as fn()),
    ("HeapBytes__LockedRO__clone_from", p_HeapBytes__LockedRO__clone_from::run as fn()),
    ("HeapBytes__LockedRO__t_munlock", p_HeapBytes__LockedRO__t_munlock::run as fn()),
    ("HeapBytes__LockedRO__t_mprotect_readonly", p_HeapBytes__LockedRO__t_mprotect_readonly::run as fn()),
    ("HeapBytes__LockedRO__t_mprotect_readwrite", p_HeapBytes__LockedRO__t_mprotect_readwrite::run as fn()),
    ("HeapBytes__LockedRO__use_result_of_munlock", p_HeapBytes__LockedRO__use_result_of_munlock::run as fn()),
    ("HeapBytes__LockedRO__use_result_of_mprotect_readonly", p_HeapBytes__LockedRO__use_result_of_mprotect_readonly::run as fn()),
    ("HeapBytes__LockedRO__use_result_of_mprotect_readwrite", p_HeapBytes__LockedRO__use_result_of_mprotect_readwrite::run as fn()),
    ("HeapBytes__UnlockedRW__read_as_slice", p_HeapBytes__UnlockedRW__read_as_slice::run as fn()),
    ("HeapBytes__UnlockedRW__read_deref", p_HeapBytes__UnlockedRW__read_deref::run as fn()),
    ("HeapBytes__UnlockedRW__read_as_ref", p_HeapBytes__UnlockedRW__read_as_ref::run as fn()),
    ("HeapBytes__UnlockedRW__read_len", p_HeapBytes__UnlockedRW__read_len::run as fn()),
    ("HeapBytes__UnlockedRW__read_index", p_HeapBytes__UnlockedRW__read_index::run as fn()),
    ("HeapBytes__UnlockedRW__read_range", p_HeapBytes__UnlockedRW__read_range::run as fn()),
    ("HeapBytes__UnlockedRW__write_as_mut_slice", p_HeapBytes__UnlockedRW__write_as_mut_slice::run as fn()),
    ("HeapBytes__UnlockedRW__write_deref_mut", p_HeapBytes__UnlockedRW__write_deref_mut::run as fn()),
    ("HeapBytes__UnlockedRW__write_as_mut", p_HeapBytes__UnlockedRW__write_as_mut::run as fn()),
    ("HeapBytes__UnlockedRW__write_copy_from_slice", p_HeapBytes__UnlockedRW__write_copy_from_slice::run as fn()),
    ("HeapBytes__UnlockedRW__write_index", p_HeapBytes__UnlockedRW__write_index::run as fn()),
    ("HeapBytes__UnlockedRW__write_fill", p_HeapBytes__UnlockedRW__write_fill::run as fn()),
    ("HeapBytes__UnlockedRW__resize", p_HeapBytes__UnlockedRW__resize::run as fn()),
    ("HeapBytes__UnlockedRW__clone", p_HeapBytes__UnlockedRW__clone::run as fn()),
    ("HeapBytes__UnlockedRW__clone_from", p_HeapBytes__UnlockedRW__clone_from::run as fn()),
    ("HeapBytes__UnlockedRW__t_mlock", p_HeapBytes__UnlockedRW__t_mlock::run as fn()),
    ("HeapBytes__UnlockedRW__t_munlock", p_HeapBytes__UnlockedRW__t_munlock::run as fn()),
    ("HeapBytes__UnlockedRW__t_mprotect_readonly", p_HeapBytes__UnlockedRW__t_mprotect_readonly::run as fn()),
    ("HeapBytes__UnlockedRW__t_mprotect_readwrite", p_HeapBytes__UnlockedRW__t_mprotect_readwrite::run as fn()),
    ("HeapBytes__UnlockedRW__t_mprotect_noaccess", p_HeapBytes__UnlockedRW__t_mprotect_noaccess::run as fn()),
    ("HeapBytes__UnlockedRW__use_result_of_munlock", p_HeapBytes__UnlockedRW__use_result_of_munlock::run as fn()),
    ("HeapBytes__UnlockedRW__use_result_of_mprotect_readonly", p_HeapBytes__UnlockedRW__use_result_of_mprotect_readonly::run as fn()),
    ("HeapBytes__UnlockedRW__use_result_of_mprotect_readwrite", p_HeapBytes__UnlockedRW__use_result_of_mprotect_readwrite::run as fn()),
    ("HeapBytes__UnlockedRW__use_result_of_mlock", p_HeapBytes__UnlockedRW__use_result_of_mlock::run as fn()),
    ("HeapBytes__UnlockedRW__use_result_of_mprotect_noaccess", p_HeapBytes__UnlockedRW__use_result_of_mprotect_noaccess::run as fn()),
    ("HeapBytes__UnlockedRO__read_as_slice", p_HeapBytes__UnlockedRO__read_as_slice::run as fn()),
    ("HeapBytes__UnlockedRO__read_deref", p_HeapBytes__UnlockedRO__read_deref::run as fn()),
    ("HeapBytes__UnlockedRO__read_as_ref", p_HeapBytes__UnlockedRO__read_as_ref::run as fn()),
    ("HeapBytes__UnlockedRO__read_len", p_HeapBytes__UnlockedRO__read_len::run as fn()),
    ("HeapBytes__UnlockedRO__read_index", p_HeapBytes__UnlockedRO__read_index::run as fn()),
    ("HeapBytes__UnlockedRO__read_range", p_HeapBytes__UnlockedRO__read_range::run as fn()),
    ("HeapBytes__UnlockedRO__clone", p_HeapBytes__UnlockedRO__clone::run as fn()),
    ("HeapBytes__UnlockedRO__clone_from", p_HeapBytes__UnlockedRO__clone_from::run as fn()),
    ("HeapBytes__UnlockedRO__t_mlock", p_HeapBytes__UnlockedRO__t_mlock::run as fn()),
    ("HeapBytes__UnlockedRO__t_munlock", p_HeapBytes__UnlockedRO__t_munlock::run as fn()),
    ("HeapBytes__UnlockedRO__t_mprotect_readonly", p_HeapBytes__UnlockedRO__t_mprotect_readonly::run as fn()),
    ("HeapBytes__UnlockedRO__t_mprotect_readwrite", p_HeapBytes__UnlockedRO__t_mprotect_readwrite::run as fn()),
    ("HeapBytes__UnlockedRO__t_mprotect_noaccess", p_HeapBytes__UnlockedRO__t_mprotect_noaccess::run as fn()),
    ("HeapBytes__UnlockedRO__use_result_of_munlock", p_HeapBytes__UnlockedRO__use_result_of_munlock::run as fn()),
    ("HeapBytes__UnlockedRO__use_result_of_mprotect_readonly", p_HeapBytes__UnlockedRO__use_result_of_mprotect_readonly::run as fn()),
    ("HeapBytes__UnlockedRO__use_result_of_mprotect_readwrite", p_HeapBytes__UnlockedRO__use_result_of_mprotect_readwrite::run as fn()),
    ("HeapBytes__UnlockedRO__use_result_of_mlock", p_HeapBytes__UnlockedRO__use_result_of_mlock::run as fn()),
    ("HeapBytes__UnlockedRO__use_result_of_mprotect_noaccess", p_HeapBytes__UnlockedRO__use_result_of_mprotect_noaccess::run as fn()),
    ("HeapBytes__UnlockedNA__t_munlock", p_HeapBytes__UnlockedNA__t_munlock::run as fn()),
    ("HeapBytes__UnlockedNA__t_mprotect_readonly", p_HeapBytes__UnlockedNA__t_mprotect_readonly::run as fn()),
    ("HeapBytes__UnlockedNA__t_mprotect_readwrite", p_HeapBytes__UnlockedNA__t_mprotect_readwrite::run as fn()),
    ("HeapBytes__UnlockedNA__t_mprotect_noaccess", p_HeapBytes__UnlockedNA__t_mprotect_noaccess::run as fn()),
    ("HeapBytes__UnlockedNA__use_result_of_munlock", p_HeapBytes__UnlockedNA__use_result_of_munlock::run as fn()),
    ("HeapBytes__UnlockedNA__use_result_of_mprotect_readonly", p_HeapBytes__UnlockedNA__use_result_of_mprotect_readonly::run as fn()),
    ("HeapBytes__UnlockedNA__use_result_of_mprotect_readwrite", p_HeapBytes__UnlockedNA__use_result_of_mprotect_readwrite::run as fn()),
    ("HeapBytes__UnlockedNA__use_result_of_mprotect_noaccess", p_HeapBytes__UnlockedNA__use_result_of_mprotect_noaccess::run as fn()),
    ("HeapByteArray32__LockedRW__read_as_slice", p_HeapByteArray32__LockedRW__read_as_slice::run as fn()),
    ("HeapByteArray32__LockedRW__read_deref", p_HeapByteArray32__LockedRW__read_deref::run as fn()),
    ("HeapByteArray32__LockedRW__read_as_ref", p_HeapByteArray32__LockedRW__read_as_ref::run as fn()),
    ("HeapByteArray32__LockedRW__read_len", p_HeapByteArray32__LockedRW__read_len::run as fn()),
    ("HeapByteArray32__LockedRW__read_index", p_HeapByteArray32__LockedRW__read_index::run as fn()),
    ("HeapByteArray32__LockedRW__read_range", p_HeapByteArray32__LockedRW__read_range::run as fn()),
    ("HeapByteArray32__LockedRW__write_as_mut_slice", p_HeapByteArray32__LockedRW__write_as_mut_slice::run as fn()),
    ("HeapByteArray32__LockedRW__write_deref_mut", p_HeapByteArray32__LockedRW__write_deref_mut::run as fn()),
    ("HeapByteArray32__LockedRW__write_as_mut", p_HeapByteArray32__LockedRW__write_as_mut::run as fn()),
    ("HeapByteArray32__LockedRW__write_copy_from_slice", p_HeapByteArray32__LockedRW__write_copy_from_slice::run as fn()),
    ("HeapByteArray32__LockedRW__write_index", p_HeapByteArray32__LockedRW__write_index::run as fn()),
    ("HeapByteArray32__LockedRW__write_fill", p_HeapByteArray32__LockedRW__write_fill::run as fn()),
    ("HeapByteArray32__LockedRW__array_as_array", p_HeapByteArray32__LockedRW__array_as_array::run as fn()),
    ("HeapByteArray32__LockedRW__array_as_mut_array", p_HeapByteArray32__LockedRW__array_as_mut_array::run as fn()),
    ("HeapByteArray32__LockedRW__t_munlock", p_HeapByteArray32__LockedRW__t_munlock::run as fn()),
    ("HeapByteArray32__LockedRW__t_mprotect_readonly", p_HeapByteArray32__LockedRW__t_mprotect_readonly::run as fn()),
    ("HeapByteArray32__LockedRW__t_mprotect_readwrite", p_HeapByteArray32__LockedRW__t_mprotect_readwrite::run as fn()),
    ("HeapByteArray32__LockedRW__use_result_of_munlock", p_HeapByteArray32__LockedRW__use_result_of_munlock::run as fn()),
    ("HeapByteArray32__LockedRW__use_result_of_mprotect_readonly", p_HeapByteArray32__LockedRW__use_result_of_mprotect_readonly::run as fn()),
    ("HeapByteArray32__LockedRW__use_result_of_mprotect_readwrite", p_HeapByteArray32__LockedRW__use_result_of_mprotect_readwrite::run as fn()),
    ("HeapByteArray32__LockedRO__read_as_slice", p_HeapByteArray32__LockedRO__read_as_slice::run as fn()),
    ("HeapByteArray32__LockedRO__read_deref", p_HeapByteArray32__LockedRO__read_deref::run as fn()),
    ("HeapByteArray32__LockedRO__read_as_ref", p_HeapByteArray32__LockedRO__read_as_ref::run as fn()),
    ("HeapByteArray32__LockedRO__read_len", p_HeapByteArray32__LockedRO__read_len::run as fn()),
    ("HeapByteArray32__LockedRO__read_index", p_HeapByteArray32__LockedRO__read_index::run as fn()),
    ("HeapByteArray32__LockedRO__read_range", p_HeapByteArray32__LockedRO__read_range::run as fn()),
    ("HeapByteArray32__LockedRO__array_as_array", p_HeapByteArray32__LockedRO__array_as_array::run as fn()),
    ("HeapByteArray32__LockedRO__t_munlock", p_HeapByteArray32__LockedRO__t_munlock::run as fn()),
    ("HeapByteArray32__LockedRO__t_mprotect_readonly", p_HeapByteArray32__LockedRO__t_mprotect_readonly::run as fn()),
    ("HeapByteArray32__LockedRO__t_mprotect_readwrite", p_HeapByteArray32__LockedRO__t_mprotect_readwrite::run as fn()),
    ("HeapByteArray32__LockedRO__use_result_of_munlock", p_HeapByteArray32__LockedRO__use_result_of_munlock::run as fn()),
    ("HeapByteArray32__LockedRO__use_result_of_mprotect_readonly", p_HeapByteArray32__LockedRO__use_result_of_mprotect_readonly::run as fn()),
    ("HeapByteArray32__LockedRO__use_result_of_mprotect_readwrite", p_HeapByteArray32__LockedRO__use_result_of_mprotect_readwrite::run as fn()),
    ("HeapByteArray32__UnlockedRW__read_as_slice", p_HeapByteArray32__UnlockedRW__read_as_slice::run as fn()),
    ("HeapByteArray32__UnlockedRW__read_deref", p_HeapByteArray32__UnlockedRW__read_deref::run as fn()),
    ("HeapByteArray32__UnlockedRW__read_as_ref", p_HeapByteArray32__UnlockedRW__read_as_ref::run as fn()),
    ("HeapByteArray32__UnlockedRW__read_len", p_HeapByteArray32__UnlockedRW__read_len::run as fn()),
    ("HeapByteArray32__UnlockedRW__read_index", p_HeapByteArray32__UnlockedRW__read_index::run as fn()),
    ("HeapByteArray32__UnlockedRW__read_range", p_HeapByteArray32__UnlockedRW__read_range::run as fn()),
    ("HeapByteArray32__UnlockedRW__write_as_mut_slice", p_HeapByteArray32__UnlockedRW__write_as_mut_slice::run as fn()),
    ("HeapByteArray32__UnlockedRW__write_deref_mut", p_HeapByteArray32__UnlockedRW__write_deref_mut::run as fn()),
    ("HeapByteArray32__UnlockedRW__write_as_mut", p_HeapByteArray32__UnlockedRW__write_as_mut::run as fn()),
    ("HeapByteArray32__UnlockedRW__write_copy_from_slice", p_HeapByteArray32__UnlockedRW__write_copy_from_slice::run as fn()),
    ("HeapByteArray32__UnlockedRW__write_index", p_HeapByteArray32__UnlockedRW__write_index::run as fn()),
    ("HeapByteArray32__UnlockedRW__write_fill", p_HeapByteArray32__UnlockedRW__write_fill::run as fn()),
    ("HeapByteArray32__UnlockedRW__array_as_array", p_HeapByteArray32__UnlockedRW__array_as_array::run as fn()),
    ("HeapByteArray32__UnlockedRW__array_as_mut_array", p_HeapByteArray32__UnlockedRW__array_as_mut_array::run as fn()),
    ("HeapByteArray32__UnlockedRW__clone", p_HeapByteArray32__UnlockedRW__clone::run as fn()),
    ("HeapByteArray32__UnlockedRW__clone_from", p_HeapByteArray32__UnlockedRW__clone_from::run as fn()),
    ("HeapByteArray32__UnlockedRW__t_mlock", p_HeapByteArray32__UnlockedRW__t_mlock::run as fn()),
    ("HeapByteArray32__UnlockedRW__t_munlock", p_HeapByteArray32__UnlockedRW__t_munlock::run as fn()),
    ("HeapByteArray32__UnlockedRW__t_mprotect_readonly", p_HeapByteArray32__UnlockedRW__t_mprotect_readonly::run as fn()),
    ("HeapByteArray32__UnlockedRW__t_mprotect_readwrite", p_HeapByteArray32__UnlockedRW__t_mprotect_readwrite::run as fn()),
    ("HeapByteArray32__UnlockedRW__t_mprotect_noaccess", p_HeapByteArray32__UnlockedRW__t_mprotect_noaccess::run as fn()),
    ("HeapByteArray32__UnlockedRW__use_result_of_munlock", p_HeapByteArray32__UnlockedRW__use_result_of_munlock::run as fn()),
    ("HeapByteArray32__UnlockedRW__use_result_of_mprotect_readonly", p_HeapByteArray32__UnlockedRW__use_result_of_mprotect_readonly::run as fn()),
    ("HeapByteArray32__UnlockedRW__use_result_of_mprotect_readwrite", p_HeapByteArray32__UnlockedRW__use_result_of_mprotect_readwrite::run as fn()),
    ("HeapByteArray32__UnlockedRW__use_result_of_mlock", p_HeapByteArray32__UnlockedRW__use_result_of_mlock::run as fn()),
    ("HeapByteArray32__UnlockedRW__use_result_of_mprotect_noaccess", p_HeapByteArray32__UnlockedRW__use_result_of_mprotect_noaccess::run as fn()),
    ("HeapByteArray32__UnlockedRO__read_as_slice", p_HeapByteArray32__UnlockedRO__read_as_slice::run as fn()),
    ("HeapByteArray32__UnlockedRO__read_deref", p_HeapByteArray32__UnlockedRO__read_deref::run as fn()),
    ("HeapByteArray32__UnlockedRO__read_as_ref", p_HeapByteArray32__UnlockedRO__read_as_ref::run as fn()),
    ("HeapByteArray32__UnlockedRO__read_len", p_HeapByteArray32__UnlockedRO__read_len::run as fn()),
    ("HeapByteArray32__UnlockedRO__read_index", p_HeapByteArray32__UnlockedRO__read_index::run as fn()),
    ("HeapByteArray32__UnlockedRO__read_range", p_HeapByteArray32__UnlockedRO__read_range::run as fn()),
    ("HeapByteArray32__UnlockedRO__array_as_array", p_HeapByteArray32__UnlockedRO__array_as_array::run as fn()),
    ("HeapByteArray32__UnlockedRO__clone", p_HeapByteArray32__UnlockedRO__clone::run as fn()),
    ("HeapByteArray32__UnlockedRO__clone_from", p_HeapByteArray32__UnlockedRO__clone_from::run as fn()),
    ("HeapByteArray32__UnlockedRO__t_mlock", p_HeapByteArray32__UnlockedRO__t_mlock::run as fn()),
    ("HeapByteArray32__UnlockedRO__t_munlock", p_HeapByteArray32__UnlockedRO__t_munlock::run as fn()),
    ("HeapByteArray32__UnlockedRO__t_mprotect_readonly", p_HeapByteArray32__UnlockedRO__t_mprotect_readonly::run as fn()),
    ("HeapByteArray32__UnlockedRO__t_mprotect_readwrite", p_HeapByteArray32__UnlockedRO__t_mprotect_readwrite::run as fn()),
    ("HeapByteArray32__UnlockedRO__t_mprotect_noaccess", p_HeapByteArray32__UnlockedRO__t_mprotect_noaccess::run as fn()),
    ("HeapByteArray32__UnlockedRO__use_result_of_munlock", p_HeapByteArray32__UnlockedRO__use_result_of_munlock::run as fn()),
    ("HeapByteArray32__UnlockedRO__use_result_of_mprotect_readonly", p_HeapByteArray32__UnlockedRO__use_result_of_mprotect_readonly::run as fn()),
    ("HeapByteArray32__UnlockedRO__use_result_of_mprotect_readwrite", p_HeapByteArray32__UnlockedRO__use_result_of_mprotect_readwrite::run as fn()),
    ("HeapByteArray32__UnlockedRO__use_result_of_mlock", p_HeapByteArray32__UnlockedRO__use_result_of_mlock::run as fn()),
    ("HeapByteArray32__UnlockedRO__use_result_of_mprotect_noaccess", p_HeapByteArray32__UnlockedRO__use_result_of_mprotect_noaccess::run as fn()),
    ("HeapByteArray32__UnlockedNA__t_munlock", p_HeapByteArray32__UnlockedNA__t_munlock::run as fn()),
    ("HeapByteArray32__UnlockedNA__t_mprotect_readonly", p_HeapByteArray32__UnlockedNA__t_mprotect_readonly::run as fn()),
    ("HeapByteArray32__UnlockedNA__t_mprotect_readwrite", p_HeapByteArray32__UnlockedNA__t_mprotect_readwrite::run as fn()),
    ("HeapByteArray32__UnlockedNA__t_mprotect_noaccess", p_HeapByteArray32__UnlockedNA__t_mprotect_noaccess::run as fn()),
    ("HeapByteArray32__UnlockedNA__use_result_of_munlock", p_HeapByteArray32__UnlockedNA__use_result_of_munlock::run as fn()),
    ("HeapByteArray32__UnlockedNA__use_result_of_mprotect_readonly", p_HeapByteArray32__UnlockedNA__use_result_of_mprotect_readonly::run as fn()),
    ("HeapByteArray32__UnlockedNA__use_result_of_mprotect_readwrite", p_HeapByteArray32__UnlockedNA__use_result_of_mprotect_readwrite::run as fn()),
    ("HeapByteArray32__UnlockedNA__use_result_of_mprotect_noaccess", p_HeapByteArray32__UnlockedNA__use_result_of_mprotect_noaccess::run as fn()),
    ("HeapByteArray4096__LockedRW__read_as_slice", p_HeapByteArray4096__LockedRW__read_as_slice::run as fn()),
    ("HeapByteArray4096__LockedRW__read_deref", p_HeapByteArray4096__LockedRW__read_deref::run as fn()),
    ("HeapByteArray4096__LockedRW__read_as_ref", p_HeapByteArray4096__LockedRW__read_as_ref::run as fn()),
    ("HeapByteArray4096__LockedRW__read_len", p_HeapByteArray4096__LockedRW__read_len::run as fn()),
    ("HeapByteArray4096__LockedRW__read_index", p_HeapByteArray4096__LockedRW__read_index::run as fn()),
    ("HeapByteArray4096__LockedRW__read_range", p_HeapByteArray4096__LockedRW__read_range::run as fn()),
    ("HeapByteArray4096__LockedRW__write_as_mut_slice", p_HeapByteArray4096__LockedRW__write_as_mut_slice::run as fn()),
    ("HeapByteArray4096__LockedRW__write_deref_mut", p_HeapByteArray4096__LockedRW__write_deref_mut::run as fn()),
    ("HeapByteArray4096__LockedRW__write_as_mut", p_HeapByteArray4096__LockedRW__write_as_mut::run as fn()),
    ("HeapByteArray4096__LockedRW__write_copy_from_slice", p_HeapByteArray4096__LockedRW__write_copy_from_slice::run as fn()),
    ("HeapByteArray4096__LockedRW__write_index", p_HeapByteArray4096__LockedRW__write_index::run as fn()),
    ("HeapByteArray4096__LockedRW__write_fill", p_HeapByteArray4096__LockedRW__write_fill::run as fn()),
    ("HeapByteArray4096__LockedRW__array_as_array", p_HeapByteArray4096__LockedRW__array_as_array::run as fn()),
    ("HeapByteArray4096__LockedRW__array_as_mut_array", p_HeapByteArray4096__LockedRW__array_as_mut_array::run as fn()),
    ("HeapByteArray4096__LockedRW__t_munlock", p_HeapByteArray4096__LockedRW__t_munlock::run as fn()),
    ("HeapByteArray4096__LockedRW__t_mprotect_readonly", p_HeapByteArray4096__LockedRW__t_mprotect_readonly::run as fn()),
    ("HeapByteArray4096__LockedRW__t_mprotect_readwrite", p_HeapByteArray4096__LockedRW__t_mprotect_readwrite::run as fn()),
    ("HeapByteArray4096__LockedRW__use_result_of_munlock", p_HeapByteArray4096__LockedRW__use_result_of_munlock::run as fn()),
    ("HeapByteArray4096__LockedRW__use_result_of_mprotect_readonly", p_HeapByteArray4096__LockedRW__use_result_of_mprotect_readonly::run as fn()),
    ("HeapByteArray4096__LockedRW__use_result_of_mprotect_readwrite", p_HeapByteArray4096__LockedRW__use_result_of_mprotect_readwrite::run as fn()),
    ("HeapByteArray4096__LockedRO__read_as_slice", p_HeapByteArray4096__LockedRO__read_as_slice::run as fn()),
    ("HeapByteArray4096__LockedRO__read_deref", p_HeapByteArray4096__LockedRO__read_deref::run as fn()),
    ("HeapByteArray4096__LockedRO__read_as_ref", p_HeapByteArray4096__LockedRO__read_as_ref::run as fn()),
    ("HeapByteArray4096__LockedRO__read_len", p_HeapByteArray4096__LockedRO__read_len::run as fn()),
    ("HeapByteArray4096__LockedRO__read_index", p_HeapByteArray4096__LockedRO__read_index::run as fn()),
    ("HeapByteArray4096__LockedRO__read_range", p_HeapByteArray4096__LockedRO__read_range::run as fn()),
    ("HeapByteArray4096__LockedRO__array_as_array", p_HeapByteArray4096__LockedRO__array_as_array::run as fn()),
    ("HeapByteArray4096__LockedRO__t_munlock", p_HeapByteArray4096__LockedRO__t_munlock::run as fn()),
    ("HeapByteArray4096__LockedRO__t_mprotect_readonly", p_HeapByteArray4096__LockedRO__t_mprotect_readonly::run as fn()),
    ("HeapByteArray4096__LockedRO__t_mprotect_readwrite", p_HeapByteArray4096__LockedRO__t_mprotect_readwrite::run as fn()),
    ("HeapByteArray4096__LockedRO__use_result_of_munlock", p_HeapByteArray4096__LockedRO__use_result_of_munlock::run as fn()),
    ("HeapByteArray4096__LockedRO__use_result_of_mprotect_readonly", p_HeapByteArray4096__LockedRO__use_result_of_mprotect_readonly::run as fn()),
    ("HeapByteArray4096__LockedRO__use_result_of_mprotect_readwrite", p_HeapByteArray4096__LockedRO__use_result_of_mprotect_readwrite::run as fn()),
    ("HeapByteArray4096__UnlockedRW__read_as_slice", p_HeapByteArray4096__UnlockedRW__read_as_slice::run as fn()),
    ("HeapByteArray4096__UnlockedRW__read_deref", p_HeapByteArray4096__UnlockedRW__read_deref::run as fn()),
    ("HeapByteArray4096__UnlockedRW__read_as_ref", p_HeapByteArray4096__UnlockedRW__read_as_ref::run as fn()),
    ("HeapByteArray4096__UnlockedRW__read_len", p_HeapByteArray4096__UnlockedRW__read_len::run as fn()),
    ("HeapByteArray4096__UnlockedRW__read_index", p_HeapByteArray4096__UnlockedRW__read_index::run as fn()),
    ("HeapByteArray4096__UnlockedRW__read_range", p_HeapByteArray4096__UnlockedRW__read_range::run as fn()),
    ("HeapByteArray4096__UnlockedRW__write_as_mut_slice", p_HeapByteArray4096__UnlockedRW__write_as_mut_slice::run as fn()),
    ("HeapByteArray4096__UnlockedRW__write_deref_mut", p_HeapByteArray4096__UnlockedRW__write_deref_mut::run as fn()),
    ("HeapByteArray4096__UnlockedRW__write_as_mut", p_HeapByteArray4096__UnlockedRW__write_as_mut::run as fn()),
    ("HeapByteArray4096__UnlockedRW__write_copy_from_slice", p_HeapByteArray4096__UnlockedRW__write_copy_from_slice::run as fn()),
    ("HeapByteArray4096__UnlockedRW__write_index", p_HeapByteArray4096__UnlockedRW__write_index::run as fn()),
    ("HeapByteArray4096__UnlockedRW__write_fill", p_HeapByteArray4096__UnlockedRW__write_fill::run as fn()),
    ("HeapByteArray4096__UnlockedRW__array_as_array", p_HeapByteArray4096__UnlockedRW__array_as_array::run as fn()),
    ("HeapByteArray4096__UnlockedRW__array_as_mut_array", p_HeapByteArray4096__UnlockedRW__array_as_mut_array::run as fn()),
    ("HeapByteArray4096__UnlockedRW__clone", p_HeapByteArray4096__UnlockedRW__clone::run as fn()),
    ("HeapByteArray4096__UnlockedRW__clone_from", p_HeapByteArray4096__UnlockedRW__clone_from::run as fn()),
    ("HeapByteArray4096__UnlockedRW__t_mlock", p_HeapByteArray4096__UnlockedRW__t_mlock::run as fn()),
    ("HeapByteArray4096__UnlockedRW__t_munlock", p_HeapByteArray4096__UnlockedRW__t_munlock::run as fn()),
    ("HeapByteArray4096__UnlockedRW__t_mprotect_readonly", p_HeapByteArray4096__UnlockedRW__t_mprotect_readonly::run as fn()),
    ("HeapByteArray4096__UnlockedRW__t_mprotect_readwrite", p_HeapByteArray4096__UnlockedRW__t_mprotect_readwrite::run as fn()),
    ("HeapByteArray4096__UnlockedRW__t_mprotect_noaccess", p_HeapByteArray4096__UnlockedRW__t_mprotect_noaccess::run as fn()),
    ("HeapByteArray4096__UnlockedRW__use_result_of_munlock", p_HeapByteArray4096__UnlockedRW__use_result_of_munlock::run as fn()),
    ("HeapByteArray4096__UnlockedRW__use_result_of_mprotect_readonly", p_HeapByteArray4096__UnlockedRW__use_result_of_mprotect_readonly::run as fn()),
    ("HeapByteArray4096__UnlockedRW__use_result_of_mprotect_readwrite", p_HeapByteArray4096__UnlockedRW__use_result_of_mprotect_readwrite::run as fn()),
    ("HeapByteArray4096__UnlockedRW__use_result_of_mlock", p_HeapByteArray4096__UnlockedRW__use_result_of_mlock::run as fn()),
    ("HeapByteArray4096__UnlockedRW__use_result_of_mprotect_noaccess", p_HeapByteArray4096__UnlockedRW__use_result_of_mprotect_noaccess::run as fn()),
    ("HeapByteArray4096__UnlockedRO__read_as_slice", p_HeapByteArray4096__UnlockedRO__read_as_slice::run as fn()),
    ("HeapByteArray4096__UnlockedRO__read_deref", p_HeapByteArray4096__UnlockedRO__read_deref::run as fn()),
    ("HeapByteArray4096__UnlockedRO__read_as_ref", p_HeapByteArray4096__UnlockedRO__read_as_ref::run as fn()),
    ("HeapByteArray4096__UnlockedRO__read_len", p_HeapByteArray4096__UnlockedRO__read_len::run as fn()),
    ("HeapByteArray4096__UnlockedRO__read_index", p_HeapByteArray4096__UnlockedRO__read_index::run as fn()),
    ("HeapByteArray4096__UnlockedRO__read_range", p_HeapByteArray4096__UnlockedRO__read_range::run as fn()),
    ("HeapByteArray4096__UnlockedRO__array_as_array", p_HeapByteArray4096__UnlockedRO__array_as_array::run as fn()),
    ("HeapByteArray4096__UnlockedRO__clone", p_HeapByteArray4096__UnlockedRO__clone::run as fn()),
    ("HeapByteArray4096__UnlockedRO__clone_from", p_HeapByteArray4096__UnlockedRO__clone_from::run as fn()),
    ("HeapByteArray4096__UnlockedRO__t_mlock", p_HeapByteArray4096__UnlockedRO__t_mlock::run as fn()),
    ("HeapByteArray4096__UnlockedRO__t_munlock", p_HeapByteArray4096__UnlockedRO__t_munlock::run as fn()),
    ("HeapByteArray4096__UnlockedRO__t_mprotect_readonly", p_HeapByteArray4096__UnlockedRO__t_mprotect_readonly::run as fn()),
    ("HeapByteArray4096__UnlockedRO__t_mprotect_readwrite", p_HeapByteArray4096__UnlockedRO__t_mprotect_readwrite::run as fn()),
    ("HeapByteArray4096__UnlockedRO__t_mprotect_noaccess", p_HeapByteArray4096__UnlockedRO__t_mprotect_noaccess::run as fn()),
    ("HeapByteArray4096__UnlockedRO__use_result_of_munlock", p_HeapByteArray4096__UnlockedRO__use_result_of_munlock::run as fn()),
    ("HeapByteArray4096__UnlockedRO__use_result_of_mprotect_readonly", p_HeapByteArray4096__UnlockedRO__use_result_of_mprotect_readonly::run as fn()),
    ("HeapByteArray4096__UnlockedRO__use_result_of_mprotect_readwrite", p_HeapByteArray4096__UnlockedRO__use_result_of_mprotect_readwrite::run as fn()),
    ("HeapByteArray4096__UnlockedRO__use_result_of_mlock", p_HeapByteArray4096__UnlockedRO__use_result_of_mlock::run as fn()),
    ("HeapByteArray4096__UnlockedRO__use_result_of_mprotect_noaccess", p_HeapByteArray4096__UnlockedRO__use_result_of_mprotect_noaccess::run as fn()),
    ("HeapByteArray4096__UnlockedNA__t_munlock", p_HeapByteArray4096__UnlockedNA__t_munlock::run as fn()),
    ("HeapByteArray4096__UnlockedNA__t_mprotect_readonly", p_HeapByteArray4096__UnlockedNA__t_mprotect_readonly::run as fn()),
    ("HeapByteArray4096__UnlockedNA__t_mprotect_readwrite", p_HeapByteArray4096__UnlockedNA__t_mprotect_readwrite::run as fn()),
    ("HeapByteArray4096__UnlockedNA__t_mprotect_noaccess", p_HeapByteArray4096__UnlockedNA__t_mprotect_noaccess::run as fn()),
    ("HeapByteArray4096__UnlockedNA__use_result_of_munlock", p_HeapByteArray4096__UnlockedNA__use_result_of_munlock::run as fn()),
    ("HeapByteArray4096__UnlockedNA__use_result_of_mprotect_readonly", p_HeapByteArray4096__UnlockedNA__use_result_of_mprotect_readonly::run as fn()),
    ("HeapByteArray4096__UnlockedNA__use_result_of_mprotect_readwrite", p_HeapByteArray4096__UnlockedNA__use_result_of_mprotect_readwrite::run as fn()),
    ("HeapByteArray4096__UnlockedNA__use_result_of_mprotect_noaccess", p_HeapByteArray4096__UnlockedNA__use_result_of_mprotect_noaccess::run as fn()),
    ("HeapBytesPagePlusSpare__LockedRW__read_as_slice", p_HeapBytesPagePlusSpare__LockedRW__read_as_slice::run as fn()),
    ("HeapBytesPagePlusSpare__LockedRW__read_deref", p_HeapBytesPagePlusSpare__LockedRW__read_deref::run as fn()),
    ("HeapBytesPagePlusSpare__LockedRW__read_as_ref", p_HeapBytesPagePlusSpare__LockedRW__read_as_ref::run as fn()),
    ("HeapBytesPagePlusSpare__LockedRW__read_len", p_HeapBytesPagePlusSpare__LockedRW__read_len::run as fn()),
    ("HeapBytesPagePlusSpare__LockedRW__read_index", p_HeapBytesPagePlusSpare__LockedRW__read_index::run as fn()),
    ("HeapBytesPagePlusSpare__LockedRW__read_range", p_HeapBytesPagePlusSpare__LockedRW__read_range::run as fn()),
    ("HeapBytesPagePlusSpare__LockedRW__write_as_mut_slice", p_HeapBytesPagePlusSpare__LockedRW__write_as_mut_slice::run as fn()),
    ("HeapBytesPagePlusSpare__LockedRW__write_deref_mut", p_HeapBytesPagePlusSpare__LockedRW__write_deref_mut::run as fn()),
    ("HeapBytesPagePlusSpare__LockedRW__write_as_mut", p_HeapBytesPagePlusSpare__LockedRW__write_as_mut::run as fn()),
    ("HeapBytesPagePlusSpare__LockedRW__write_copy_from_slice", p_HeapBytesPagePlusSpare__LockedRW__write_copy_from_slice::run as fn()),
    ("HeapBytesPagePlusSpare__LockedRW__write_index", p_HeapBytesPagePlusSpare__LockedRW__write_index::run as fn()),
    ("HeapBytesPagePlusSpare__LockedRW__write_fill", p_HeapBytesPagePlusSpare__LockedRW__write_fill::run as fn()),
    ("HeapBytesPagePlusSpare__LockedRW__resize", p_HeapBytesPagePlusSpare__LockedRW__resize::run as fn()),
    ("HeapBytesPagePlusSpare__LockedRW__clone", p_HeapBytesPagePlusSpare__LockedRW__clone::run as fn()),
    ("HeapBytesPagePlusSpare__LockedRW__clone_from", p_HeapBytesPagePlusSpare__LockedRW__clone_from::run as fn()),
    ("HeapBytesPagePlusSpare__LockedRW__t_munlock", p_HeapBytesPagePlusSpare__LockedRW__t_munlock::run as fn()),
    ("HeapBytesPagePlusSpare__LockedRW__t_mprotect_readonly", p_HeapBytesPagePlusSpare__LockedRW__t_mprotect_readonly::run as fn()),
    ("HeapBytesPagePlusSpare__LockedRW__t_mprotect_readwrite", p_HeapBytesPagePlusSpare__LockedRW__t_mprotect_readwrite::run as fn()),
    ("HeapBytesPagePlusSpare__LockedRW__use_result_of_munlock", p_HeapBytesPagePlusSpare__LockedRW__use_result_of_munlock::run as fn()),
    ("HeapBytesPagePlusSpare__LockedRW__use_result_of_mprotect_readonly", p_HeapBytesPagePlusSpare__LockedRW__use_result_of_mprotect_readonly::run as fn()),
    ("HeapBytesPagePlusSpare__LockedRW__use_result_of_mprotect_readwrite", p_HeapBytesPagePlusSpare__LockedRW__use_result_of_mprotect_readwrite::run as fn()),
    ("HeapBytesPagePlusSpare__LockedRO__read_as_slice", p_HeapBytesPagePlusSpare__LockedRO__read_as_slice::run as fn()),
    ("HeapBytesPagePlusSpare__LockedRO__read_deref", p_HeapBytesPagePlusSpare__LockedRO__read_deref::run as fn()),
    ("HeapBytesPagePlusSpare__LockedRO__read_as_ref", p_HeapBytesPagePlusSpare__LockedRO__read_as_ref::run as fn()),
    ("HeapBytesPagePlusSpare__LockedRO__read_len", p_HeapBytesPagePlusSpare__LockedRO__read_len::run as fn()),
    ("HeapBytesPagePlusSpare__LockedRO__read_index", p_HeapBytesPagePlusSpare__LockedRO__read_index::run as fn()),
    ("HeapBytesPagePlusSpare__LockedRO__read_range", p_HeapBytesPagePlusSpare__LockedRO__read_range::run as fn()),
    ("HeapBytesPagePlusSpare__LockedRO__clone", p_HeapBytesPagePlusSpare__LockedRO__clone::run as fn()),
    ("HeapBytesPagePlusSpare__LockedRO__clone_from", p_HeapBytesPagePlusSpare__LockedRO__clone_from::run as fn()),
    ("HeapBytesPagePlusSpare__LockedRO__t_munlock", p_HeapBytesPagePlusSpare__LockedRO__t_munlock::run as fn()),
    ("HeapBytesPagePlusSpare__LockedRO__t_mprotect_readonly", p_HeapBytesPagePlusSpare__LockedRO__t_mprotect_readonly::run as fn()),
    ("HeapBytesPagePlusSpare__LockedRO__t_mprotect_readwrite", p_HeapBytesPagePlusSpare__LockedRO__t_mprotect_readwrite::run as fn()),
    ("HeapBytesPagePlusSpare__LockedRO__use_result_of_munlock", p_HeapBytesPagePlusSpare__LockedRO__use_result_of_munlock::run as fn()),
    ("HeapBytesPagePlusSpare__LockedRO__use_result_of_mprotect_readonly", p_HeapBytesPagePlusSpare__LockedRO__use_result_of_mprotect_readonly::run as fn()),
    ("HeapBytesPagePlusSpare__LockedRO__use_result_of_mprotect_readwrite", p_HeapBytesPagePlusSpare__LockedRO__use_result_of_mprotect_readwrite::run as fn()),
    ("HeapBytesPagePlusSpare__UnlockedRW__read_as_slice", p_HeapBytesPagePlusSpare__UnlockedRW__read_as_slice::run as fn()),
    ("HeapBytesPagePlusSpare__UnlockedRW__read_deref", p_HeapBytesPagePlusSpare__UnlockedRW__read_deref::run as fn()),
    ("HeapBytesPagePlusSpare__UnlockedRW__read_as_ref", p_HeapBytesPagePlusSpare__UnlockedRW__read_as_ref::run as fn()),
    ("HeapBytesPagePlusSpare__UnlockedRW__read_len", p_HeapBytesPagePlusSpare__UnlockedRW__read_len::run as fn()),
    ("HeapBytesPagePlusSpare__UnlockedRW__read_index", p_HeapBytesPagePlusSpare__UnlockedRW__read_index::run as fn()),
    ("HeapBytesPagePlusSpare__UnlockedRW__read_range", p_HeapBytesPagePlusSpare__UnlockedRW__read_range::run as fn()),
    ("HeapBytesPagePlusSpare__UnlockedRW__write_as_mut_slice", p_HeapBytesPagePlusSpare__UnlockedRW__write_as_mut_slice::run as fn()),
    ("HeapBytesPagePlusSpare__UnlockedRW__write_deref_mut", p_HeapBytesPagePlusSpare__UnlockedRW__write_deref_mut::run as fn()),
    ("HeapBytesPagePlusSpare__UnlockedRW__write_as_mut", p_HeapBytesPagePlusSpare__UnlockedRW__write_as_mut::run as fn()),
    ("HeapBytesPagePlusSpare__UnlockedRW__write_copy_from_slice", p_HeapBytesPagePlusSpare__UnlockedRW__write_copy_from_slice::run as fn()),
    ("HeapBytesPagePlusSpare__UnlockedRW__write_index", p_HeapBytesPagePlusSpare__UnlockedRW__write_index::run as fn()),
    ("HeapBytesPagePlusSpare__UnlockedRW__write_fill", p_HeapBytesPagePlusSpare__UnlockedRW__write_fill::run as fn()),
    ("HeapBytesPagePlusSpare__UnlockedRW__resize", p_HeapBytesPagePlusSpare__UnlockedRW__resize::run as fn()),
    ("HeapBytesPagePlusSpare__UnlockedRW__clone", p_HeapBytesPagePlusSpare__UnlockedRW__clone::run as fn()),
    ("HeapBytesPagePlusSpare__UnlockedRW__clone_from", p_HeapBytesPagePlusSpare__UnlockedRW__clone_from::run as fn()),
    ("HeapBytesPagePlusSpare__UnlockedRW__t_mlock", p_HeapBytesPagePlusSpare__UnlockedRW__t_mlock::run as fn()),
    ("HeapBytesPagePlusSpare__UnlockedRW__t_munlock", p_HeapBytesPagePlusSpare__UnlockedRW__t_munlock::run as fn()),
    ("HeapBytesPagePlusSpare__UnlockedRW__t_mprotect_readonly", p_HeapBytesPagePlusSpare__UnlockedRW__t_mprotect_readonly::run as fn()),
    ("HeapBytesPagePlusSpare__UnlockedRW__t_mprotect_readwrite", p_HeapBytesPagePlusSpare__UnlockedRW__t_mprotect_readwrite::run as fn()),
    ("HeapBytesPagePlusSpare__UnlockedRW__t_mprotect_noaccess", p_HeapBytesPagePlusSpare__UnlockedRW__t_mprotect_noaccess::run as fn()),
    ("HeapBytesPagePlusSpare__UnlockedRW__use_result_of_munlock", p_HeapBytesPagePlusSpare__UnlockedRW__use_result_of_munlock::run as fn()),
    ("HeapBytesPagePlusSpare__UnlockedRW__use_result_of_mprotect_readonly", p_HeapBytesPagePlusSpare__UnlockedRW__use_result_of_mprotect_readonly::run as fn()),
    ("HeapBytesPagePlusSpare__UnlockedRW__use_result_of_mprotect_readwrite", p_HeapBytesPagePlusSpare__UnlockedRW__use_result_of_mprotect_readwrite::run as fn()),
    ("HeapBytesPagePlusSpare__UnlockedRW__use_result_of_mlock", p_HeapBytesPagePlusSpare__UnlockedRW__use_result_of_mlock::run as fn()),
    ("HeapBytesPagePlusSpare__UnlockedRW__use_result_of_mprotect_noaccess", p_HeapBytesPagePlusSpare__UnlockedRW__use_result_of_mprotect_noaccess::run as fn()),
    ("HeapBytesPagePlusSpare__UnlockedRO__read_as_slice", p_HeapBytesPagePlusSpare__UnlockedRO__read_as_slice::run as fn()),
    ("HeapBytesPagePlusSpare__UnlockedRO__read_deref", p_HeapBytesPagePlusSpare__UnlockedRO__read_deref::run as fn()),
    ("HeapBytesPagePlusSpare__UnlockedRO__read_as_ref", p_HeapBytesPagePlusSpare__UnlockedRO__read_as_ref::run as fn()),
    ("HeapBytesPagePlusSpare__UnlockedRO__read_len", p_HeapBytesPagePlusSpare__UnlockedRO__read_len::run as fn()),
    ("HeapBytesPagePlusSpare__UnlockedRO__read_index", p_HeapBytesPagePlusSpare__UnlockedRO__read_index::run as fn()),
    ("HeapBytesPagePlusSpare__UnlockedRO__read_range", p_HeapBytesPagePlusSpare__UnlockedRO__read_range::run as fn()),
    ("HeapBytesPagePlusSpare__UnlockedRO__clone", p_HeapBytesPagePlusSpare__UnlockedRO__clone::run as fn()),
    ("HeapBytesPagePlusSpare__UnlockedRO__clone_from", p_HeapBytesPagePlusSpare__UnlockedRO__clone_from::run as fn()),
    ("HeapBytesPagePlusSpare__UnlockedRO__t_mlock", p_HeapBytesPagePlusSpare__UnlockedRO__t_mlock::run as fn()),
    ("HeapBytesPagePlusSpare__UnlockedRO__t_munlock", p_HeapBytesPagePlusSpare__UnlockedRO__t_munlock::run as fn()),
    ("HeapBytesPagePlusSpare__UnlockedRO__t_mprotect_readonly", p_HeapBytesPagePlusSpare__UnlockedRO__t_mprotect_readonly::run as fn()),
    ("HeapBytesPagePlusSpare__UnlockedRO__t_mprotect_readwrite", p_HeapBytesPagePlusSpare__UnlockedRO__t_mprotect_readwrite::run as fn()),
    ("HeapBytesPagePlusSpare__UnlockedRO__t_mprotect_noaccess", p_HeapBytesPagePlusSpare__UnlockedRO__t_mprotect_noaccess::run as fn()),
    ("HeapBytesPagePlusSpare__UnlockedRO__use_result_of_munlock", p_HeapBytesPagePlusSpare__UnlockedRO__use_result_of_munlock::run as fn()),
    ("HeapBytesPagePlusSpare__UnlockedRO__use_result_of_mprotect_readonly", p_HeapBytesPagePlusSpare__UnlockedRO__use_result_of_mprotect_readonly::run as fn()),
    ("HeapBytesPagePlusSpare__UnlockedRO__use_result_of_mprotect_readwrite", p_HeapBytesPagePlusSpare__UnlockedRO__use_result_of_mprotect_readwrite::run as fn()),
    ("HeapBytesPagePlusSpare__UnlockedRO__use_result_of_mlock", p_HeapBytesPagePlusSpare__UnlockedRO__use_result_of_mlock::run as fn()),
    ("HeapBytesPagePlusSpare__UnlockedRO__use_result_of_mprotect_noaccess", p_HeapBytesPagePlusSpare__UnlockedRO__use_result_of_mprotect_noaccess::run as fn()),
    ("HeapBytesPagePlusSpare__UnlockedNA__t_munlock", p_HeapBytesPagePlusSpare__UnlockedNA__t_munlock::run as fn()),
    ("HeapBytesPagePlusSpare__UnlockedNA__t_mprotect_readonly", p_HeapBytesPagePlusSpare__UnlockedNA__t_mprotect_readonly::run as fn()),
    ("HeapBytesPagePlusSpare__UnlockedNA__t_mprotect_readwrite", p_HeapBytesPagePlusSpare__UnlockedNA__t_mprotect_readwrite::run as fn()),
    ("HeapBytesPagePlusSpare__UnlockedNA__t_mprotect_noaccess", p_HeapBytesPagePlusSpare__UnlockedNA__t_mprotect_noaccess::run as fn()),
    ("HeapBytesPagePlusSpare__UnlockedNA__use_result_of_munlock", p_HeapBytesPagePlusSpare__UnlockedNA__use_result_of_munlock::run as fn()),
    ("HeapBytesPagePlusSpare__UnlockedNA__use_result_of_mprotect_readonly", p_HeapBytesPagePlusSpare__UnlockedNA__use_result_of_mprotect_readonly::run as fn()),
    ("HeapBytesPagePlusSpare__UnlockedNA__use_result_of_mprotect_readwrite", p_HeapBytesPagePlusSpare__UnlockedNA__use_result_of_mprotect_readwrite::run as fn()),
    ("HeapBytesPagePlusSpare__UnlockedNA__use_result_of_mprotect_noaccess", p_HeapBytesPagePlusSpare__UnlockedNA__use_result_of_mprotect_noaccess::run as fn()),
    ("stream__Push__push", p_stream__Push__push::run as fn()),
    ("stream__Push__push_to_vec", p_stream__Push__push_to_vec::run as fn()),
    ("stream__Pull__pull", p_stream__Pull__pull::run as fn()),
    ("stream__Pull__pull_to_vec", p_stream__Pull__pull_to_vec::run as fn()),
    ("HeapBytes__LockedRW__view_serde_json", p_HeapBytes__LockedRW__view_serde_json::run as fn()),
    ("HeapBytes__LockedRW__view_bincode", p_HeapBytes__LockedRW__view_bincode::run as fn()),
    ("HeapBytes__LockedRW__view_to_vec", p_HeapBytes__LockedRW__view_to_vec::run as fn()),
    ("HeapBytes__LockedRW__view_iter", p_HeapBytes__LockedRW__view_iter::run as fn()),
    ("HeapBytes__LockedRW__zeroize_then_readonly", p_HeapBytes__LockedRW__zeroize_then_readonly::run as fn()),
    ("HeapBytes__LockedRW__zeroize_then_readwrite", p_HeapBytes__LockedRW__zeroize_then_readwrite::run as fn()),
    ("HeapBytes__LockedRO__view_serde_json", p_HeapBytes__LockedRO__view_serde_json::run as fn()),
    ("HeapBytes__LockedRO__view_bincode", p_HeapBytes__LockedRO__view_bincode::run as fn()),
    ("HeapBytes__LockedRO__view_to_vec", p_HeapBytes__LockedRO__view_to_vec::run as fn()),
    ("HeapBytes__LockedRO__view_iter", p_HeapBytes__LockedRO__view_iter::run as fn()),
    ("HeapBytes__LockedRO__zeroize_then_readonly", p_HeapBytes__LockedRO__zeroize_then_readonly::run as fn()),
    ("HeapBytes__LockedRO__zeroize_then_readwrite", p_HeapBytes__LockedRO__zeroize_then_readwrite::run as fn()),
    ("HeapBytes__UnlockedRW__view_to_vec", p_HeapBytes__UnlockedRW__view_to_vec::run as fn()),
    ("HeapBytes__UnlockedRW__view_iter", p_HeapBytes__UnlockedRW__view_iter::run as fn()),
    ("HeapBytes__UnlockedRW__zeroize_then_readonly", p_HeapBytes__UnlockedRW__zeroize_then_readonly::run as fn()),
    ("HeapBytes__UnlockedRW__zeroize_then_readwrite", p_HeapBytes__UnlockedRW__zeroize_then_readwrite::run as fn()),
    ("HeapBytes__UnlockedRO__view_to_vec", p_HeapBytes__UnlockedRO__view_to_vec::run as fn()),
    ("HeapBytes__UnlockedRO__view_iter", p_HeapBytes__UnlockedRO__view_iter::run as fn()),
    ("HeapBytes__UnlockedRO__zeroize_then_readonly", p_HeapBytes__UnlockedRO__zeroize_then_readonly::run as fn()),
    ("HeapBytes__UnlockedRO__zeroize_then_readwrite", p_HeapBytes__UnlockedRO__zeroize_then_readwrite::run as fn()),
    ("HeapBytes__UnlockedNA__zeroize_then_readonly", p_HeapBytes__UnlockedNA__zeroize_then_readonly::run as fn()),
    ("HeapBytes__UnlockedNA__zeroize_then_readwrite", p_HeapBytes__UnlockedNA__zeroize_then_readwrite::run as fn()),
    ("HeapBytes__UnlockedNA__t_mlock", p_HeapBytes__UnlockedNA__t_mlock::run as fn()),
    ("HeapByteArray32__LockedRW__view_serde_json", p_HeapByteArray32__LockedRW__view_serde_json::run as fn()),
    ("HeapByteArray32__LockedRW__view_bincode", p_HeapByteArray32__LockedRW__view_bincode::run as fn()),
    ("HeapByteArray32__LockedRW__view_to_vec", p_HeapByteArray32__LockedRW__view_to_vec::run as fn()),
    ("HeapByteArray32__LockedRW__view_iter", p_HeapByteArray32__LockedRW__view_iter::run as fn()),
    ("HeapByteArray32__LockedRW__zeroize_then_readonly", p_HeapByteArray32__LockedRW__zeroize_then_readonly::run as fn()),
    ("HeapByteArray32__LockedRW__zeroize_then_readwrite", p_HeapByteArray32__LockedRW__zeroize_then_readwrite::run as fn()),
    ("HeapByteArray32__LockedRO__view_to_vec", p_HeapByteArray32__LockedRO__view_to_vec::run as fn()),
    ("HeapByteArray32__LockedRO__view_iter", p_HeapByteArray32__LockedRO__view_iter::run as fn()),
    ("HeapByteArray32__LockedRO__zeroize_then_readonly", p_HeapByteArray32__LockedRO__zeroize_then_readonly::run as fn()),
    ("HeapByteArray32__LockedRO__zeroize_then_readwrite", p_HeapByteArray32__LockedRO__zeroize_then_readwrite::run as fn()),
    ("HeapByteArray32__UnlockedRW__view_to_vec", p_HeapByteArray32__UnlockedRW__view_to_vec::run as fn()),
    ("HeapByteArray32__UnlockedRW__view_iter", p_HeapByteArray32__UnlockedRW__view_iter::run as fn()),
    ("HeapByteArray32__UnlockedRW__zeroize_then_readonly", p_HeapByteArray32__UnlockedRW__zeroize_then_readonly::run as fn()),
    ("HeapByteArray32__UnlockedRW__zeroize_then_readwrite", p_HeapByteArray32__UnlockedRW__zeroize_then_readwrite::run as fn()),
    ("HeapByteArray32__UnlockedRO__view_to_vec", p_HeapByteArray32__UnlockedRO__view_to_vec::run as fn()),
    ("HeapByteArray32__UnlockedRO__view_iter", p_HeapByteArray32__UnlockedRO__view_iter::run as fn()),
    ("HeapByteArray32__UnlockedRO__zeroize_then_readonly", p_HeapByteArray32__UnlockedRO__zeroize_then_readonly::run as fn()),
    ("HeapByteArray32__UnlockedRO__zeroize_then_readwrite", p_HeapByteArray32__UnlockedRO__zeroize_then_readwrite::run as fn()),
    ("HeapByteArray32__UnlockedNA__zeroize_then_readonly", p_HeapByteArray32__UnlockedNA__zeroize_then_readonly::run as fn()),
    ("HeapByteArray32__UnlockedNA__zeroize_then_readwrite", p_HeapByteArray32__UnlockedNA__zeroize_then_readwrite::run as fn()),
    ("HeapByteArray32__UnlockedNA__t_mlock", p_HeapByteArray32__UnlockedNA__t_mlock::run as fn()),
    ("HeapByteArray4096__LockedRW__view_serde_json", p_HeapByteArray4096__LockedRW__view_serde_json::run as fn()),
    ("HeapByteArray4096__LockedRW__view_bincode", p_HeapByteArray4096__LockedRW__view_bincode::run as fn()),
    ("HeapByteArray4096__LockedRW__view_to_vec", p_HeapByteArray4096__LockedRW__view_to_vec::run as fn()),
    ("HeapByteArray4096__LockedRW__view_iter", p_HeapByteArray4096__LockedRW__view_iter::run as fn()),
    ("HeapByteArray4096__LockedRW__zeroize_then_readonly", p_HeapByteArray4096__LockedRW__zeroize_then_readonly::run as fn()),
    ("HeapByteArray4096__LockedRW__zeroize_then_readwrite", p_HeapByteArray4096__LockedRW__zeroize_then_readwrite::run as fn()),
    ("HeapByteArray4096__LockedRO__view_to_vec", p_HeapByteArray4096__LockedRO__view_to_vec::run as fn()),
    ("HeapByteArray4096__LockedRO__view_iter", p_HeapByteArray4096__LockedRO__view_iter::run as fn()),
    ("HeapByteArray4096__LockedRO__zeroize_then_readonly", p_HeapByteArray4096__LockedRO__zeroize_then_readonly::run as fn()),
    ("HeapByteArray4096__LockedRO__zeroize_then_readwrite", p_HeapByteArray4096__LockedRO__zeroize_then_readwrite::run as fn()),
    ("HeapByteArray4096__UnlockedRW__view_to_vec", p_HeapByteArray4096__UnlockedRW__view_to_vec::run as fn()),
    ("HeapByteArray4096__UnlockedRW__view_iter", p_HeapByteArray4096__UnlockedRW__view_iter::run as fn()),
    ("HeapByteArray4096__UnlockedRW__zeroize_then_readonly", p_HeapByteArray4096__UnlockedRW__zeroize_then_readonly::run as fn()),
    ("HeapByteArray4096__UnlockedRW__zeroize_then_readwrite", p_HeapByteArray4096__UnlockedRW__zeroize_then_readwrite::run as fn()),
    ("HeapByteArray4096__UnlockedRO__view_to_vec", p_HeapByteArray4096__UnlockedRO__view_to_vec::run as fn()),
    ("HeapByteArray4096__UnlockedRO__view_iter", p_HeapByteArray4096__UnlockedRO__view_iter::run as fn()),
    ("HeapByteArray4096__UnlockedRO__zeroize_then_readonly", p_HeapByteArray4096__UnlockedRO__zeroize_then_readonly::run as fn()),
    ("HeapByteArray4096__UnlockedRO__zeroize_then_readwrite", p_HeapByteArray4096__UnlockedRO__zeroize_then_readwrite::run as fn()),
    ("HeapByteArray4096__UnlockedNA__zeroize_then_readonly", p_HeapByteArray4096__UnlockedNA__zeroize_then_readonly::run as fn()),
    ("HeapByteArray4096__UnlockedNA__zeroize_then_readwrite", p_HeapByteArray4096__UnlockedNA__zeroize_then_readwrite::run as fn()),
    ("HeapByteArray4096__UnlockedNA__t_mlock", p_HeapByteArray4096__UnlockedNA__t_mlock::run as fn()),
    ("HeapBytesPagePlusSpare__LockedRW__view_serde_json", p_HeapBytesPagePlusSpare__LockedRW__view_serde_json::run as fn()),
    ("HeapBytesPagePlusSpare__LockedRW__view_bincode", p_HeapBytesPagePlusSpare__LockedRW__view_bincode::run as fn()),
    ("HeapBytesPagePlusSpare__LockedRW__view_to_vec", p_HeapBytesPagePlusSpare__LockedRW__view_to_vec::run as fn()),
    ("HeapBytesPagePlusSpare__LockedRW__view_iter", p_HeapBytesPagePlusSpare__LockedRW__view_iter::run as fn()),
    ("HeapBytesPagePlusSpare__LockedRW__zeroize_then_readonly", p_HeapBytesPagePlusSpare__LockedRW__zeroize_then_readonly::run as fn()),
    ("HeapBytesPagePlusSpare__LockedRW__zeroize_then_readwrite", p_HeapBytesPagePlusSpare__LockedRW__zeroize_then_readwrite::run as fn()),
    ("HeapBytesPagePlusSpare__LockedRO__view_serde_json", p_HeapBytesPagePlusSpare__LockedRO__view_serde_json::run as fn()),
    ("HeapBytesPagePlusSpare__LockedRO__view_bincode", p_HeapBytesPagePlusSpare__LockedRO__view_bincode::run as fn()),
    ("HeapBytesPagePlusSpare__LockedRO__view_to_vec", p_HeapBytesPagePlusSpare__LockedRO__view_to_vec::run as fn()),
    ("HeapBytesPagePlusSpare__LockedRO__view_iter", p_HeapBytesPagePlusSpare__LockedRO__view_iter::run as fn()),
    ("HeapBytesPagePlusSpare__LockedRO__zeroize_then_readonly", p_HeapBytesPagePlusSpare__LockedRO__zeroize_then_readonly::run as fn()),
    ("HeapBytesPagePlusSpare__LockedRO__zeroize_then_readwrite", p_HeapBytesPagePlusSpare__LockedRO__zeroize_then_readwrite::run as fn()),
    ("HeapBytesPagePlusSpare__UnlockedRW__view_to_vec", p_HeapBytesPagePlusSpare__UnlockedRW__view_to_vec::run as fn()),
    ("HeapBytesPagePlusSpare__UnlockedRW__view_iter", p_HeapBytesPagePlusSpare__UnlockedRW__view_iter::run as fn()),
    ("HeapBytesPagePlusSpare__UnlockedRW__zeroize_then_readonly", p_HeapBytesPagePlusSpare__UnlockedRW__zeroize_then_readonly::run as fn()),
    ("HeapBytesPagePlusSpare__UnlockedRW__zeroize_then_readwrite", p_HeapBytesPagePlusSpare__UnlockedRW__zeroize_then_readwrite::run as fn()),
    ("HeapBytesPagePlusSpare__UnlockedRO__view_to_vec", p_HeapBytesPagePlusSpare__UnlockedRO__view_to_vec::run as fn()),
    ("HeapBytesPagePlusSpare__UnlockedRO__view_iter", p_HeapBytesPagePlusSpare__UnlockedRO__view_iter::run as fn()),
    ("HeapBytesPagePlusSpare__UnlockedRO__zeroize_then_readonly", p_HeapBytesPagePlusSpare__UnlockedRO__zeroize_then_readonly::run as fn()),
    ("HeapBytesPagePlusSpare__UnlockedRO__zeroize_then_readwrite", p_HeapBytesPagePlusSpare__UnlockedRO__zeroize_then_readwrite::run as fn()),
    ("HeapBytesPagePlusSpare__UnlockedNA__zeroize_then_readonly", p_HeapBytesPagePlusSpare__UnlockedNA__zeroize_then_readonly::run as fn()),
    ("HeapBytesPagePlusSpare__UnlockedNA__zeroize_then_readwrite", p_HeapBytesPagePlusSpare__UnlockedNA__zeroize_then_readwrite::run as fn()),
    ("HeapBytesPagePlusSpare__UnlockedNA__t_mlock", p_HeapBytesPagePlusSpare__UnlockedNA__t_mlock::run as fn()),
];

fn main() {
    for (name, f) in PROGS {
        unsafe {
            let pid = libc::fork();
            if pid == 0 { f(); libc::_exit(0); }
            let mut st: libc::c_int = 0;
            libc::waitpid(pid, &mut st, 0);
            let sig = if libc::WIFSIGNALED(st) { libc::WTERMSIG(st) } else { 0 };
            let code = if libc::WIFEXITED(st) { libc::WEXITSTATUS(st) } else { -1 };
            println!("RUN {} exit={} signal={}", name, code, sig);
        }
    }
}
