#![allow(unused_imports, unused_mut, unused_variables, dead_code)]
use dryoc::protected::*;
use dryoc::types::*;

pub fn run() {
    let key = dryoc::dryocstream::Key::from(&[7u8; 32]);
    let (mut push, header): (dryoc::dryocstream::DryocStream<dryoc::dryocstream::Push>, dryoc::dryocstream::Header) = dryoc::dryocstream::DryocStream::init_push(&key);
    let c: Vec<u8> = push.push(&b"hi".to_vec(), None, dryoc::dryocstream::Tag::MESSAGE).unwrap();
    let mut pull = dryoc::dryocstream::DryocStream::init_pull(&key, &header);
    let (m, _t) = pull.pull_to_vec(&c, None).unwrap(); assert_eq!(m, b"hi");
}
