#![allow(unused_imports, unused_mut, unused_variables, dead_code)]
use dryoc::protected::*;
use dryoc::types::*;

pub fn run() {
    let mut p = { let mut u = HeapBytes::from_slice_into_locked(&[1u8; 32]).unwrap().munlock().unwrap(); u.resize(8192, 1); u.resize(4096, 1); u.mlock().unwrap() };
    use zeroize::Zeroize; p.zeroize(); let q = p.mprotect_readonly().unwrap(); std::hint::black_box(&q);
}
