#![allow(unused_imports, unused_mut, unused_variables, dead_code)]
use dryoc::protected::*;
use dryoc::types::*;

pub fn run() {
    let p = HeapBytes::from_slice_into_locked(&[1u8; 32]).unwrap().mprotect_readonly().unwrap();
    let mut q = HeapBytes::from_slice_into_locked(&[1u8; 32]).unwrap().mprotect_readonly().unwrap(); q.clone_from(&p); std::hint::black_box(&q);
}
