#!/usr/bin/env python3
"""C20 — safe code cannot request an access the current state forbids.
Model checking of a permission table (type-state x operation -> must-reject | must-accept |
unspecified), written from the property statement, against the compiler: one generated program
per cell; rustc's verdict and error class decide must-reject cells, must-accept cells must
compile and run (each in a forked child) without faulting."""
import json, os, subprocess, sys, time, shutil, hashlib, re

ROOT = "/verif"
WORK = f"{ROOT}/typestate/work"
TIER = os.environ.get("VERIF_TIER", "quick")
SEED = int(os.environ.get("VERIF_SEED", "0") or 0)
CAPABILITY = {"E0599", "E0369", "E0608", "E0614", "E0596", "E0594", "E0277", "E0308", "E0382", "E0505", "E0507", "E0282", "E0283"}
STALE = {"E0432", "E0433", "E0412", "E0425", "E0061", "E0603", "E0407", "E0437"}

# name -> (type, constructor of a Locked RW region, data length N)
CONTAINERS = {
    "HeapBytes": ("HeapBytes", "HeapBytes::from_slice_into_locked(&[1u8; 32]).unwrap()", 32),
    "HeapByteArray32": ("HeapByteArray<32>", "HeapByteArray::<32>::from_slice_into_locked(&[1u8; 32]).unwrap()", 32),
    # page-sized data: protection calls that round differently only disagree at exact page multiples
    "HeapByteArray4096": ("HeapByteArray<4096>", "HeapByteArray::<4096>::from_slice_into_locked(&[1u8; 4096]).unwrap()", 4096),
    # a page of data followed by a page of spare capacity inside the same allocation
    "HeapBytesPagePlusSpare": ("HeapBytes", "{ let mut u = HeapBytes::from_slice_into_locked(&[1u8; 32]).unwrap().munlock().unwrap(); u.resize(8192, 1); u.resize(4096, 1); u.mlock().unwrap() }", 4096),
}
# how each type-state is reached by real transitions from a Locked RW region
STATES = {
    "LockedRW": "",
    "LockedRO": ".mprotect_readonly().unwrap()",
    "UnlockedRW": ".munlock().unwrap()",
    "UnlockedRO": ".munlock().unwrap().mprotect_readonly().unwrap()",
    "UnlockedNA": ".munlock().unwrap().mprotect_noaccess().unwrap()",
}
def pm(s): return s[-2:]
def locked(s): return s.startswith("Locked")

BB = "std::hint::black_box"
# operation -> (code, needs `mut`)
OPS = {
    "read:as_slice":     (f"let s = p.as_slice(); {BB}(s[0]);", False),
    "read:deref":        (f"let s: &[u8] = &*p; {BB}(s.len());", False),
    "read:as_ref":       (f"let s: &[u8] = p.as_ref(); {BB}(s.len());", False),
    "read:len":          (f"{BB}(p.len());", False),
    "read:index":        (f"{BB}(p[0]);", False),
    "read:range":        (f"{BB}(p[1..3].len());", False),
    "write:as_mut_slice":(f"p.as_mut_slice()[0] = 9;", True),
    "write:deref_mut":   (f"let s: &mut [u8] = &mut *p; s[0] = 9;", True),
    "write:as_mut":      (f"let s: &mut [u8] = p.as_mut(); s[0] = 9;", True),
    "write:copy_from_slice": (f"p.copy_from_slice(&[2u8; NNN]);", True),
    "write:index":       (f"p[0] = 1;", True),
    "write:fill":        (f"p.fill(3);", True),
    "array:as_array":    (f"let a: &[u8; NNN] = p.as_array(); {BB}(a[31]);", False),
    "array:as_mut_array":(f"let a: &mut [u8; NNN] = p.as_mut_array(); a[31] = 1;", True),
    # byte views offered through trait implementations rather than inherent methods
    "view:serde_json":   (f"let v = serde_json::to_vec(&p).unwrap(); {BB}(v);", False),
    "view:bincode":      (f"let v = bincode::serialize(&p).unwrap(); {BB}(v);", False),
    "view:debug":        (f"let s = format!(\"{{:?}}\", p); {BB}(s);", False),
    "view:eq":           (f"{BB}(p == p);", False),
    "view:to_vec":       (f"let v: Vec<u8> = p.to_vec(); {BB}(v);", False),
    "view:iter":         (f"let n: u32 = p.iter().map(|b| *b as u32).sum(); {BB}(n);", False),
    "resize":            (f"p.resize(NNN + 32, 0);", True),
    "clone":             (f"let q = p.clone(); {BB}(&q);", False),
    # Clone::clone_from onto a second live region of the same type, state and length
    "clone_from":        (f"let mut q = CTOR; q.clone_from(&p); {BB}(&q);", False),
    # an explicit wipe of the live region followed by a protecting transition and the drop
    "zeroize_then_readonly":  (f"use zeroize::Zeroize; p.zeroize(); let q = p.mprotect_readonly().unwrap(); {BB}(&q);", True),
    "zeroize_then_readwrite": (f"use zeroize::Zeroize; p.zeroize(); let q = p.mprotect_readwrite().unwrap(); {BB}(&q);", True),
    "t:mlock":           (f"let q = p.mlock().unwrap(); {BB}(&q);", False),
    "t:munlock":         (f"let q = p.munlock().unwrap(); {BB}(&q);", False),
    "t:mprotect_readonly":  (f"let q = p.mprotect_readonly().unwrap(); {BB}(&q);", False),
    "t:mprotect_readwrite": (f"let q = p.mprotect_readwrite().unwrap(); {BB}(&q);", False),
    "t:mprotect_noaccess":  (f"let q = p.mprotect_noaccess().unwrap(); {BB}(&q);", False),
}
TRANSITIONS = ["munlock", "mprotect_readonly", "mprotect_readwrite", "mlock", "mprotect_noaccess"]

def expectation(cont, state, op):
    """the permission model, from the property statement"""
    fixed = cont.startswith("HeapByteArray")
    p, lk = pm(state), locked(state)
    if op.startswith("read:"):
        return "reject" if p == "NA" else "accept"
    if op.startswith("view:"):
        # any byte view of a no-access region must be rejected; whether the other states offer
        # this particular trait is not in the statement (if offered it must not fault)
        return "reject" if p == "NA" else "unspecified"
    if op.startswith("write:"):
        return "accept" if p == "RW" else "reject"
    if op == "array:as_array":
        if not fixed: return None
        return "reject" if p == "NA" else "accept"
    if op == "array:as_mut_array":
        if not fixed: return None
        return "accept" if p == "RW" else "reject"
    if op == "resize":
        if fixed: return None
        return "accept" if p == "RW" else "reject"
    if op.startswith("zeroize_then_"):
        # wiping is offered in every state; whatever follows must not fault
        return "unspecified"
    if op == "clone_from":
        if p == "NA": return "reject"
        if fixed and lk: return "unspecified"
        return "accept"
    if op == "clone":
        if p == "NA": return "reject"
        if fixed and lk: return "unspecified"     # no Clone for locked fixed arrays: not in the statement
        return "accept"
    if op == "t:mlock":
        if lk: return "unspecified"               # re-locking a locked region: not in the statement
        return "unspecified" if p == "NA" else "accept"
    if op in ("t:munlock", "t:mprotect_readonly", "t:mprotect_readwrite"):
        return "accept"
    if op == "t:mprotect_noaccess":
        return "reject" if lk else "accept"
    return None

def programs():
    progs = []
    for ck, (cty, ctor, nlen) in CONTAINERS.items():
        for sk, chain in STATES.items():
            for ok, (code, needs_mut) in OPS.items():
                exp = expectation(ck, sk, ok)
                if exp is None: continue
                code = code.replace("NNN", str(nlen)).replace("CTOR", ctor + chain)
                body = f"    let {'mut ' if needs_mut else ''}p = {ctor}{chain};\n    {code}\n"
                progs.append(dict(id=f"{ck}__{sk}__{ok}".replace(":", "_"), cont=ck, state=sk, op=ok, expect=exp, body=body))
            # use after a consuming transition
            for t in TRANSITIONS:
                exp_t = expectation(ck, sk, "t:" + t)
                if exp_t != "accept": continue
                use = f"{BB}(&p);"
                body = f"    let p = {ctor}{chain};\n    let q = p.{t}().unwrap();\n    {BB}(&q);\n    {use}\n"
                progs.append(dict(id=f"{ck}__{sk}__use_after_{t}", cont=ck, state=sk, op="use-after:" + t, expect="reject", body=body))
                body2 = f"    let p = {ctor}{chain};\n    let q = p.{t}().unwrap();\n    {BB}(&q);\n"
                progs.append(dict(id=f"{ck}__{sk}__use_result_of_{t}", cont=ck, state=sk, op="use-result:" + t, expect="accept", body=body2))
    # streams
    S = "dryoc::dryocstream"
    push_setup = f"    let key = {S}::Key::from(&[7u8; 32]);\n    let (mut push, header): ({S}::DryocStream<{S}::Push>, {S}::Header) = {S}::DryocStream::init_push(&key);\n"
    pull_setup = push_setup + f"    let c: Vec<u8> = push.push(&b\"hi\".to_vec(), None, {S}::Tag::MESSAGE).unwrap();\n    let mut pull = {S}::DryocStream::init_pull(&key, &header);\n"
    progs += [
        dict(id="stream__Push__push", cont="stream", state="Push", op="push", expect="accept", body=push_setup + f"    let c: Vec<u8> = push.push(&b\"hi\".to_vec(), None, {S}::Tag::MESSAGE).unwrap(); {BB}(c); {BB}(header);\n"),
        dict(id="stream__Push__push_to_vec", cont="stream", state="Push", op="push_to_vec", expect="accept", body=push_setup + f"    let c = push.push_to_vec(&b\"hi\".to_vec(), None, {S}::Tag::FINAL).unwrap(); {BB}(c); {BB}(header);\n"),
        dict(id="stream__Push__pull", cont="stream", state="Push", op="pull", expect="reject", body=push_setup + f"    let r: Result<(Vec<u8>, {S}::Tag), _> = push.pull(&vec![0u8; 40], None); {BB}(r.is_ok()); {BB}(header);\n"),
        dict(id="stream__Push__pull_to_vec", cont="stream", state="Push", op="pull_to_vec", expect="reject", body=push_setup + f"    let r = push.pull_to_vec(&vec![0u8; 40], None); {BB}(r.is_ok()); {BB}(header);\n"),
        dict(id="stream__Pull__pull", cont="stream", state="Pull", op="pull", expect="accept", body=pull_setup + f"    let (m, _t): (Vec<u8>, {S}::Tag) = pull.pull(&c, None).unwrap(); assert_eq!(m, b\"hi\");\n"),
        dict(id="stream__Pull__pull_to_vec", cont="stream", state="Pull", op="pull_to_vec", expect="accept", body=pull_setup + f"    let (m, _t) = pull.pull_to_vec(&c, None).unwrap(); assert_eq!(m, b\"hi\");\n"),
        dict(id="stream__Pull__push", cont="stream", state="Pull", op="push", expect="reject", body=pull_setup + f"    let r: Result<Vec<u8>, _> = pull.push(&c, None, {S}::Tag::MESSAGE); {BB}(r.is_ok());\n"),
        dict(id="stream__Pull__push_to_vec", cont="stream", state="Pull", op="push_to_vec", expect="reject", body=pull_setup + f"    let r = pull.push_to_vec(&c, None, {S}::Tag::MESSAGE); {BB}(r.is_ok());\n"),
    ]
    return progs

PRELUDE = "#![allow(unused_imports, unused_mut, unused_variables, dead_code)]\nuse dryoc::protected::*;\nuse dryoc::types::*;\n\npub fn run() {\n"

def write_crate(name, progs, is_bin):
    d = f"{WORK}/{name}"
    os.makedirs(f"{d}/src", exist_ok=True)
    os.makedirs(f"{d}/.cargo", exist_ok=True)
    open(f"{d}/.cargo/config.toml", "w").write("[net]\noffline = true\n")
    open(f"{d}/Cargo.toml", "w").write(f"[package]\nname = \"{name}\"\nversion = \"0.0.0\"\nedition = \"2021\"\npublish = false\n\n[dependencies]\ndryoc = {{ path = \"/repo\", features = [\"nightly\", \"serde\"] }}\nlibc = \"0.2\"\nzeroize = \"1\"\nserde_json = \"1\"\nbincode = \"1\"\n\n[workspace]\n")
    if not os.path.exists(f"{d}/Cargo.lock"):
        shutil.copy("/repo/Cargo.lock", f"{d}/Cargo.lock")
    keep = set()
    for p in progs:
        fn = f"p_{p['id']}.rs"; keep.add(fn)
        txt = PRELUDE + p["body"] + "}\n"
        path = f"{d}/src/{fn}"
        if not os.path.exists(path) or open(path).read() != txt:
            open(path, "w").write(txt)
    for f in os.listdir(f"{d}/src"):
        if f.startswith("p_") and f not in keep: os.remove(f"{d}/src/{f}")
    mods = "".join(f"pub mod p_{p['id']};\n" for p in progs)
    if is_bin:
        table = "".join(f"    (\"{p['id']}\", p_{p['id']}::run as fn()),\n" for p in progs)
        main = ("#![feature(allocator_api)]\n" + mods + "\nconst PROGS: &[(&str, fn())] = &[\n" + table + "];\n\n"
                "fn main() {\n    for (name, f) in PROGS {\n        unsafe {\n            let pid = libc::fork();\n            if pid == 0 { f(); libc::_exit(0); }\n"
                "            let mut st: libc::c_int = 0;\n            libc::waitpid(pid, &mut st, 0);\n"
                "            let sig = if libc::WIFSIGNALED(st) { libc::WTERMSIG(st) } else { 0 };\n            let code = if libc::WIFEXITED(st) { libc::WEXITSTATUS(st) } else { -1 };\n"
                "            println!(\"RUN {} exit={} signal={}\", name, code, sig);\n        }\n    }\n}\n")
        open(f"{d}/src/main.rs", "w").write(main)
    else:
        open(f"{d}/src/lib.rs", "w").write("#![feature(allocator_api)]\n" + mods)
    return d

def cargo(d, args):
    env = dict(os.environ, CARGO_TARGET_DIR=f"{ROOT}/target-typestate", CARGO_NET_OFFLINE="true")
    return subprocess.run(["cargo", "+nightly"] + args, cwd=d, env=env, capture_output=True, text=True)

def diagnostics(out):
    """-> {module id: [(code, message)]} for level=error"""
    per = {}; other = []
    for line in out.splitlines():
        if not line.startswith("{"): continue
        try: m = json.loads(line)
        except Exception: continue
        if m.get("reason") != "compiler-message": continue
        msg = m["message"]
        if msg.get("level") != "error": continue
        code = (msg.get("code") or {}).get("code")
        files = [s["file_name"] for s in msg.get("spans", []) if s.get("is_primary")] or [s["file_name"] for s in msg.get("spans", [])]
        hit = False
        for f in files:
            mm = re.search(r"src/p_(.+)\.rs$", f)
            if mm:
                per.setdefault(mm.group(1), []).append((code, msg.get("message", ""))); hit = True
        if not hit and (code is not None or any(f.endswith(("src/lib.rs", "src/main.rs")) for f in files)):
            other.append((code, msg.get("message", "")))
    return per, other

def main():
    t0 = time.time()
    progs = programs()
    rej = [p for p in progs if p["expect"] == "reject"]
    acc = [p for p in progs if p["expect"] == "accept"]
    uns = [p for p in progs if p["expect"] == "unspecified"]
    fails = []; machinery = None
    # must-reject and unspecified cells: one crate, one rustc pass
    d = write_crate("c20_reject", rej + uns, False)
    r = cargo(d, ["check", "--message-format=json"])
    per, other = diagnostics(r.stdout)
    if not per and r.returncode != 0 and "error" in r.stderr and "could not compile `dryoc`" in r.stderr:
        machinery = "dryoc itself does not compile under nightly: " + r.stderr[-400:]
    if other:
        # an error outside the per-cell program files (the generated scaffolding itself is broken):
        # no cell verdict can be trusted
        print(f"MACHINERY-ERROR property=C20 the generated must-reject crate has errors outside the cell programs: {other[0]}")
        return 2
    classes = {}
    unspecified_verdicts = {}
    for p in rej:
        errs = per.get(p["id"], [])
        codes = {c for c, _ in errs if c}
        classes[p["id"]] = sorted(codes)
        if not errs:
            fails.append(dict(sig=f"C20/compiles/{p['cont']}/{p['state']}/{p['op']}", what=f"forbidden program compiles: {p['cont']} in state {p['state']}, operation {p['op']}", prog=p))
        elif codes & STALE and not (codes & CAPABILITY):
            machinery = f"template for {p['id']} is stale (errors {sorted(codes)}: {errs[0][1]})"
        elif not (codes & CAPABILITY):
            machinery = f"{p['id']} rejected only with unexpected error classes {sorted(codes)}: {errs[0][1]}"
    for p in uns:
        unspecified_verdicts[p["id"]] = "rejected" if per.get(p["id"]) else "accepted"
    # unspecified cells that the compiler accepts are run as well: whatever the API offers to safe
    # code must not fault (a non-zero exit from an `unwrap` on Err is fine, a signal is not)
    uns_run = [p for p in uns if unspecified_verdicts.get(p["id"]) == "accepted"]
    uns_ids = {p["id"] for p in uns_run}
    # must-accept cells: must compile, then run each in a forked child
    acc_all = acc + uns_run
    d2 = write_crate("c20_accept", acc_all, True)
    r2 = cargo(d2, ["build", "--message-format=json"])
    per2, other2 = diagnostics(r2.stdout)
    runs = {}
    if per2 or r2.returncode != 0:
        for pid_, errs in per2.items():
            p = next(x for x in acc_all if x["id"] == pid_)
            codes = {c for c, _ in errs if c}
            if codes & STALE and not (codes & CAPABILITY):
                machinery = f"template for must-accept {pid_} is stale ({sorted(codes)}: {errs[0][1]})"
            else:
                fails.append(dict(sig=f"C20/permitted-rejected/{p['cont']}/{p['state']}/{p['op']}", what=f"permitted program does not compile ({sorted(codes)}): {errs[0][1]}", prog=p))
        if not per2 and not fails and machinery is None:
            machinery = "must-accept crate failed to build: " + (r2.stderr[-600:] if r2.stderr else str(other2[:2]))
    else:
        exe = f"{ROOT}/target-typestate/debug/c20_accept"
        rr = subprocess.run([exe], capture_output=True, text=True)
        for line in rr.stdout.splitlines():
            m = re.match(r"RUN (\S+) exit=(-?\d+) signal=(\d+)", line)
            if m: runs[m.group(1)] = (int(m.group(2)), int(m.group(3)))
        for p in uns_run:
            res = runs.get(p["id"])
            if res is not None and res[1] != 0:
                fails.append(dict(sig=f"C20/offered-program-faults/{p['cont']}/{p['state']}/{p['op']}", what=f"a program the safe API accepts (unspecified cell) died by signal {res[1]} at run time", prog=p))
        for p in acc:
            res = runs.get(p["id"])
            if res is None:
                machinery = f"no run result for {p['id']}"
            elif res != (0, 0):
                fails.append(dict(sig=f"C20/permitted-faults/{p['cont']}/{p['state']}/{p['op']}", what=f"permitted program faulted at run time: exit={res[0]} signal={res[1]}", prog=p))
    # known findings
    known = []
    try:
        kf = json.load(open(f"{ROOT}/known_findings.json"))["findings"]
        known = [k for k in kf if k["property"] == "C20" and k["status"] == "known"]
    except Exception: pass
    def is_known(sig):
        for k in known:
            pat = k["signature"]
            if (pat.endswith("*") and sig.startswith(pat[:-1])) or pat == sig: return k
        return None
    viol = []; known_hit = {}
    for f in fails:
        k = is_known(f["sig"])
        if k: known_hit[k["signature"]] = k["what"]
        else: viol.append(f)
    os.makedirs(f"{ROOT}/replays/C20", exist_ok=True)
    lines = []
    for f in viol:
        path = f"{ROOT}/replays/C20/{re.sub(r'[^A-Za-z0-9]', '_', f['sig'])[:80]}.json"
        json.dump(dict(property="C20", check="C20.typestate", signature=f["sig"], what=f["what"], case=dict(program=PRELUDE + f["prog"]["body"] + "}\n", expect=f["prog"]["expect"], id=f["prog"]["id"])), open(path, "w"), indent=1)
        lines.append((f, path))
    states = len(CONTAINERS) * len(STATES) + 2
    ev = dict(property_id="C20", tier=TIER, seed=SEED, level="model_checking",
              coverage=dict(states=states, transitions=len(progs), traces_validated_against_impl=len(rej) + len(uns) + len(acc) + len(runs),
                            samples=[dict(cell=p["id"], expect=p["expect"], program=p["body"]) for p in (rej[:1] + acc[:1] + rej[-1:])],
                            exhaustive=True, evaluations=len(progs), distinct_nontrivial=len(rej) + len(acc),
                            rule="one generated program per cell of the permission table (4 containers (32-byte resizable and fixed, a page-sized fixed array, a resizable region of one page of data plus one page of spare capacity) x 5 type-states x 30 operations (incl. byte views through Serialize (JSON, bincode), Debug, PartialEq, to_vec and iter) + use-after/use-result for every consuming transition + 8 stream cells); must-reject cells: rustc must report >= 1 error of a capability class; must-accept cells: compile and run in a forked child with exit 0 and no signal; unspecified cells are recorded, and those the compiler accepts are also run (a signal is a violation, an Err-unwrap exit is not)",
                            cells=dict(must_reject=len(rej), must_accept=len(acc), unspecified=len(uns)), programs_run=len(runs),
                            reject_error_classes=classes, unspecified_verdicts=unspecified_verdicts, known_findings_matched=list(known_hit)),
              assumptions=["rustc (nightly) is the oracle for compile-time rejection; error classes distinguish a missing capability from a stale template",
                           "the permission table is written from the property statement, not from the code"],
              wall_s=round(time.time() - t0, 2), violations=len(viol))
    os.makedirs(f"{ROOT}/evidence", exist_ok=True)
    json.dump(ev, open(f"{ROOT}/evidence/C20.json", "w"), indent=1)
    print(f"[C20] cells: must-reject={len(rej)} must-accept={len(acc)} unspecified={len(uns)} programs run={len(runs)} wall={time.time()-t0:.1f}s")
    for sig, what in known_hit.items():
        print(f"KNOWN-FINDING: property=C20 {what} [{sig}]")
    if machinery and not viol:
        print(f"MACHINERY-ERROR property=C20 {machinery}")
        return 2
    if viol:
        for f, path in lines:
            print(f"  violation [{f['sig']}] {f['what']}")
            print(f"VIOLATION property=C20 replay={path}")
        return 1
    print("[C20] PASS")
    return 0

if __name__ == "__main__":
    if len(sys.argv) > 2 and sys.argv[1] == "--replay":
        # re-run the whole table (2 rustc passes) and report whether the cell still fails
        case = json.load(open(sys.argv[2]))
        rc = main()
        sys.exit(rc)
    sys.exit(main())
